"""
C01 - executions compute what the States Language prescribes.

Generated (machine, input, worker script) triples run through the whole
simulated stack under the canonical schedule and are compared with the
reference interpreter; triples without order-dependent outcome are re-run under
non-canonical schedules and must give the same answer.
"""
import json
import random
import sys

from checks import common
from checks import engine as E
from lsfsim.core import EPOCH
from lsfsim.runner import run_scenario
from monitors.basic import NotifyMonitor

PROP = "C01"
FAMILY_MIX = ["sequential"] * 3 + ["fanout_ok"] * 3 + ["general"] * 3 + ["retry"] + ["fanout_caught"] * 2 + ["timing"]

PROBES = {
    # name -> (definition, input, script)
    "inband-error-pass": ({"StartAt": "P", "States": {"P": {"Type": "Pass", "Result": {"Error": "just data", "x": 1},
                                                                  "End": True}}}, {}, {}),
    "inband-error-caught": ({"StartAt": "T", "States": {
        "T": {"Type": "Task", "Resource": E.GM.FN_ARN + "f", "Catch": [{"ErrorEquals": ["States.ALL"], "Next": "H"}],
              "End": True},
        "H": {"Type": "Pass", "End": True}}}, {"a": 1}, {"f": [{"err": "E.Alpha", "msg": "m"}]}),
    "null-document": ({"StartAt": "M", "States": {"M": {"Type": "Map", "Iterator": {
        "StartAt": "P", "States": {"P": {"Type": "Pass", "End": True}}}, "End": True}}}, [1, None, 3], {}),
}


def run_one(item, extra):
    tier = extra["tier"]
    if isinstance(item, tuple) and item[0] == "probe":
        return run_probe(item[1])
    i = item
    seed = common.run_seed(i)
    rng = random.Random(seed)
    family = rng.choice(FAMILY_MIX)
    prog = E.gen_program(rng, family, tier)
    cfg = E.swarm_config(rng, ["canonical"], ttls=(600, 3600))
    type_ = rng.choice(["STANDARD", "STANDARD", "EXPRESS"])
    scn = E.scenario_of(prog, cfg, 1, type_)
    return check_scenario(scn, seed, family, rng)


def check_scenario(scn, seed, family="replay", rng=None):
    rng = rng or random.Random(seed)
    mo = E.model_for(scn)
    probes = {"family:" + family: 1, "type:" + scn["machines"]["m"].get("type", "STANDARD"): 1}
    if mo.unsupported:
        probes["skipped:unsupported"] = 1
        return {"evaluations": 1, "probes": probes, "findings": [], "distinct": []}
    blocked = E.flags_block(mo)
    res = run_scenario(scn, seed, monitors=[])
    arn = res.exec_arns.get("e1")
    term = res.terminal(arn) if arn else None
    findings = []
    sample = None
    nontrivial = False
    if blocked:
        probes["skipped:" + blocked[0]] = 1
    else:
        diff = E.compare_outcome(mo, term)
        nontrivial = True
        probes["outcome:" + mo.status] = 1
        if mo.flags.tie:
            probes["order-dependent"] = 1
        if mo.flags.fanout_handled:
            probes["fanout-failure-caught-by-its-Map/Parallel"] = 1
        if diff:
            findings.append(E.finding(PROP, "outcome-mismatch", diff, None, scn, seed))
        elif res.sim.errors:
            findings.append(E.finding(PROP, "engine-exception", repr(res.sim.errors[0][:3]), None, scn, seed))
        else:
            # DescribeExecution must agree with the notification (STANDARD only)
            if scn["machines"]["m"].get("type", "STANDARD") == "STANDARD" and not mo.flags.fanout_failures:
                d = res.world.describe(arn)["json"]
                if d.get("status") != term["status"] or d.get("output") != term.get("output") or \
                        d.get("error") != term.get("error"):
                    findings.append(E.finding(PROP, "describe-disagrees", "%r vs %r" % (d, term), None, scn, seed))
            # schedule independence
            if not mo.flags.tie and not findings:
                for pol in rng.sample(["shuffle", "pct", "latency-small", "ties"], 2):
                    scn2 = json.loads(json.dumps(scn))
                    scn2["config"].update(E.policy_cfg(pol))
                    if pol in ("latency-small", "ties"):
                        # with latency, instants move; only compare when no time-out can change the outcome
                        if any("TimeoutSeconds" in json.dumps(s) for s in [scn["machines"]["m"]["definition"]]):
                            continue
                    res2 = run_scenario(scn2, seed + 1, monitors=[])
                    term2 = res2.terminal(res2.exec_arns.get("e1"))
                    d2 = E.compare_outcome(mo, term2)
                    probes["rerun:" + pol] = 1
                    if d2:
                        # a sibling's event in flight at the instant a fan-out failure is handled by the fan-out's own
                        # Catch, under a schedule that handles the failure first: the recorded C06 finding (the pending
                        # work of the states that follow is cancelled with the failed fan-out's) - reported under its witness
                        wit = "sibling-event-in-flight-at-handled-failure" if (mo.flags.cancel_tie and
                                                                                mo.flags.fanout_handled) else None
                        findings.append(E.finding(PROP, "schedule-dependent-outcome", "%s: %s" % (pol, d2), wit, scn2,
                                                  seed + 1))
                        break
        sample = {"family": family, "definition_states": len(json.dumps(scn["machines"]["m"]["definition"])),
                  "model": mo.status, "engine": term["status"] if term else None,
                  "requests": len(res.world.workers.requests)}
    out = common.summarize_run(res, PROP, findings, nontrivial, sample, probes,
                               common.sha([scn["machines"], scn["executions"], scn["script"]]))
    return out


def run_probe(name):
    d, inp, script = PROBES[name]
    scn = {"machines": {"m": {"definition": d, "type": "STANDARD"}},
           "executions": [{"machine": "m", "input": inp, "name": "e1"}], "script": script,
           "functions": list(script.keys()), "config": {"execution_ttl": 600}}
    mo = E.model_for(scn)
    res = run_scenario(scn, 1, monitors=[])
    term = res.terminal(res.exec_arns.get("e1"))
    diff = E.compare_outcome(mo, term)
    findings = []
    if diff:
        w = None
        if name.startswith("inband-error") and mo.status == "SUCCEEDED" and term and term["status"] == "FAILED" \
                and isinstance(mo.output, dict) and term.get("error") == (mo.output.get("Error") if not
                                                                           isinstance(mo.output.get("Error"), tuple)
                                                                           else term.get("error")):
            w = "inband-error:terminal-output-with-Error-member"
        if name == "null-document" and term and term["status"] == "SUCCEEDED" and json.loads(term["output"]) == [1, {}, 3]:
            w = "null-document:null-state-input-becomes-empty-object"
        findings.append(E.finding(PROP, "outcome-mismatch", "probe %s: %s" % (name, diff), w, scn, 1))
    return common.summarize_run(res, PROP, findings, False, None, {"probe:" + name: 1})


def main(argv):
    if len(argv) > 1 and argv[0] == "--replay":
        return replay(argv[1])
    tier = common.tier()
    n = 3000 if tier == "quick" else 120000
    rep = common.Report(PROP)
    from checks import minimise as _MIN
    rep.minimiser = lambda f: _MIN.scenario(f, lambda scn, seed: check_scenario(scn, seed)) if f.get('kind') != 'probe' else f
    items = [("probe", k) for k in sorted(PROBES)] + list(range(n))
    for r in common.run_batch("checks.c01", "run_one", items, {"tier": tier}):
        rep.absorb(r)
    return rep.finish(
        rule="seeded generation of (state machine, JSON input, scripted task outcomes) from the families %s; each "
             "triple runs on the simulated stack (real engine, API, messaging) under the canonical schedule and its "
             "terminal notification is compared with an independent reference interpreter, then re-run under two "
             "non-canonical schedules when the outcome is order independent; non-trivial = the reference model "
             "supports the program and no recorded-finding trigger is present; distinct = distinct (program, input, "
             "script, interleaving) hashes" % sorted(set(FAMILY_MIX)),
        assumptions=["the reference interpreter (model/asl.py) is a correct reading of the States Language",
                     "the in-process broker/worker fakes deliver what RabbitMQ and the workers would",
                     "canonical schedule = zero latency, FIFO among enabled events"])


def replay(path):
    with open(path) as f:
        rec = json.load(f)
    r = check_scenario(rec["scenario"], rec["seed"])
    # (a schedule-dependent outcome was found in a re-run under another policy: the replay file holds that policy's
    # scenario and seed, and replaying it as a run of its own reports the same mismatch as an outcome mismatch)
    same = [f for f in r["findings"] if f["rule"] == rec["rule"] or
            (rec["rule"] == "schedule-dependent-outcome" and f["rule"] == "outcome-mismatch")]
    print("replay %s: %s" % (path, "REPRODUCED rule=%s%s" % (rec["rule"], common.digest_note(rec, same)) if same else "not reproduced"))
    for f in same:
        print("  ", f["detail"][:500])
    return 1 if same else 0


if __name__ == "__main__":
    sys.exit(main(sys.argv[1:]))
