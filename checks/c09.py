"""C09 - see checks/monitored.py (SPECS["C09"]) and DESIGN.md section 5."""
import sys

from checks import monitored

PROP = "C09"


def run_probe(name):
    raise NotImplementedError(name)


if __name__ == "__main__":
    sys.exit(monitored.main_for(PROP, sys.argv[1:]))
