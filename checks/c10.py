"""
C10 - the state-machine and execution API behaves like a simple keyed store.

Seeded call sequences (<= 30 calls over a pool of 3 names, valid and invalid
arguments, wrong JSON types, non-object bodies) are issued through the real
front ends (Quart app on the simulated loop / Flask app) of an engine running
in the simulator, and every response is compared with a reference model that
is just a map from ARN to record; the stores are snapshotted around every call
that is answered with an error; failing sequences are minimised by ddmin.
"""
import copy
import json
import random
import sys

from checks import common
from gen import apiops
from lsfsim.core import EPOCH
from lsfsim.world import World
from model.api import ApiModel

PROP = "C10"
SETTLE = 0.5


def snapshot(node):
    se = node.state_engine
    asl = se.asl_store
    ex = se.executions
    if type(asl).__name__ == "JSONStore":
        a = copy.deepcopy(asl.store)
    else:
        a = {k: dict(asl[k]) for k in asl}
    e = {k: dict(v) for k, v in ex.items()}
    return a, e


def run_ops(ops, seed, front_end, validate_asl=False, collect=None):
    """Runs the sequence; returns (list of finding tuples (rule, witness, detail, index), world)."""
    w = World(seed, transport=front_end, validate_asl=validate_asl, execution_ttl=3600)
    node = w.nodes[0]
    model = ApiModel("local", front_end, validate_asl)
    bad = []
    for i, op in enumerate(ops):
        now = w.sim.now
        params = op.get("params")
        if "raw" in op:
            try:
                params = json.loads(op["raw"])
            except ValueError:
                params = None
        exp = model.expect(op["action"], params, now)
        before = snapshot(node)
        rec = w.api_sync(node, op["action"], params, raw_body=op.get("raw"))
        after = snapshot(node)
        st = rec["status"]
        body = rec["json"]
        if collect is not None:
            collect.append((op["action"], st, (body or {}).get("__type") if isinstance(body, dict) else None))
        if st >= 500 or st < 0:
            bad.append(("internal-error", op["action"], "%s %r answered %s %s" % (op["action"], op.get("params", op.get("raw")), st, (rec["body"] or "")[:120]), i))
        elif exp.get("lenient"):
            # either answer is acceptable; the model follows the service
            if st == 200:
                if exp.get("commit"):
                    exp["commit"]()
            else:
                t = body.get("__type") if isinstance(body, dict) else None
                if t not in exp["types"]:
                    bad.append(("wrong-error-type", op["action"], "%s %r answered %s %r, documented: %s" % (
                        op["action"], op.get("params"), st, t, sorted(exp["types"])), i))
                if before != after:
                    bad.append(("rejected-call-changed-store", op["action"], "%s %r was answered with an error but changed "
                                "the store" % (op["action"], op.get("params")), i))
        elif exp["ok"]:
            if st != 200:
                bad.append(("unexpected-error", op["action"], "%s %r answered %s %s, model expects success" % (
                    op["action"], op.get("params"), st, (rec["body"] or "")[:200]), i))
            else:
                d = exp["check"](body if isinstance(body, dict) else {})
                if d:
                    bad.append(("response-differs", op["action"], "%s %r: %s" % (op["action"], op.get("params"), d), i))
                if exp.get("commit"):
                    exp["commit"]()
        else:
            if st == 200:
                bad.append(("error-not-reported", op["action"], "%s %r answered 200 %s, model expects %s" % (
                    op["action"], op.get("params", op.get("raw")), (rec["body"] or "")[:160], sorted(exp["types"] or [])), i))
                # keep the model in step with what the service did is impossible; stop here
                break
            t = body.get("__type") if isinstance(body, dict) else None
            if exp.get("types") is not None and t not in exp["types"]:
                bad.append(("wrong-error-type", op["action"], "%s %r answered %s %r, documented: %s" % (
                    op["action"], op.get("params"), st, t, sorted(exp["types"])), i))
            if before != after:
                changed = [k for k in set(before[0]) | set(after[0]) if before[0].get(k) != after[0].get(k)]
                bad.append(("rejected-call-changed-store", op["action"],
                            "%s %r was answered with an error but changed %s" % (op["action"], op.get("params"), changed or "executions"), i))
        w.run_for(SETTLE)
        if w.sim.errors:
            bad.append(("engine-exception", None, repr(w.sim.errors[0][:3]), i))
            break
    return bad, w


def ddmin(ops, failing, budget=60):
    """Greedy removal of calls while `failing(ops)` (same rule) stays true."""
    cur = list(ops)
    n = 2
    tries = 0
    while len(cur) >= 2 and tries < budget:
        chunk = max(1, len(cur) // n)
        reduced = False
        for i in range(0, len(cur), chunk):
            cand = cur[:i] + cur[i + chunk:]
            tries += 1
            if cand and failing(cand):
                cur = cand
                n = max(n - 1, 2)
                reduced = True
                break
        if not reduced:
            if chunk == 1:
                break
            n = min(len(cur), n * 2)
    return cur


def untouched_case(k):
    """A machine that does real work (Tasks that fail and are retried / caught, fan-outs, Waits) is created, run once or
    twice, and described: running executions must leave the stored definition as it was created."""
    from checks import engine as E
    from gen import corpus
    seed = common.run_seed(9600000 + k)
    rng = random.Random(seed)
    names = [n for n in sorted(corpus.CORPUS) if not corpus.CORPUS[n].get("machines") and not corpus.CORPUS[n].get("via")]
    if rng.random() < 0.5:
        scn = corpus.scenario(rng.choice(names))
    else:
        prog = E.gen_program(rng, rng.choice(["retry", "retry", "general", "fanout_caught"]), "quick")
        scn = E.scenario_of(prog, {"policy": "canonical", "latency": "zero", "execution_ttl": 600}, 1, "STANDARD")
    scn["config"] = dict(scn["config"], transport=rng.choice(["asyncio", "blocking"]), store=rng.choice(["file", "file", "redis"]))
    if rng.random() < 0.4:
        scn["executions"].append(dict(scn["executions"][0], name="e2", at=rng.choice([0.0, 1.0])))
    return seed, scn


def run_untouched(k, extra):
    from lsfsim.runner import run_scenario
    seed, scn = untouched_case(k)
    res = run_scenario(scn, seed, horizon=scn["config"].get("execution_ttl", 600) + 200)
    w = res.world
    node = w.nodes[0]
    findings = []
    for name, m in sorted(scn["machines"].items()):
        arn = res.sm_arns.get(name)
        if arn is None:
            continue
        d = w.api_sync(node, "DescribeStateMachine", {"stateMachineArn": arn})
        got = None
        try:
            got = json.loads(d["json"]["definition"])
        except (TypeError, KeyError, ValueError):
            pass
        if d["status"] != 200 or got != json.loads(json.dumps(m["definition"])):
            findings.append({"property": PROP, "rule": "definition-changed-by-executions", "witness": "DescribeStateMachine",
                             "detail": "after its executions ran, DescribeStateMachine(%s) -> %s, definition %s; created %s" % (
                                 name, d["status"], json.dumps(got, sort_keys=True)[:300],
                                 json.dumps(m["definition"], sort_keys=True)[:300]), "seed": seed, "untouched": k})
        for ename, earn in sorted(res.exec_arns.items()):
            if m.get("type", "STANDARD") != "STANDARD" or earn is None or ":%s:" % name not in earn:
                continue
            fe = w.api_sync(node, "DescribeStateMachineForExecution", {"executionArn": earn})
            try:
                got2 = json.loads(fe["json"]["definition"])
            except (TypeError, KeyError, ValueError):
                got2 = None
            if fe["status"] == 200 and got2 != json.loads(json.dumps(m["definition"])):
                findings.append({"property": PROP, "rule": "definition-changed-by-executions",
                                 "witness": "DescribeStateMachineForExecution",
                                 "detail": "DescribeStateMachineForExecution(%s) returns %s; created %s" % (
                                     ename, json.dumps(got2, sort_keys=True)[:300], json.dumps(m["definition"], sort_keys=True)[:300]),
                                 "seed": seed, "untouched": k})
    sim = res.sim
    return {"evaluations": 1, "sim_seconds": sim.now - sim.epoch, "steps": sim.steps, "broker_ops": len(sim.broker.oplog),
            "interleavings": [sim.order_hash.hexdigest()[:16]], "distinct": [common.sha(["untouched", scn["machines"]])],
            "probes": {"definition-untouched-runs": 1, "worker-error-reply": sim.stats.get("worker-error-reply", 0)},
            "faults": {k2: v for k2, v in sim.stats.items() if k2.startswith("worker-")},
            "findings": findings[:2], "sample": None}


def run_one(i, extra):
    if isinstance(i, tuple) and i[0] == "untouched":
        return run_untouched(i[1], extra)
    seed = common.run_seed(i)
    rng = random.Random(seed)
    front = rng.choice(["asyncio", "asyncio", "blocking"])
    validate = rng.random() < 0.3 and front == "asyncio"
    n = rng.randint(5, 30)
    ops = apiops.gen_ops(rng, n, front, p_invalid=rng.choice([0.15, 0.3, 0.5]))
    seen = []
    bad, w = run_ops(ops, seed, front, validate, seen)
    findings = []
    done = set()
    for rule, witness, detail, idx in bad:
        if (rule, witness) in done:
            continue
        done.add((rule, witness))

        def failing(cand, rule=rule, witness=witness):
            b, _ = run_ops(cand, seed, front, validate)
            return any(x[0] == rule and x[1] == witness for x in b)
        small = ddmin(ops[:idx + 1], failing)
        findings.append({"property": PROP, "rule": rule, "witness": witness, "detail": detail, "seed": seed,
                         "front_end": front, "validate_asl": validate, "ops": small, "ops_before_minimisation": len(ops)})
    kinds = {}
    for a, st, t in seen:
        k = "%s:%s" % (a, "ok" if st == 200 else (t or st))
        kinds[k] = kinds.get(k, 0) + 1
    sim = w.sim
    return {"evaluations": 1, "sim_seconds": sim.now - sim.epoch, "steps": sim.steps, "broker_ops": len(sim.broker.oplog),
            "interleavings": [sim.order_hash.hexdigest()[:16]],
            "distinct": [common.sha([front, validate, ops])], "probes": dict(kinds, **{"front:" + front: 1, "calls": len(seen)}),
            "findings": findings, "sample": {"front_end": front, "calls": [(o["action"], s, t) for o, (a, s, t) in zip(ops, seen)][:12]}}


def main(argv):
    if len(argv) > 1 and argv[0] == "--replay":
        with open(argv[1]) as f:
            rec = json.load(f)
        if "untouched" in rec:
            r = run_untouched(rec["untouched"], {})
            same = [f for f in r["findings"] if f["rule"] == rec["rule"]]
            print("replay %s: %s" % (argv[1], "REPRODUCED rule=%s" % rec["rule"] if same else "not reproduced"))
            return 1 if same else 0
        bad, _ = run_ops(rec["ops"], rec["seed"], rec["front_end"], rec.get("validate_asl", False))
        same = [b for b in bad if b[0] == rec["rule"] and b[1] == rec.get("witness")]
        print("replay %s: %s" % (argv[1], "REPRODUCED rule=%s%s" % (rec["rule"], common.digest_note(rec, same)) if same else "not reproduced"))
        for b in same[:1]:
            print("  ", b[2][:400])
        return 1 if same else 0
    tier = common.tier()
    n = 2000 if tier == "quick" else 80000
    rep = common.Report(PROP)
    items = [("untouched", k) for k in range(150 if tier == "quick" else 6000)] + list(range(n))
    for r in common.run_batch("checks.c10", "run_one", items, {"tier": tier}):
        rep.absorb(r)
    return rep.finish(
        rule="seeded sequences of 5-30 API calls (Create/Update/Delete/Describe/DescribeForExecution/List state machines, "
             "Start/Describe/List executions) over a pool of 3 names, 2 roles, 5 trivial definitions; 15-50%% of the calls "
             "carry exactly one invalid argument (bad/missing name, ARN, JSON, wrong JSON type, logging configuration) and "
             "3%% a non-object body; issued through the real Quart (asyncio) or Flask (blocking) front end of an engine in "
             "the simulator, 0.5 s of virtual time between calls; every response is compared with a dict model (status, "
             "__type within the documented set, body fields, updateDate advances, lists = live set with statusFilter), "
             "the stores are compared before/after every call answered with an error, no 5xx is accepted; failing "
             "sequences are minimised by ddmin; distinct = distinct (front end, sequence) hashes",
        assumptions=["one invalid argument per call so that the expected error type is unique",
                     "file-backed store, single instance (Redis-backed configuration is C20's subject)"])


if __name__ == "__main__":
    sys.exit(main(sys.argv[1:]))
