"""
C16 - service quotas are enforced at the exact boundary.

The comparison itself is a pure size test; what needs the simulator is reaching
every enforcement point, most of which exist only inside the running message-
driven system: StartExecution / StartSyncExecution input, SendTaskSuccess
output, Pass / Task / Map / Parallel state output, task reply, definition size,
name length and characters, history length.  For each limit L the sizes
L-2..L+2 (and far below / above) are driven to each place.
"""
import base64
import json
import sys

from checks import common
from lsfsim.core import EPOCH
from lsfsim.world import World

PROP = "C16"
L = 262144
LDEF = 1048576
F = "arn:aws:rpcmessage:local::function:"
DELTAS = [-1000, -2, -1, 0, 1, 2, 1000]
BAD_CHARS = ' <>{}[]?*"#%\\^|~`$&,;:/'


def s_of(n):
    """JSON text of exactly n characters: a string value."""
    return '"' + "a" * (n - 2) + '"'


def text_of(n, shape):
    """A JSON text of exactly n characters in the given shape (what is measured is the text as it was sent)."""
    if shape == "string":
        return s_of(n)
    if shape == "padded":            # insignificant whitespace: re-serialising the parsed value gives a SHORTER text
        core = '{"a": "%s"}' % ("p" * 1000)
        return core[:-1] + " " * (n - len(core)) + "}"
    if shape == "compact":           # no spaces after separators: re-serialising gives a LONGER text
        items = ",".join("1" for _ in range(2000))
        head = '{"k":[%s],"s":"' % items
        return head + "c" * (n - len(head) - 2) + '"}'
    if shape == "nested":
        head = '{"a": {"b": [true, null, {"c": "'
        tail = '"}]}}'
        return head + "n" * (n - len(head) - len(tail)) + tail
    raise ValueError(shape)


SHAPES = ["padded", "compact", "nested"]


def verdict(ok_expected, got_ok, place, size, limit, detail):
    if ok_expected != got_ok:
        return [{"property": PROP, "rule": "boundary", "witness": place,
                 "detail": "%s: size %d (limit %d%+d) should be %s but was %s: %s" % (
                     place, size, limit, size - limit, "accepted" if ok_expected else "refused",
                     "accepted" if got_ok else "refused", detail)}]
    return []


def terminal(w, arn):
    evs = w.terminal_events().get(arn, [])
    return evs[0]["body"]["detail"] if evs else None


def run_case(case, extra):
    place, delta = case
    findings = []
    info = {"place": place, "delta": delta}
    shape = "string"
    if ":" in place:
        place, shape = place.split(":")
    info["shape"] = shape
    if place == "start-execution-input":
        w = World(1, execution_ttl=600)
        arn = w.create_machine("m", {"StartAt": "P", "States": {"P": {"Type": "Pass", "Result": 1, "End": True}}})
        text = text_of(L + delta, shape)
        assert len(text) == L + delta
        rec = w.api_sync(w.nodes[0], "StartExecution", {"stateMachineArn": arn, "name": "e", "input": text})
        ok = rec["status"] == 200
        findings += verdict(delta <= 0, ok, place, len(text), L, "%s %s" % (rec["status"], (rec["body"] or "")[:80]))
        if not ok and (rec["json"] or {}).get("__type") != "InvalidExecutionInput":
            findings.append({"property": PROP, "rule": "error-type", "witness": place, "detail": rec["body"][:200]})
        w.run_quiescent(limit=50)
        if ok:
            # an accepted input is an accepted input: the machine's only state keeps nothing of it (Result 1), so no data
            # over the limit is ever produced, whichever way the engine writes the parsed value out again
            t = terminal(w, (rec["json"] or {}).get("executionArn"))
            if t is None or t["status"] != "SUCCEEDED" or json.loads(t.get("output") or "null") != 1:
                findings.append({"property": PROP, "rule": "accepted-input-failed", "witness": shape,
                                 "detail": "input of %d characters (%s) accepted by StartExecution; the execution of a machine "
                                           "that discards its input ended %s" % (
                                               len(text), shape, (t or {}).get("status"), ) + " %r" % ((t or {}).get("error"),)})
    elif place == "start-sync-execution-input":
        w = World(1, execution_ttl=600)
        arn = w.create_machine("m", {"StartAt": "P", "States": {"P": {"Type": "Pass", "Result": 1, "End": True}}}, "EXPRESS")
        text = text_of(L + delta, shape)
        rec = w.api_sync(w.nodes[0], "StartSyncExecution", {"stateMachineArn": arn, "name": "e", "input": text})
        ok = rec["status"] == 200
        findings += verdict(delta <= 0, ok, place, len(text), L, "%s %s" % (rec["status"], (rec["body"] or "")[:80]))
        if ok and ((rec["json"] or {}).get("status") != "SUCCEEDED" or json.loads((rec["json"] or {}).get("output") or "null") != 1):
            findings.append({"property": PROP, "rule": "accepted-input-failed", "witness": shape,
                             "detail": "input of %d characters (%s) accepted by StartSyncExecution; answered %s %r" % (
                                 len(text), shape, (rec["json"] or {}).get("status"), (rec["json"] or {}).get("error"))})
    elif place in ("task-error-reply", "task-garbage-reply"):
        # the reply TEXT is what the quota applies to, whatever it says: an error reply (huge errorMessage) or a body
        # that is not JSON at all, over the limit, fails the state with States.DataLimitExceeded like any other
        n = L + delta
        if place == "task-error-reply":
            head = '{"errorType": "E.Worker", "errorMessage": "'
            text = head + "m" * (n - len(head) - 2) + '"}'
            small_error = "E.Worker"
        else:
            text = "{not json " + "g" * (n - 10)
            small_error = "States.Runtime"
        assert len(text) == n
        d = {"StartAt": "T", "States": {"T": {"Type": "Task", "Resource": F + "big", "End": True}}}
        w = World(1, execution_ttl=600, script={"big": [{"raw": text}]}, functions=["big"])
        arn = w.create_machine("m", d)
        ex = w.start(arn, {"k": 1}, name="e")
        w.run_quiescent(limit=700)
        t = terminal(w, ex)
        want = small_error if delta <= 0 else "States.DataLimitExceeded"
        if t is None:
            findings.append({"property": PROP, "rule": "never-terminal", "witness": place, "detail": "size %d" % n})
        elif t["status"] != "FAILED" or t.get("error") != want:
            findings.append({"property": PROP, "rule": "boundary", "witness": place,
                             "detail": "%s of %d characters (limit %d%+d): execution ended %s %r, expected FAILED %r" % (
                                 place, n, L, delta, t["status"], t.get("error"), want)})
        elif delta > 0 and len(t.get("cause") or "") > L:
            findings.append({"property": PROP, "rule": "boundary", "witness": place,
                             "detail": "the refused reply travelled on as a Cause of %d characters" % len(t.get("cause") or "")})
    elif place == "callback-output-discarded":
        # SendTaskSuccess output of exactly the sizes around L in each text shape, for a Task that keeps nothing of it
        # (ResultSelector): what the API accepted (200) must then also complete the task - the API's check and the
        # engine's own check of the relayed reply have to agree on the text that is measured
        n = L + delta
        d = {"StartAt": "T", "States": {"T": {"Type": "Task", "Resource": "arn:aws:states:local::rpcmessage:invoke.waitForTaskToken",
                                             "Parameters": {"FunctionName": F + "cb", "Payload": {"token.$": "$$.Task.Token"}},
                                             "ResultSelector": {"kept": 1}, "TimeoutSeconds": 30, "End": True}}}
        w = World(1, execution_ttl=600, script={"cb": [{"noreply": True}]}, functions=["cb"])
        arn = w.create_machine("m", d)
        ex = w.start(arn, {"k": 1}, name="e")
        w.run_until(lambda: len(w.workers.requests) > 0, limit=10, what="callback request")
        token = w.workers.requests[0]["payload"]["token"]
        text = text_of(n, shape)
        rec = w.api_sync(w.nodes[0], "SendTaskSuccess", {"taskToken": token, "output": text})
        api_ok = rec["status"] == 200
        findings += verdict(delta <= 0, api_ok, "send-task-success-output", len(text), L, "%s %s" % (rec["status"], (rec["body"] or "")[:80]))
        w.run_quiescent(limit=700)
        t = terminal(w, ex)
        if api_ok and (t is None or t["status"] != "SUCCEEDED"):
            findings.append({"property": PROP, "rule": "accepted-callback-did-not-complete-task", "witness": shape,
                             "detail": "SendTaskSuccess with an output text of %d characters (%s) answered 200, the task then "
                                       "ended %r" % (len(text), shape, t and (t["status"], t.get("error")))})
    elif place in ("pass-output", "task-reply", "task-output-via-resultselector", "callback-output"):
        n = L + delta
        script = {}
        if place == "pass-output":
            d = {"StartAt": "P", "States": {"P": {"Type": "Pass", "Result": "a" * (n - 2), "End": True}}}
        elif place == "task-reply" and shape != "string":
            # the reply text as the worker sent it is what is measured: its re-serialisation is shorter (padded) or
            # longer (compact); the state keeps nothing of it (ResultSelector), so only the reply check decides
            d = {"StartAt": "T", "States": {"T": {"Type": "Task", "Resource": F + "big", "ResultSelector": {"kept": 1},
                                                 "End": True}}}
            script = {"big": [{"raw": text_of(n, shape)}]}
        elif place == "task-reply":
            d = {"StartAt": "T", "States": {"T": {"Type": "Task", "Resource": F + "big", "End": True}}}
            script = {"big": [{"raw": s_of(n)}]}
        elif place == "task-output-via-resultselector":
            # reply is small, the state output grows: {"x": <str>} -> output = the string, via OutputPath
            d = {"StartAt": "T", "States": {"T": {"Type": "Task", "Resource": F + "half", "ResultSelector": {
                "v.$": "States.Format('{}{}', $.s, $.s)"}, "OutputPath": "$.v", "End": True}}}
            m = n - 2
            if m % 2:
                d["States"]["T"]["ResultSelector"] = {"v.$": "States.Format('{}{}b', $.s, $.s)"}
            script = {"half": [{"ok": {"op": "const", "value": {"s": "a" * (m // 2)}}}]}
        else:
            d = {"StartAt": "T", "States": {"T": {"Type": "Task", "Resource": "arn:aws:states:local::rpcmessage:invoke.waitForTaskToken",
                                                 "Parameters": {"FunctionName": F + "cb", "Payload": {"token.$": "$$.Task.Token"}},
                                                 "End": True}}}
            script = {"cb": [{"noreply": True}]}
        w = World(1, execution_ttl=600, script=script, functions=sorted(script))
        arn = w.create_machine("m", d)
        ex = w.start(arn, {"k": 1}, name="e")
        if place == "callback-output":
            w.run_until(lambda: len(w.workers.requests) > 0, limit=10, what="callback request")
            token = w.workers.requests[0]["payload"]["token"]
            text = text_of(n, shape)
            rec = w.api_sync(w.nodes[0], "SendTaskSuccess", {"taskToken": token, "output": text})
            api_ok = rec["status"] == 200
            findings += verdict(delta <= 0, api_ok, "send-task-success-output", len(text), L, "%s %s" % (rec["status"], (rec["body"] or "")[:80]))
            if not api_ok:
                if (rec["json"] or {}).get("__type") != "InvalidOutput":
                    findings.append({"property": PROP, "rule": "error-type", "witness": place, "detail": rec["body"][:200]})
                return summarize(w, case, findings, info)
            if shape != "string":
                # the engine re-serialises the value, so the size of the state's output is not the size that was sent
                w.run_quiescent(limit=700)
                return summarize(w, case, findings, info)
        w.run_quiescent(limit=700)
        t = terminal(w, ex)
        if t is None:
            findings.append({"property": PROP, "rule": "never-terminal", "witness": place, "detail": "size %d" % n})
        else:
            ok = t["status"] == "SUCCEEDED"
            findings += verdict(delta <= 0, ok, place, n, L, "%s %s" % (t["status"], t.get("error")))
            if not ok and t.get("error") != "States.DataLimitExceeded":
                findings.append({"property": PROP, "rule": "error-type", "witness": place,
                                 "detail": "size %d failed with %r" % (n, t.get("error"))})
    elif place == "first-state-after-compact-input":
        # an input text the API accepts (<= L as sent) whose re-serialisation by the engine is longer than L: whichever
        # text the engine measures for the first state's output, the execution has to END (SUCCEEDED, or FAILED with
        # States.DataLimitExceeded) - for every type of first state
        first = {"Pass": {"Type": "Pass", "Next": "Z"}, "Choice": {"Type": "Choice", "Choices": [
                    {"Variable": "$.s", "IsString": True, "Next": "Z"}], "Default": "Z"},
                 "Choice-default": {"Type": "Choice", "Choices": [{"Variable": "$.s", "IsString": False, "Next": "Z"}],
                                    "Default": "Z"},
                 "Wait": {"Type": "Wait", "Seconds": 1, "Next": "Z"}, "Succeed": {"Type": "Succeed"},
                 "Task": {"Type": "Task", "Resource": F + "small", "ResultPath": "$.r", "Next": "Z"},
                 "Parallel": {"Type": "Parallel", "ResultPath": "$.r", "Next": "Z", "Branches": [
                     {"StartAt": "A", "States": {"A": {"Type": "Pass", "Result": 1, "End": True}}}]},
                 "Map": {"Type": "Map", "ItemsPath": "$.k", "MaxConcurrency": 1, "ResultPath": "$.r", "Next": "Z",
                         "ItemProcessor": {"StartAt": "A", "States": {"A": {"Type": "Pass", "Result": 1, "End": True}}}}}[shape]
        states = {"F": first, "Z": {"Type": "Pass", "Result": "small", "End": True}}
        w = World(1, execution_ttl=600, script={"small": [{"ok": {"op": "const", "value": 1}}]}, functions=["small"])
        arn = w.create_machine("m", {"StartAt": "F", "States": states})
        head = '{"k":[%s],"s":"' % ",".join("1" for _ in range(4))
        text = head + "c" * (L + delta - len(head) - 2) + '"}'
        assert len(text) == L + delta and len(json.dumps(json.loads(text))) > L + delta
        rec = w.api_sync(w.nodes[0], "StartExecution", {"stateMachineArn": arn, "name": "e", "input": text})
        findings += verdict(True, rec["status"] == 200, "start-execution-input", len(text), L, "%s" % rec["status"])
        if rec["status"] == 200:
            w.run_quiescent(limit=700)
            t = terminal(w, rec["json"]["executionArn"])
            if t is None:
                findings.append({"property": PROP, "rule": "never-terminal", "witness": "first-state:" + shape,
                                 "detail": "input text of %d characters accepted by StartExecution (%d when the engine writes "
                                           "it), first state %s: the execution never ended" % (
                                               len(text), len(json.dumps(json.loads(text))), shape)})
            elif t["status"] == "FAILED" and t.get("error") != "States.DataLimitExceeded":
                findings.append({"property": PROP, "rule": "error-type", "witness": place, "detail": repr(t.get("error"))})
            info["ended"] = t and t["status"]
    elif place in ("parallel-output", "map-output"):
        # array of two strings; text size depends on the separator (", " vs ","), one character of slack
        n = L + delta
        a = (n - 2 - 2 - 2 - 2) // 2       # spaced text: [ "..." , SP "..." ]  = 2 + (a+2) + 2 + (b+2)
        b = n - 2 - 2 - (a + 2) - 2
        if place == "parallel-output":
            d = {"StartAt": "P", "States": {"P": {"Type": "Parallel", "Branches": [
                {"StartAt": "A", "States": {"A": {"Type": "Pass", "Result": "a" * a, "End": True}}},
                {"StartAt": "B", "States": {"B": {"Type": "Pass", "Result": "b" * b, "End": True}}}], "End": True}}}
            inp = {}
        else:
            d = {"StartAt": "M", "States": {"M": {"Type": "Map", "ItemsPath": "$.items", "ItemProcessor": {
                "StartAt": "A", "States": {"A": {"Type": "Pass", "End": True}}}, "End": True}}}
            inp = {"items": ["a" * a, "b" * b]}
        w = World(1, execution_ttl=600)
        arn = w.create_machine("m", d)
        # the Map input text itself is just below the limit by construction (the object wrapper adds characters),
        # so start through the queue when the API would refuse it
        text = json.dumps(inp)
        if len(text) > L:
            info["skipped"] = "input above limit"
            return summarize(w, case, findings, info)
        ex = w.start(arn, inp, name="e")
        w.run_quiescent(limit=700)
        t = terminal(w, ex)
        spaced = n
        compact = n - 1
        if t is None:
            findings.append({"property": PROP, "rule": "never-terminal", "witness": place, "detail": "size %d" % n})
        else:
            ok = t["status"] == "SUCCEEDED"
            if spaced <= L and not ok:
                findings += verdict(True, ok, place, spaced, L, "%s %s" % (t["status"], t.get("error")))
            if compact > L and ok:
                findings += verdict(False, ok, place, compact, L, "%s" % t["status"])
            if not ok and t.get("error") != "States.DataLimitExceeded":
                findings.append({"property": PROP, "rule": "error-type", "witness": place, "detail": repr(t.get("error"))})
    elif place == "definition":
        w = World(1, execution_ttl=600)
        base = {"Comment": "", "StartAt": "P", "States": {"P": {"Type": "Pass", "End": True}}}
        pad = LDEF + delta - len(json.dumps(base))
        base["Comment"] = "c" * pad
        text = json.dumps(base)
        rec = w.api_sync(w.nodes[0], "CreateStateMachine", {"name": "m", "roleArn": w.ROLE, "definition": text})
        ok = rec["status"] == 200
        findings += verdict(delta <= 0, ok, place, len(text), LDEF, "%s %s" % (rec["status"], (rec["body"] or "")[:80]))
        if ok:
            rec2 = w.api_sync(w.nodes[0], "UpdateStateMachine", {"stateMachineArn": rec["json"]["stateMachineArn"],
                                                                 "definition": text + " " * max(0, 1 - delta)})
            # now one over the limit for delta<=0 -> must be refused
            if len(text + " " * max(0, 1 - delta)) > LDEF and rec2["status"] == 200:
                findings += verdict(False, True, "definition-update", len(text) + max(0, 1 - delta), LDEF, "200")
    elif place == "definition-escaped":
        # the quota is on the definition's characters, not on how long the request becomes once the definition travels as
        # a JSON string (every quote, backslash and newline of it escaped): definitions full of such characters
        w = World(1, execution_ttl=600)
        for fe_name, node in (("front-end", w.nodes[0]),):
            base = {"Comment": "", "StartAt": "P", "States": {"P": {"Type": "Pass", "End": True}}}
            unit = '\"\n\\'                                  # 3 characters that become 6 in the request body
            pad = LDEF + delta - len(json.dumps(base))
            filler = (unit * (pad // 6 + 1))
            # json.dumps doubles each of them inside the definition text already: build the text, then trim the comment
            base["Comment"] = filler
            text = json.dumps(base)
            over = len(text) - (LDEF + delta)
            # removing one character of the unit removes two characters of the text; finish with plain padding
            base["Comment"] = filler[: len(filler) - (over // 2 + 2)]
            text = json.dumps(base)
            base["Comment"] += "c" * (LDEF + delta - len(text))
            text = json.dumps(base)
            assert len(text) == LDEF + delta, (len(text), LDEF + delta)
            rec = w.api_sync(node, "CreateStateMachine", {"name": "m", "roleArn": w.ROLE, "definition": text})
            ok = rec["status"] == 200
            findings += verdict(delta <= 0, ok, place, len(text), LDEF, "%s %s" % (rec["status"], (rec["body"] or "")[:80]))
            if not ok and (rec["json"] or {}).get("__type") != "InvalidDefinition":
                findings.append({"property": PROP, "rule": "error-type", "witness": place,
                                 "detail": "%s %s" % (rec["status"], (rec["body"] or "")[:120])})
    elif place == "definition-empty":
        w = World(1, execution_ttl=600)
        rec = w.api_sync(w.nodes[0], "CreateStateMachine", {"name": "m", "roleArn": w.ROLE, "definition": ""})
        findings += verdict(False, rec["status"] == 200, place, 0, 1, "%s" % rec["status"])
    elif place == "names":
        w = World(1, execution_ttl=600)
        d = json.dumps({"StartAt": "P", "States": {"P": {"Type": "Pass", "End": True}}})
        cases = [("", False), ("a", True), ("a" * 80, True), ("a" * 81, False), ("ok-name_1.x", True)]
        cases += [("a%sb" % c, False) for c in BAD_CHARS]
        for k, (nm, good) in enumerate(cases):
            rec = w.api_sync(w.nodes[0], "CreateStateMachine", {"name": nm, "roleArn": w.ROLE, "definition": d})
            ok = rec["status"] == 200
            if ok != good:
                findings.append({"property": PROP, "rule": "name-boundary", "witness": "state-machine-name",
                                 "detail": "name %r (len %d) %s" % (nm, len(nm), "accepted" if ok else "refused")})
            if not ok and (rec["json"] or {}).get("__type") != "InvalidName":
                findings.append({"property": PROP, "rule": "error-type", "witness": "names", "detail": rec["body"][:100]})
        arn = w.create_machine("forexec", json.loads(d))
        for k, (nm, good) in enumerate(cases):
            rec = w.api_sync(w.nodes[0], "StartExecution", {"stateMachineArn": arn, "name": nm})
            ok = rec["status"] == 200
            if ok != good:
                findings.append({"property": PROP, "rule": "name-boundary", "witness": "execution-name",
                                 "detail": "name %r (len %d) %s" % (nm, len(nm), "accepted" if ok else "refused")})
        w.run_quiescent(limit=50)
        # the Name parameter of a child launch is a name too (it never passes the API's validator)
        child = w.create_machine("kid", json.loads(d))
        launcher = w.create_machine("launcher", {"StartAt": "L", "States": {"L": {
            "Type": "Task", "Resource": "arn:aws:states:local::states:startExecution",
            "Parameters": {"StateMachineArn": child, "Name.$": "$.name", "Input": {}}, "End": True}}})
        for k, (nm, good) in enumerate(cases):
            if nm == "":
                continue        # (an empty Name parameter means "not given": the default name is used)
            w.start(launcher, {"name": nm}, name="l%d" % k)
        w.run_quiescent(limit=100)
        started = set(e["body"]["detail"].get("name") for e in w.subscriber.events
                      if e["body"]["detail"].get("stateMachineArn") == child)
        for k, (nm, good) in enumerate(cases):
            if nm == "":
                continue
            if (nm in started) != good:
                findings.append({"property": PROP, "rule": "name-boundary", "witness": "child-execution-name",
                                 "detail": "child launch with Name %r (len %d) %s" % (
                                     nm, len(nm), "started a child execution" if nm in started else "was refused")})
        info["names"] = len(cases) * 3
    elif place == "history-limit":
        # counting loop: each iteration logs 4 events (Pass entered/exited, Choice entered/exited)
        d = {"StartAt": "Inc", "States": {
            "Inc": {"Type": "Pass", "Parameters": {"n.$": "States.MathAdd($.n, 1)"}, "Next": "More"},
            "More": {"Type": "Choice", "Choices": [{"Variable": "$.n", "NumericLessThan": 100000, "Next": "Inc"}], "Default": "Done"},
            "Done": {"Type": "Succeed"}}}
        w = World(1, execution_ttl=86400, max_steps=400000)
        arn = w.create_machine("m", d)
        ex = w.start(arn, {"n": 0}, name="e")
        w.run_quiescent(limit=2000)
        t = terminal(w, ex)
        h = w.nodes[0].state_engine.execution_history.get(ex, [])
        info["history_events"] = len(h)
        if t is None or t["status"] != "FAILED":
            findings.append({"property": PROP, "rule": "history-limit", "witness": None,
                             "detail": "execution with an unbounded history ended %r with %d events" % (
                                 t and t["status"], len(h))})
        elif len(h) > 25000 + 10:
            findings.append({"property": PROP, "rule": "history-limit", "witness": None,
                             "detail": "history grew to %d events" % len(h)})
    elif place == "history-limit-retry":
        # no state is ever entered again: the history grows by LambdaFunctionScheduled / LambdaFunctionFailed per attempt
        d = {"StartAt": "T", "States": {"T": {"Type": "Task", "Resource": F + "bad", "End": True, "Retry": [
            {"ErrorEquals": ["States.ALL"], "IntervalSeconds": 1, "BackoffRate": 1.0, "MaxAttempts": 99999999}]}}}
        w = World(1, execution_ttl=86400, max_steps=600000, script={"bad": [{"err": "E.Always", "delay": 0.0}]},
                  functions=["bad"])
        arn = w.create_machine("m", d)
        ex = w.start(arn, {"n": 0}, name="e")
        from lsfsim.core import HarnessError
        try:
            w.run_until(lambda: terminal(w, ex) is not None or
                        len(w.nodes[0].state_engine.execution_history.get(ex, [])) > 25000 + 40, limit=30000,
                        what="history limit through retries")
        except HarnessError:
            pass        # neither ended nor grew within the time: judged below (an execution retried for ever at the limit)
        t = terminal(w, ex)
        h = w.nodes[0].state_engine.execution_history.get(ex, [])
        info["history_events"] = len(h)
        if t is None or t["status"] != "FAILED" or len(h) > 25000 + 10:
            findings.append({"property": PROP, "rule": "history-limit", "witness": "retry",
                             "detail": "a Task retried for ever: execution %r with %d history events" % (
                                 t and (t["status"], t.get("error")), len(h))})
        elif t.get("error") != "States.ExecutionHistoryLimitExceeded":
            findings.append({"property": PROP, "rule": "error-type", "witness": place, "detail": repr(t.get("error"))})
    else:
        raise ValueError(place)
    case = (case[0], case[1])
    return summarize(w, case, findings, info)


def summarize(w, case, findings, info):
    sim = w.sim
    for f in findings:
        f["case"] = list(case)
    if sim.errors:
        findings.append({"property": PROP, "rule": "engine-exception", "witness": case[0],
                         "detail": repr(sim.errors[0][:3]), "case": list(case)})
    return {"evaluations": info.get("names", 1), "sim_seconds": sim.now - sim.epoch, "steps": sim.steps,
            "broker_ops": len(sim.broker.oplog), "interleavings": [], "distinct": [common.sha(list(case))],
            "probes": {"place:" + case[0]: 1}, "findings": findings, "sample": info}


PLACES = ["start-execution-input", "start-sync-execution-input", "pass-output", "task-reply",
          "task-output-via-resultselector", "callback-output", "parallel-output", "map-output", "definition"]


def main(argv):
    if len(argv) > 1 and argv[0] == "--replay":
        with open(argv[1]) as f:
            rec = json.load(f)
        r = run_case(tuple(rec["case"]), {})
        same = [f for f in r["findings"] if f["rule"] == rec["rule"]]
        print("replay %s: %s" % (argv[1], "REPRODUCED" if same else "not reproduced"))
        return 1 if same else 0
    tier = common.tier()
    cases = [(p, d) for p in PLACES for d in DELTAS] + [("definition-empty", 0), ("names", 0)]
    cases += [("%s:%s" % (p, sh), d) for p in ("start-execution-input", "start-sync-execution-input", "callback-output", "task-reply")
              for sh in SHAPES for d in DELTAS]
    cases += [("callback-output-discarded:%s" % sh, d) for sh in ["string"] + SHAPES for d in DELTAS]
    cases += [(p, d) for p in ("task-error-reply", "task-garbage-reply") for d in DELTAS]
    cases += [("definition-escaped", d) for d in (-100000, -2, -1, 0, 1, 2)]
    cases += [("first-state-after-compact-input:%s" % st, d) for st in ("Pass", "Choice", "Choice-default", "Wait",
                                                                        "Succeed", "Task", "Parallel", "Map")
              for d in (-1000, -3, -2, -1, 0)]
    cases.append(("history-limit", 0))
    cases.append(("history-limit-retry", 0))
    rep = common.Report(PROP)
    for r in common.run_batch("checks.c16", "run_case", cases, {}, chunk=1):
        rep.absorb(r)
    rep.exhaustive = True
    return rep.finish(
        rule="for L=262144: JSON texts (string values, so the text length is unambiguous) of size L-1000, L-2..L+2, L+1000 "
             "driven to StartExecution input, StartSyncExecution input, SendTaskSuccess output (then the task result), "
             "Pass output, task reply, Task output grown by ResultSelector, Parallel and Map output after the join (one "
             "character of separator slack accepted); definitions of 1048576-2..+2 characters (plain and full of characters that are escaped in the request body) and empty; names of length "
             "0, 1, 80, 81 and one per forbidden character for state machines and executions; the three API inputs and the task reply "
             "also as texts whose re-serialisation is shorter (whitespace padded) or longer (compact separators) than what "
             "was sent; an input text accepted at the API whose re-serialisation is over the limit, met by a first state of every type (the execution has to end); a counting loop and a Task retried for ever, each driven past 25000 history events; accepted <=> size <= L with the documented error type / "
             "States.DataLimitExceeded otherwise; 'exhaustive' = the listed +-2 windows are enumerated completely",
        assumptions=["ASCII payloads only (characters = bytes = JSON text length)",
                     "single schedule: these are size boundaries, the simulator is used to reach the enforcement points"])


if __name__ == "__main__":
    sys.exit(main(sys.argv[1:]))
