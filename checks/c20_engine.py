"""
C20, engine slices: the real engine (REST handlers, StateEngine, dispatcher) on the simulated broker, disk and Redis.

persist   CreateStateMachine / UpdateStateMachine / DeleteStateMachine through the REST handlers with one crash placed
          inside a store write (torn / truncated file, crash before the rename, crash between two Redis commands) or
          between two calls, ENOSPC / EIO without a crash; after restart DescribeStateMachine / ListStateMachines must
          show exactly what had been acknowledged (the call in flight may or may not have happened).
ttl       with the Redis store, the record and the history of every STANDARD execution carry execution_ttl (counted
          from a moment inside the execution), and once it has passed DescribeExecution / GetExecutionHistory /
          ListExecutions no longer know the execution, through either instance.
coherent  two instances on one Redis: instance B has the definition in its cache; UpdateStateMachine through A;
          StartExecution through B at a seeded moment: once B's tracker has been handed every invalidation the run
          must use the new definition, before that either.
factory   create_ASL_store / create_executions_store / create_history_store pick the class from the URL and the
          DISABLE_* switches.
"""
import json
import os
import random

from checks import common
from lsfsim.core import SimCrash, HarnessError, EPOCH
from lsfsim.world import World

PROP = "C20"
ROLE = World.ROLE


def definition(tag):
    return {"StartAt": "P", "States": {"P": {"Type": "Pass", "Result": {"tag": tag}, "End": True}}}


def finding(rule, witness, detail, **kw):
    f = {"property": PROP, "rule": rule, "witness": witness, "detail": detail}
    f.update(kw)
    return f


def call(w, node, action, params, limit=60.0):
    """Issue an API call and run until it has been answered or the node has died."""
    rec = w.api.call(node, action, params)
    w.sim.run(until=(w.sim.now - w.sim.epoch) + limit, stop_when=lambda: rec["done"] or node.dead, quiesce=False)
    return rec


def boot_wait(w, node):
    w.run_until(lambda: node.ready, limit=10.0, what="restart")


# ---------------------------------------------------------------------------------------
def gen_persist(seed, store):
    rng = random.Random((seed << 2) ^ 0x9E)
    names = ["m%d" % i for i in range(rng.randint(1, 3))]
    ops = []
    n = rng.randint(2, 7)
    tag = 0
    exists = set()
    for i in range(n):
        tag += 1
        x = rng.random()
        nm = rng.choice(names)
        if nm not in exists:
            ops.append({"op": "create", "name": nm, "tag": tag, "type": rng.choice(["STANDARD", "EXPRESS"])})
            exists.add(nm)
        elif x < 0.75:
            ops.append({"op": "update", "name": nm, "tag": tag})
        else:
            ops.append({"op": "delete", "name": nm})
            exists.discard(nm)
    j = rng.randrange(len(ops))
    if store == "file":
        fault = rng.choice([
            {"kind": "torn", "stage": "write", "frac": rng.choice([0.0, 0.2, 0.5, 0.9])},
            {"kind": "crash_after_truncate", "stage": "open_w"},
            {"kind": "crash_before_replace", "stage": "replace"},
            {"kind": "enospc", "stage": "write"},
            {"kind": "eio", "stage": "write"},
            {"kind": "between"},
            {"kind": "between"},
        ])
    else:
        fault = rng.choice([{"kind": "crash_at_command", "after": rng.randint(1, 6)}, {"kind": "between"}])
    return {"store": store, "ops": ops, "fault_at": j, "fault": fault,
            "policy": rng.choice(["canonical", "shuffle"]), "nodes": 1 if store == "file" else rng.choice([1, 2])}


def run_persist(case, seed):
    store = case["store"]
    w = World(seed, policy=case["policy"], store=store, nodes=case["nodes"], max_steps=20000)
    sim = w.sim
    node = w.nodes[0]
    findings = []
    probes = {}
    acked = {}       # name -> (tag, type)   what every acknowledged call adds up to
    maybe = {}       # name -> list of acceptable (tag,type)|None for the call in flight at the crash / failed call
    sim.disk.crash_hook = lambda kind: node.crash("disk-" + kind)

    def arn_of(name):
        return "arn:aws:states:local:0123456789:stateMachine:" + name

    def apply(op, target):
        if op["op"] == "create":
            if op["name"] not in target:
                target[op["name"]] = (op["tag"], op["type"])
        elif op["op"] == "update":
            if op["name"] in target:
                target[op["name"]] = (op["tag"], target[op["name"]][1])
        else:
            target.pop(op["name"], None)

    def issue(op, n):
        if op["op"] == "create":
            return call(w, n, "CreateStateMachine", {"name": op["name"], "definition": json.dumps(definition(op["tag"])),
                                                      "roleArn": ROLE, "type": op["type"]})
        if op["op"] == "update":
            return call(w, n, "UpdateStateMachine", {"stateMachineArn": arn_of(op["name"]),
                                                      "definition": json.dumps(definition(op["tag"]))})
        return call(w, n, "DeleteStateMachine", {"stateMachineArn": arn_of(op["name"])})

    def verify(n, where):
        lst = call(w, n, "ListStateMachines", {})
        if lst["status"] != 200:
            findings.append(finding("operation-raised", "engine:ListStateMachines", "%s: %s %s" % (
                where, lst["status"], (lst["body"] or "")[:200])))
            return
        listed = set(m["name"] for m in lst["json"]["stateMachines"])
        for name in set(acked) | set(maybe) | listed:
            d = call(w, n, "DescribeStateMachine", {"stateMachineArn": arn_of(name)})
            if d["status"] == 200:
                try:
                    got = (json.loads(d["json"]["definition"])["States"]["P"]["Result"]["tag"], d["json"]["type"])
                except Exception:
                    got = ("<unreadable>", d["body"][:100])
            else:
                got = None
            ok = [acked.get(name)] + maybe.get(name, [])
            if got not in ok:
                kind = case["fault"]["kind"]
                wit = {"crash_at_command": "redis_dict:crash-between-commands-of-setitem"}.get(kind, "engine:" + kind)
                findings.append(finding(
                    "acknowledged-write-lost-after-crash", wit,
                    "%s: state machine %s is %r, acknowledged calls add up to %r%s (fault %r at call %d %r)" % (
                        where, name, got, acked.get(name), " or in-flight %r" % maybe[name] if name in maybe else "",
                        case["fault"], case["fault_at"], case["ops"][case["fault_at"]])))
            if (got is not None) != (name in listed):
                findings.append(finding("iteration-differs", "engine:list-vs-describe",
                                        "%s: %s listed=%s described=%r" % (where, name, name in listed, got)))

    for i, op in enumerate(case["ops"]):
        fault = case["fault"] if i == case["fault_at"] else None
        before = dict(acked)
        cmds = [0]
        if fault:
            if fault["kind"] in ("torn", "crash_after_truncate", "enospc", "eio"):
                sim.disk.plan("*", dict(fault))
            elif fault["kind"] == "crash_before_replace":
                sim.disk.plan("ASL_store.json", dict(fault))
            elif fault["kind"] == "crash_at_command":
                def hook(cid, name, fault=fault):
                    if sim.current_node != node.name:
                        return
                    if name in ("hset", "hset_many", "delete", "rpush"):
                        cmds[0] += 1
                        if cmds[0] == fault["after"]:
                            probes["crash-between-redis-commands"] = probes.get("crash-between-redis-commands", 0) + 1
                            node.crash("redis-command-%d" % cmds[0])
                            raise SimCrash()
                w.redis_server.boundary_hook = hook
        rec = issue(op, node)
        sim.disk.faults.clear()
        if w.redis_server is not None:
            w.redis_server.boundary_hook = None
        after = dict(before)
        apply(op, after)
        if rec["status"] == 200:
            acked = after
            if store == "file":
                maybe.clear()     # the whole file has been rewritten from memory
            else:
                maybe.pop(op["name"], None)
        elif node.dead or rec["status"] == -1:
            # not acknowledged: may or may not have happened
            maybe[op["name"]] = [before.get(op["name"]), after.get(op["name"])]
            probes["unacknowledged-calls"] = probes.get("unacknowledged-calls", 0) + 1
        elif rec["status"] >= 500:
            # refused by the file system: memory holds the old or the new value, the file still the old one
            probes["failed-calls"] = probes.get("failed-calls", 0) + 1
            d = call(w, node, "DescribeStateMachine", {"stateMachineArn": arn_of(op["name"])})
            got = None
            if d["status"] == 200:
                got = (json.loads(d["json"]["definition"])["States"]["P"]["Result"]["tag"], d["json"]["type"])
            if got not in (before.get(op["name"]), after.get(op["name"])):
                findings.append(finding("read-differs-from-last-write", "engine:after-failed-write",
                                        "%r failed with %s, the machine is now %r" % (op, rec["status"], got)))
            maybe[op["name"]] = [before.get(op["name"]), after.get(op["name"])]
            if got is None:
                acked.pop(op["name"], None)
            else:
                acked[op["name"]] = got
        if fault and fault["kind"] == "between" and not node.dead:
            node.crash("between-calls")
            node.teardown()
        if node.dead:
            probes["crashes"] = probes.get("crashes", 0) + 1
            if not node.torn_down:
                node.teardown()
            node.restart()
            boot_wait(w, node)
            verify(node, "after crash+restart")
            if len(w.nodes) > 1:
                verify(w.nodes[1], "through the second instance")
            # what is there now is the state of record
            for name in list(maybe):
                d = call(w, node, "DescribeStateMachine", {"stateMachineArn": arn_of(name)})
                if d["status"] == 200:
                    try:
                        acked[name] = (json.loads(d["json"]["definition"])["States"]["P"]["Result"]["tag"], d["json"]["type"])
                    except Exception:
                        pass
                else:
                    acked.pop(name, None)
            maybe = {}
            if findings:
                break
    if not findings:
        # an orderly restart at the end
        node.crash("final")
        node.teardown()
        node.restart()
        boot_wait(w, node)
        verify(node, "after final restart")
    return w, findings, probes


def persist_item(item, extra):
    seed, store = item
    case = gen_persist(seed, store)
    w, findings, probes = run_persist(case, seed)
    for f in findings:
        f.update({"seed": seed, "slice": "persist", "case": case})
    probes["persist:" + store] = 1
    faults = {}
    for name in ("torn", "truncated", "enospc", "eio", "crash_before_replace"):
        if w.sim.disk.stats.get(name):
            faults["disk-" + name] = w.sim.disk.stats[name]
    if w.sim.stats.get("crash"):
        faults["crash"] = w.sim.stats["crash"]
    oh = w.sim.order_hash.hexdigest()[:16]
    return {"evaluations": 1, "distinct": [common.sha([case, oh])], "interleavings": [oh], "findings": findings[:2],
            "probes": probes, "faults": faults, "steps": w.sim.steps, "sim_seconds": w.sim.now - w.sim.epoch,
            "broker_ops": len(w.sim.broker.oplog)}


# ---------------------------------------------------------------------------------------
F = "arn:aws:rpcmessage:local::function:"


def ttl_item(item, extra):
    seed, = item
    rng = random.Random(seed ^ 0x771)
    ttl = rng.choice([20, 120, 600, 3600, 86400])
    nodes = rng.choice([1, 2])
    lat = {"inval": ("uniform_ms", 0, 500)}
    w = World(seed, policy=rng.choice(["canonical", "shuffle"]), store="redis", nodes=nodes, execution_ttl=ttl,
              functions=["f"], script={"f": [{"ok": {"op": "echo"}, "delay": rng.choice([0.0, 1.0, 7.5])}] * 8},
              latency=lat, max_steps=40000)
    sim = w.sim
    findings = []
    d = {"StartAt": "W", "States": {"W": {"Type": "Wait", "Seconds": rng.choice([0, 1, 5]), "Next": "T"},
                                    "T": {"Type": "Task", "Resource": F + "f", "End": True}}}
    arn_s = w.create_machine("std", d, "STANDARD")
    arn_e = w.create_machine("exp", d, "EXPRESS")
    t0 = sim.now
    execs = []
    for i in range(rng.randint(1, 3)):
        execs.append(w.start(arn_s, {"i": i}, name="s%d" % i, node=w.nodes[i % nodes]))
    w.start(arn_e, {"i": 0}, name="x0", node=w.nodes[-1])
    w.run_quiescent(limit=200)
    t1 = sim.now
    srv = w.redis_server
    for arn in execs:
        for prefix in ("executions:", "execution_history:"):
            key = prefix + arn
            if key not in srv.data:
                findings.append(finding("ttl-not-applied", "engine:" + prefix + "missing", "%s is not in the store after the run" % key))
                continue
            exp = srv.expiry.get(key)
            if exp is None or not (t0 - 1e-6 <= exp - ttl <= t1 + 1e-6):
                findings.append(finding("ttl-not-applied", "engine:" + prefix.rstrip(":"),
                                        "%s: expiry %r, execution_ttl %s, run lasted [%.3f, %.3f]" % (
                                            key, None if exp is None else exp - EPOCH, ttl, t0 - EPOCH, t1 - EPOCH)))
    for k in srv.data:
        if k.startswith("executions:") or k.startswith("execution_history:"):
            if ":exp:" in k:
                findings.append(finding("express-stored", "engine:express", "%s stored for an EXPRESS execution" % k))
        elif k.startswith("asl_store:") and k in srv.expiry:
            findings.append(finding("definition-expires", "engine:asl_store", "%s has an expiry" % k))
    # before expiry: every instance knows them
    for n in w.nodes:
        for arn in execs:
            r = call(w, n, "DescribeExecution", {"executionArn": arn})
            if r["status"] != 200 or r["json"].get("status") != "SUCCEEDED":
                findings.append(finding("read-differs-from-last-write", "engine:describe-before-ttl",
                                        "%s via %s: %s %s" % (arn, n.name, r["status"], (r["body"] or "")[:200])))
    # let the ttl pass (for the long ones only the recorded expiry is checked)
    if ttl > 600:
        for f in findings:
            f.update({"seed": seed, "slice": "ttl"})
        return {"evaluations": 1, "distinct": [common.sha(["ttl", ttl, nodes, sim.order_hash.hexdigest()[:16]])],
                "interleavings": [sim.order_hash.hexdigest()[:16]], "findings": findings[:2],
                "probes": {"ttl-runs": 1}, "steps": sim.steps, "sim_seconds": sim.now - sim.epoch,
                "broker_ops": len(sim.broker.oplog)}
    w.run_for(ttl + 2.0)
    for n in w.nodes:
        for arn in execs:
            r = call(w, n, "DescribeExecution", {"executionArn": arn})
            if r["status"] == 200:
                findings.append(finding("ttl-not-applied", "engine:describe-after-ttl",
                                        "%s still described through %s %.0fs after the end (ttl %s): %s" % (
                                            arn, n.name, sim.now - t1, ttl, r["body"][:200])))
            h = call(w, n, "GetExecutionHistory", {"executionArn": arn})
            if h["status"] == 200 and h["json"].get("events"):
                findings.append(finding("ttl-not-applied", "engine:history-after-ttl",
                                        "%s history still served through %s after the ttl" % (arn, n.name)))
        ls = call(w, n, "ListExecutions", {"stateMachineArn": arn_s})
        if ls["status"] == 200 and ls["json"].get("executions"):
            findings.append(finding("ttl-not-applied", "engine:list-after-ttl", "ListExecutions via %s: %s" % (
                n.name, ls["body"][:200])))
        dm = call(w, n, "DescribeStateMachine", {"stateMachineArn": arn_s})
        if dm["status"] != 200:
            findings.append(finding("definition-expires", "engine:describe-machine", "%s %s" % (dm["status"], dm["body"][:100])))
    for f in findings:
        f.update({"seed": seed, "slice": "ttl"})
    oh = sim.order_hash.hexdigest()[:16]
    return {"evaluations": 1, "distinct": [common.sha(["ttl", ttl, nodes, oh])], "interleavings": [oh],
            "findings": findings[:2], "probes": {"ttl-runs": 1, "keys-expired": srv.stats["expired"]},
            "faults": {"keys-expired": srv.stats["expired"]}, "steps": sim.steps, "sim_seconds": sim.now - sim.epoch,
            "broker_ops": len(sim.broker.oplog)}


# ---------------------------------------------------------------------------------------
def coherent_item(item, extra):
    seed, = item
    rng = random.Random(seed ^ 0xC0E)
    lat = {"inval": ("choice", [0.0, 0.05, 0.4, 2.0, 9.0])}
    w = World(seed, policy=rng.choice(["canonical", "shuffle"]), store="redis", nodes=2, latency=lat, max_steps=40000)
    sim = w.sim
    a, b = w.nodes
    findings = []
    probes = {}
    srv = w.redis_server
    arn = w.create_machine("m", definition(1), rng.choice(["STANDARD", "EXPRESS"]), node=a)
    tag = 1
    k = 0
    for rnd in range(rng.randint(1, 4)):
        # B caches the current definition
        if rng.random() < 0.8:
            k += 1
            w.start(arn, {}, name="warm%d" % k, node=b)
            w.run_quiescent(limit=50)
        tag += 1
        kind = rng.choice(["update", "update", "delete-create"])
        if kind == "update":
            r = call(w, a, "UpdateStateMachine", {"stateMachineArn": arn, "definition": json.dumps(definition(tag))})
        else:
            call(w, a, "DeleteStateMachine", {"stateMachineArn": arn})
            r = call(w, a, "CreateStateMachine", {"name": "m", "definition": json.dumps(definition(tag)), "roleArn": ROLE,
                                                  "type": "STANDARD"})
        if r["status"] != 200:
            raise HarnessError("update failed %r" % (r,))
        w.run_for(rng.choice([0.0, 0.01, 0.1, 1.0, 3.0, 10.0]))
        pending = srv.stats["invalidations_queued"] - srv.stats["invalidations_delivered"]
        k += 1
        name = "probe%d" % k
        sub0 = len(w.subscriber.events)
        rec = call(w, b, "StartExecution", {"stateMachineArn": arn, "input": "{}", "name": name})
        pending_after = srv.stats["invalidations_queued"] - srv.stats["invalidations_delivered"]
        w.run_quiescent(limit=50)
        outs = [e["body"]["detail"] for e in w.subscriber.events[sub0:]
                if e["body"]["detail"].get("name") == name and e["body"]["detail"]["status"] == "SUCCEEDED"]
        if rec["status"] != 200 or not outs:
            if pending == 0:
                findings.append(finding("stale-cached-view", "engine:start-failed",
                                        "StartExecution through B after update %d: %s %s, notifications %r" % (
                                            tag, rec["status"], (rec["body"] or "")[:200], outs)))
            continue
        got = json.loads(outs[0]["output"]).get("tag")
        if pending == 0:
            probes["reads-after-delivery"] = probes.get("reads-after-delivery", 0) + 1
            if got != tag:
                findings.append(finding("stale-cached-view", "engine:after-delivery",
                                        "definition updated to tag %d through A, every invalidation delivered, execution "
                                        "started through B ran tag %r" % (tag, got)))
        else:
            probes["reads-while-pending"] = probes.get("reads-while-pending", 0) + 1
            if got == tag - 1:
                probes["stale-read-while-invalidation-pending"] = probes.get("stale-read-while-invalidation-pending", 0) + 1
            if got not in (tag, tag - 1):
                findings.append(finding("cached-view-wrong", "engine:pending", "ran tag %r, expected %d or %d" % (got, tag - 1, tag)))
        w.run_quiescent(limit=50)
        d = call(w, b, "DescribeStateMachine", {"stateMachineArn": arn})
        if srv.stats["invalidations_queued"] == srv.stats["invalidations_delivered"]:
            gotd = json.loads(d["json"]["definition"])["States"]["P"]["Result"]["tag"] if d["status"] == 200 else None
            if gotd != tag:
                findings.append(finding("stale-cached-view", "engine:describe-after-delivery",
                                        "DescribeStateMachine through B shows tag %r after update %d" % (gotd, tag)))
    for f in findings:
        f.update({"seed": seed, "slice": "coherent"})
    oh = sim.order_hash.hexdigest()[:16]
    probes["coherent-runs"] = 1
    probes["invalidations-delivered"] = srv.stats["invalidations_delivered"]
    return {"evaluations": 1, "distinct": [common.sha(["coh", oh])], "interleavings": [oh], "findings": findings[:2],
            "probes": probes, "steps": sim.steps, "sim_seconds": sim.now - sim.epoch, "broker_ops": len(sim.broker.oplog)}


# ---------------------------------------------------------------------------------------
def factory_item(item, extra):
    from lsfsim import patches
    from lsfsim.core import Sim
    from lsfsim.disk import Disk
    from lsfsim.redis_server import RedisServer
    patches.install(os.path.join(os.environ.get("VERIF_REPO", "/repo"), "asl-workflow-engine", "py"))
    import asl_workflow_engine.store as st
    sim = Sim(1)
    patches.per_run(sim, "UTC0")
    sim.disk = Disk()
    sim.redis_server = RedisServer(sim)
    findings = []
    cases = []
    for url in ("ASL_store.json", "/tmp/x/ASL_store.json", "redis://localhost:6379", "redis://h:1?connection_attempts=3&retry_delay=1"):
        for env in ({}, {"DISABLE_EXECUTIONS_STORE": "true"}, {"DISABLE_HISTORY_STORE": "TRUE"},
                    {"DISABLE_EXECUTIONS_STORE": "false", "DISABLE_HISTORY_STORE": "false"}):
            cases.append((url, env))
    for url, env in cases:
        for k in ("DISABLE_EXECUTIONS_STORE", "DISABLE_HISTORY_STORE"):
            os.environ.pop(k, None)
        os.environ.update(env)
        try:
            if hasattr(st.RedisStore, "connection"):
                del st.RedisStore.connection
        except AttributeError:
            pass
        redis = url.startswith("redis://")
        try:
            a = st.create_ASL_store(url)
            e = st.create_executions_store(url)
            h = st.create_history_store(url)
        except Exception as ex:
            findings.append(finding("factory-raised", "factory", "%s %r: %s" % (url, env, ex)))
            continue
        exp = ("RedisDictStore" if redis else "JSONStore",
               "RedisDictStore" if redis and env.get("DISABLE_EXECUTIONS_STORE", "").lower() != "true" else "SimpleStore",
               "RedisListStore" if redis and env.get("DISABLE_HISTORY_STORE", "").lower() != "true" else "SimpleStore")
        got = (type(a).__name__, type(e).__name__, type(h).__name__)
        if got != exp:
            findings.append(finding("factory-kind", "factory", "%s %r: %r, expected %r" % (url, env, got, exp)))
        if redis:
            if (a.key, getattr(e, "key", None), getattr(h, "key", None)) != (
                    "asl_store", "executions" if exp[1] != "SimpleStore" else None,
                    "execution_history" if exp[2] != "SimpleStore" else None):
                findings.append(finding("factory-kind", "factory-prefix", "%s: prefixes %r %r %r" % (
                    url, a.key, getattr(e, "key", None), getattr(h, "key", None))))
        for s in (a, e, h):
            if hasattr(s, "tracker_id"):
                s.tracker_id = None
    for k in ("DISABLE_EXECUTIONS_STORE", "DISABLE_HISTORY_STORE"):
        os.environ.pop(k, None)
    for f in findings:
        f.update({"slice": "factory"})
    return {"evaluations": len(cases), "distinct": [common.sha(["factory"])], "findings": findings[:2],
            "probes": {"factory-cases": len(cases)}}


# ---------------------------------------------------------------------------------------
def run(rep, tier):
    n = 150 if tier == "quick" else 4000
    items = []
    for i in range(n):
        items.append((common.run_seed(500000 + i), "file"))
        items.append((common.run_seed(600000 + i), "redis"))
    for r in common.run_batch("checks.c20_engine", "persist_item", items, {}):
        rep.absorb(r)
    m = 60 if tier == "quick" else 1500
    for r in common.run_batch("checks.c20_engine", "ttl_item", [(common.run_seed(700000 + i),) for i in range(m)], {}):
        rep.absorb(r)
    for r in common.run_batch("checks.c20_engine", "coherent_item", [(common.run_seed(800000 + i),) for i in range(m * 2)], {}):
        rep.absorb(r)
    for r in common.run_batch("checks.c20_engine", "factory_item", [(0,)], {}, procs=1):
        rep.absorb(r)


def replay(rec):
    sl = rec.get("slice")
    if sl == "persist":
        w, findings, probes = run_persist(rec["case"], rec["seed"])
    elif sl == "ttl":
        findings = ttl_item((rec["seed"],), {})["findings"]
    elif sl == "coherent":
        findings = coherent_item((rec["seed"],), {})["findings"]
    else:
        findings = factory_item((0,), {})["findings"]
    return [f for f in findings if f["rule"] == rec["rule"] and f["witness"] == rec["witness"]]
