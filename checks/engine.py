"""
Shared driver for the execution-level properties: seeded case generation
(machine + input + worker script + deployment configuration + schedule policy),
one simulated run per case with the property's monitors attached, comparison
with the reference interpreter where the property calls for it.
"""
import copy
import json
import random

from checks import common
from gen import machines as GM
from lsfsim.core import EPOCH, HarnessError
from lsfsim.runner import run_scenario, loose_equal, jsonable
from model.asl import run_model

SM_ARN = "arn:aws:states:local:0123456789:stateMachine:%s"
EX_ARN = "arn:aws:states:local:0123456789:execution:%s:%s"

# families of generated programs (generator profile overrides + size)
FAMILIES = {
    "sequential": dict(profile="sequential", over={}),
    "fanout_ok": dict(profile="fanout_ok", over={}),
    # failures (scripted task errors, Fail states, bad paths, time-outs) anywhere outside fan-outs and in the
    # branches of outermost fan-outs; nested fan-outs are failure free (see DESIGN 'clean region')
    # Retry/Catch on the Map/Parallel state itself is kept out of these families: a caught or retried fan-out
    # failure with siblings still in flight is a recorded finding (C06), exercised by C06's own scenarios
    "general": dict(profile="general", over={"fail_levels": 1, "fanout_handlers": False}),
    "fanout_fail": dict(profile="fanout_fail", over={"fail_levels": 1, "fanout_handlers": False}),
    "retry": dict(profile="retry", over={"fail_levels": 1, "fanout_handlers": False}),
    # Catch on the Map/Parallel state itself (every ResultPath form) with failing branches; no Retry anywhere, so the
    # recorded C06/C07 findings (sibling in a Retry back-off; RetryCount leaking into the fan-out) cannot be touched
    # programs full of Waits (every form) and Task / machine time-outs; in fan-outs only time-outs fail
    "timing": dict(profile="timing", over={"fail_levels": 1, "fanout_handlers": False}),
    "timing_fanout": dict(profile="timing_fanout", over={"fail_levels": 1, "fanout_handlers": False}),
    # Retry/Catch on single-branch / single-item fan-outs: no sibling is in flight when the fan-out fails
    "retry_fanout1": dict(profile="retry", over={"fail_levels": 1, "fanout_handlers": True, "retry_in_retried_fanout": False,
                                                 "types": dict(Pass=2, Task=6, Choice=1, Wait=1, Succeed=1, Fail=1,
                                                               Parallel=3, Map=3)},
                          sizes=dict(depth=1, fan=1, items=1)),
    "fanout_caught": dict(profile="fanout_fail", over={"fail_levels": 1, "fanout_handlers": True, "p_retry": 0.0,
                                                       "p_catch": 0.8, "p_err": 0.45}),
}

POLICIES = ["canonical", "shuffle", "pct", "latency-small", "latency-heavy", "ties"]


def policy_cfg(name):
    if name == "canonical":
        return {"policy": "canonical", "latency": "zero"}
    if name == "shuffle":
        return {"policy": "shuffle", "latency": "zero"}
    if name == "pct":
        return {"policy": "pct", "latency": "zero"}
    if name == "latency-small":
        return {"policy": "latency", "latency": "small"}
    if name == "latency-heavy":
        return {"policy": "latency", "latency": "heavy"}
    if name == "ties":
        return {"policy": "shuffle", "latency": "ties"}
    raise HarnessError(name)


def gen_program(rng, family, tier):
    f = FAMILIES[family]
    prof = dict(GM.PROFILES[f["profile"]])
    prof.update(f["over"])
    sizes = dict(GM.SIZES[tier])
    if "fail_levels" in f["over"]:
        # families that generate failures do not nest fan-outs (nested failure propagation is a recorded finding)
        sizes["depth"] = 1
    sizes.update(f.get("sizes") or {})
    return GM.generate(rng, prof, sizes)


def swarm_config(rng, policies, transports=("asyncio",), stores=("file",), max_nodes=1, ttls=(600, 3600, 86400),
                 tzs=("UTC0", "SIM-05:30", "SIM+03:00", "SIM-12:45", "SIM+03:30")):
    cfg = policy_cfg(rng.choice(policies))
    cfg["transport"] = rng.choice(transports)
    cfg["store"] = rng.choice(stores)
    cfg["nodes"] = rng.randint(1, max_nodes)
    cfg["queue_type"] = rng.choice(["classic", "classic", "quorum"])
    cfg["execution_ttl"] = rng.choice(ttls)
    cfg["tz"] = rng.choice(tzs)
    cfg["caps"] = rng.choice([(1000, 1000, 100), (200, 500, 100), (1000, 300, 50)])
    return cfg


def scenario_of(prog, cfg, n_exec=1, type_="STANDARD", rng=None, stagger=None):
    execs = []
    for k in range(n_exec):
        execs.append({"machine": "m", "input": prog["input"], "name": "e%d" % (k + 1),
                      "at": 0.0 if not stagger else round(rng.choice(stagger), 3),
                      "node": 0 if rng is None else rng.randint(0, 3)})
    return {"machines": {"m": {"definition": prog["definition"], "type": type_}}, "executions": execs,
            "script": prog["script"], "functions": prog["functions"], "config": cfg}


def model_for(scn, k=0, counters=None, start=None):
    """start: the absolute instant the execution really started at, when that is not EPOCH + its scheduled offset."""
    ex = scn["executions"][k]
    m = scn["machines"][ex["machine"]]
    cfg = scn["config"]
    return run_model(m["definition"], ex["input"], scn["script"], cfg.get("execution_ttl", 86400), ex["name"],
                     SM_ARN % ex["machine"], EX_ARN % (ex["machine"], ex["name"]),
                     EPOCH + ex.get("at", 0.0) if start is None else start, counters)


def compare_outcome(mo, term):
    """None if the engine's terminal notification agrees with the model, else a short description."""
    if term is None:
        return "no terminal notification; model says %s" % mo.status
    if term["status"] != mo.status:
        return "status %s, model %s (engine error=%r cause=%r, model errors=%r)" % (
            term["status"], mo.status, term.get("error"), (term.get("cause") or "")[:200], mo.errors)
    if mo.status == "SUCCEEDED":
        try:
            out = json.loads(term["output"])
        except (TypeError, ValueError):
            return "output is not JSON text: %r" % (term.get("output"),)
        if not loose_equal(mo.output, out):
            return "output %s, model %s" % (json.dumps(out)[:400], json.dumps(jsonable(mo.output))[:400])
        return None
    if term.get("error") not in mo.errors:
        return "error %r, model %r" % (term.get("error"), mo.errors)
    if mo.cause_contains and not mo.flags.tie and mo.cause_contains not in (term.get("cause") or ""):
        return "cause %r does not contain %r" % (term.get("cause"), mo.cause_contains)
    return None


def flags_block(mo):
    """Flags that put a run outside what a general comparison may judge."""
    f = mo.flags
    out = []
    if f.null_document:
        out.append("null-document")
    if f.inband_error or f.inband_task_error:
        out.append("inband-error")
    if f.multi_retrier:
        out.append("multi-retrier")
    if f.taskfailed_wildcard:
        out.append("taskfailed-wildcard")
    if f.marker_value:
        out.append("marker-value")
    if f.deadline_tie:
        out.append("deadline-tie")
    if f.handled_tie:
        out.append("handled-failure-tie")
    if f.ambiguous_calls:
        out.append("ambiguous-call-index")
    if getattr(f, "big_data", False):
        out.append("data-near-quota")
    return out


def finding(prop, rule, detail, witness, scn, seed, extra=None):
    d = {"property": prop, "rule": rule, "detail": detail, "witness": witness, "seed": seed, "scenario": scn}
    if extra:
        d.update(extra)
    return d


def attach_replay(findings, scn, seed, res=None, extra=None):
    for f in findings:
        f.setdefault("seed", seed)
        f.setdefault("scenario", scn)
        if res is not None:
            f.setdefault("digest", res.sim.hexdigest())
            f.setdefault("steps", res.sim.steps)
        if extra:
            for k, v in extra.items():
                f.setdefault(k, v)
    return findings


# ------------------------------------------------------------------------------------------
# multi-execution scenarios for the monitor-style properties
# ------------------------------------------------------------------------------------------
def rename_functions(prog, prefix):
    txt = json.dumps({"definition": prog["definition"], "script": prog["script"]})
    txt = txt.replace(":function:fn_", ":function:%sfn_" % prefix).replace('"fn_', '"%sfn_' % prefix)
    d = json.loads(txt)
    return {"definition": d["definition"], "script": d["script"], "input": prog["input"],
            "functions": [prefix + f for f in prog["functions"]]}


def fanout_depth(machine):
    """Static nesting depth of Map/Parallel states in a (sub) machine."""
    best = 0
    for st in (machine.get("States") or {}).values():
        subs = list(st.get("Branches") or [])
        for k in ("ItemProcessor", "Iterator"):
            if isinstance(st.get(k), dict):
                subs.append(st[k])
        if subs:
            best = max(best, 1 + max(fanout_depth(m) for m in subs))
    return best


def classify(mo, allow_single_failure=True, allow_handled=False, allow_multi=False, definition=None):
    """Why a generated execution is outside the region a general monitor run may judge (None = inside)."""
    if mo.unsupported:
        return "unsupported"
    b = flags_block(mo)
    if b:
        return b[0]
    f = mo.flags
    if f.fanout_failures:
        if f.max_fail_depth > 1 or (definition is not None and fanout_depth(definition) > 1):
            return "nested-fanout-failure"
        if f.fanout_failures > 1 and not allow_multi:
            return "multiple-branch-failures"
        if f.fanout_handled and not allow_handled:
            return "handled-fanout-failure"
        if not allow_single_failure:
            return "fanout-failure"
    return None


def gen_multi(rng, families, tier, max_exec, cfg, types=("STANDARD", "STANDARD", "EXPRESS"), accept=classify,
              stagger=(0.0, 0.0, 0.5, 1.0, 2.0), tries=20):
    """Scenario with 1..max_exec independent executions (own machine, own worker functions each)."""
    n = rng.randint(1, max_exec)
    machines, execs, script, functions = {}, [], {}, []
    skipped = {}
    models = {}
    for k in range(n):
        for _ in range(tries):
            fam = rng.choice(families)
            prog = rename_functions(gen_program(rng, fam, tier), "x%d" % k)
            name = "m%d" % k
            ex = {"machine": name, "input": prog["input"], "name": "e%d" % k, "at": rng.choice(stagger),
                  "node": rng.randint(0, 3)}
            one = {"machines": {name: {"definition": prog["definition"]}}, "executions": [ex],
                   "script": prog["script"], "config": cfg}
            mo = model_for(one)
            why = accept(mo, definition=prog["definition"])
            if why is None:
                break
            skipped[why] = skipped.get(why, 0) + 1
        else:
            continue
        machines[name] = {"definition": prog["definition"], "type": rng.choice(types), "family": fam}
        execs.append(ex)
        script.update(prog["script"])
        functions.extend(prog["functions"])
        models[ex["name"]] = mo
    scn = {"machines": machines, "executions": execs, "script": script, "functions": functions, "config": cfg}
    return scn, models, skipped


def nontrivial_hash(scn, res):
    return common.sha([scn["machines"], scn["executions"], scn["script"], res.sim.order_hash.hexdigest()])
