"""
Fixed scenarios that re-confirm each recorded (unrepaired) finding on every run.
A probe yields exactly one finding with witness "probe:<name>" when the recorded
symptom is observed; symptoms listed as collateral are part of the same defect;
anything else the monitors report in the probe run is a violation of its own.
"""
from checks import engine as E

F = E.GM.FN_ARN


def T(fn, **kw):
    d = {"Type": "Task", "Resource": F + fn}
    d.update(kw)
    return d


def scn(d, inp, script, cfg=None):
    c = {"policy": "canonical", "latency": "zero", "execution_ttl": 600}
    c.update(cfg or {})
    return {"machines": {"m0": {"definition": d, "type": "STANDARD", "family": "probe"}},
            "executions": [{"machine": "m0", "input": inp, "name": "e0"}], "script": script,
            "functions": sorted(script), "config": c}


PROBES = {
    "C05": {
        "nested-map-in-maxconcurrency-map": dict(
            scenario=scn({"StartAt": "M", "States": {"M": {
                "Type": "Map", "ItemsPath": "$.rows", "MaxConcurrency": 1, "Iterator": {"StartAt": "I", "States": {
                    "I": {"Type": "Map", "ItemsPath": "$.cells", "Iterator": {"StartAt": "T", "States": {
                        "T": T("f", End=True)}}, "End": True}}}, "End": True}}},
                {"rows": [{"cells": [1, 2]}, {"cells": [3, 4]}]}, {"f": [{"ok": {"op": "wrap"}}]}),
            expect="outcome-mismatch", collateral=("task-requests-differ-from-model", "iterations-not-exactly-once",
                                                   "join-before-all-branches")),
    },
    "C06": {
        "caught-failure-then-success-with-sibling-in-retry-wait": dict(
            scenario=scn({"StartAt": "P", "States": {
                "H": {"Type": "Pass", "Result": "handled", "End": True},
                "P": {"Type": "Parallel", "Branches": [
                    {"StartAt": "A", "States": {"A": T("flaky", Retry=[{"ErrorEquals": ["E.Alpha"], "IntervalSeconds": 3,
                                                                       "MaxAttempts": 3, "BackoffRate": 1.0}], End=True)}},
                    {"StartAt": "B", "States": {"B": T("bad", End=True)}}],
                    "Catch": [{"ErrorEquals": ["States.ALL"], "Next": "H"}], "End": True}}},
                {"x": 1}, {"flaky": [{"err": "E.Alpha", "delay": 0.0}, {"err": "E.Beta", "msg": "second", "delay": 0.0}],
                           "bad": [{"err": "E.Alpha", "delay": 1.0}]}),
            expect="terminal-twice",
            collateral=("sibling-progress-after-failure", "appended-after-end", "history-terminal-event",
                        "exited-without-entered", "outcome-mismatch", "leak")),
        # the failure of an INNER fan-out that its own Catch handles must leave the healthy branch of the OUTER
        # fan-out alone; check_pending_results cancels the pending Tasks of every result set of the execution
        "caught-inner-failure-cancels-healthy-outer-branch": dict(
            scenario=scn({"StartAt": "O", "States": {"O": {"Type": "Parallel", "End": True, "Branches": [
                {"StartAt": "I", "States": {
                    "I": {"Type": "Parallel", "Branches": [
                        {"StartAt": "X", "States": {"X": T("bad", End=True)}},
                        {"StartAt": "Y", "States": {"Y": T("slowi", End=True)}}],
                        "Catch": [{"ErrorEquals": ["States.ALL"], "ResultPath": "$.err", "Next": "H"}], "End": True},
                    "H": {"Type": "Pass", "Result": "handled", "ResultPath": "$.h", "End": True}}},
                {"StartAt": "B", "States": {"B": T("slow", End=True)}}]}}},
                {"k": 1}, {"bad": [{"err": "E.Alpha", "msg": "m", "delay": 1.0}], "slow": [{"ok": {"op": "tag"}, "delay": 5.0}],
                           "slowi": [{"ok": {"op": "tag"}, "delay": 3.0}]}, {"execution_ttl": 60}),
            expect="outcome-mismatch", collateral=("sibling-progress-after-failure",)),
    },
}


def run_probe(prop, name):
    from checks import monitored as M
    from checks import common
    p = PROBES[prop][name]
    r = M.check(prop, p["scenario"], 1, extra_probes={"probe:" + name: 1}, judge_all=True)
    if "harness_error" in r:
        return r
    out = []
    hit = [f for f in r["findings"] if f["rule"] == p["expect"]]
    if hit:
        f = dict(hit[0])
        f["witness"] = "probe:" + name
        out.append(f)
    for f in r["findings"]:
        if f["rule"] == p["expect"] or (hit and f["rule"] in p["collateral"]):
            continue
        f = dict(f)
        f["detail"] = "probe %s: %s" % (name, f["detail"])
        out.append(f)
    r["findings"] = out
    r["distinct"] = []
    return r
