"""C05 - see checks/monitored.py (SPECS["C05"]) and DESIGN.md section 5."""
import sys

from checks import monitored

PROP = "C05"


def run_probe(name):
    from checks import probes
    return probes.run_probe(PROP, name)


def probe_items():
    from checks import probes
    return [("probe", n) for n in sorted(probes.PROBES.get(PROP, {}))]


if __name__ == "__main__":
    sys.exit(monitored.main_for(PROP, sys.argv[1:], probe_items()))
