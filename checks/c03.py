"""
C03 - events are acknowledged once, after their consequences are issued; nothing leaks.

Same workloads as C02 (sequential, successful fan-out, single unhandled branch
failure; 1-4 concurrent executions; seeded schedule policies). The broker model
is the observation point: the carrier invariant is evaluated after every
basic_ack / basic_publish an engine issues, every delivery must be acknowledged
exactly once, and at quiescence nothing may remain unacknowledged, queued or
held in the engine's per-execution dictionaries.
"""
import json
import random
import sys

from checks import common
from checks import engine as E
from lsfsim.runner import run_scenario
from monitors.basic import Monitor, NotifyMonitor, BrokerMonitor

PROP = "C03"
FAMILIES = ["sequential", "sequential", "fanout_ok", "fanout_ok", "fanout_fail", "general"]
POLICIES = ["shuffle", "pct", "latency-small", "latency-heavy", "ties", "canonical"]


def make(i, tier):
    seed = common.run_seed(i)
    rng = random.Random(seed)
    cfg = E.swarm_config(rng, POLICIES, ttls=(600, 3600), max_nodes=1, transports=("asyncio", "asyncio", "blocking"))
    scn, models, skipped = E.gen_multi(rng, FAMILIES, tier, 4, cfg)
    for ex in scn["executions"]:
        # some executions are started the "low-level" way: a client publishes the start event to the shared queue,
        # with or without an AMQP message id of its own
        r = rng.random()
        if r < 0.2:
            ex["via"] = "raw" if r < 0.1 else "raw-noid"
    if scn["executions"] and rng.random() < 0.08:
        # two byte-identical anonymous start events (same machine, same input, no name, no message id) at one instant
        ex = dict(scn["executions"][0], via="raw-anon", name=None)
        twin = dict(ex)
        scn["executions"][0] = ex
        scn["executions"].append(twin)
    if rng.random() < 0.15:
        # a Task whose function has no queue: the mandatory request comes back as Basic.Return - not a delivery, so
        # nothing may be acknowledged for it - and fails the Task (caught here), beside the other executions
        scn["machines"]["unroutable"] = {"type": rng.choice(["STANDARD", "EXPRESS"]), "family": "unroutable-request", "definition": {
            "StartAt": "T", "States": {
                "T": {"Type": "Task", "Resource": E.GM.FN_ARN + "nobody-listens", "TimeoutSeconds": 5,
                      "Catch": [{"ErrorEquals": ["States.ALL"], "ResultPath": "$.err", "Next": "H"}], "End": True},
                "H": {"Type": "Pass", "End": True}}}}
        scn["executions"].append({"machine": "unroutable", "input": {"k": 1}, "name": "u1", "at": rng.choice([0.0, 0.5, 1.0]),
                                  "node": 0})
    # uninterpretable messages (events and task replies) arriving while other executions' events are held
    scn["poison"] = [{"at": rng.choice([0.0, 0.3, 0.8, 1.2, 2.5]), "to": rng.choice(["shared", "instance", "reply"]),
                      "body": rng.choice(["not json", "", "5", '{"context": 5}', "[]", '{"data": {}, "context": {}}'])}
                     for _ in range(rng.choice([0, 0, 0, 1, 2]))]
    return seed, scn, models, skipped


def shape_case(i):
    """Hand-shaped machines around the places where an event is held for a join or handed over: an empty Map that ends a
    branch / an iteration, a fan-out whose failure is caught (or retried) and is followed by another fan-out."""
    seed = common.run_seed(8300000 + i)
    rng = random.Random(seed)
    fn = E.GM.FN_ARN
    task = lambda f, **kw: dict({"Type": "Task", "Resource": fn + f}, **kw)
    kind = ["empty-map-ends-branch", "empty-map-ends-iteration", "caught-fanout-then-fanout", "retried-fanout-then-fanout"][i % 4]
    script = {"a": [{"ok": {"op": "tag"}, "delay": rng.choice([0.0, 0.5, 1.0])}],
              "b": [{"ok": {"op": "tag"}, "delay": rng.choice([0.5, 2.0])}]}
    empty = {"Type": "Map", "ItemsPath": "$.none", "ItemProcessor": {"StartAt": "X", "States": {"X": task("a", End=True)}}, "End": True}
    if kind == "empty-map-ends-branch":
        first = rng.choice([None, {"Type": "Pass", "Next": "M"}, task("a", ResultPath=None, Next="M")])
        br = {"StartAt": "M", "States": {"M": empty}} if first is None else {"StartAt": "F", "States": {"F": first, "M": empty}}
        d = {"StartAt": "P", "States": {"P": {"Type": "Parallel", "Branches": [br, {"StartAt": "B", "States": {"B": task("b", End=True)}}],
                                             "ResultPath": "$.r", "Next": "Z"}, "Z": task("a", End=True)}}
        inp = {"none": []}
    elif kind == "empty-map-ends-iteration":
        # (the outer Map is unbatched: a Map nested below a Map with MaxConcurrency batches is a recorded C05 finding)
        d = {"StartAt": "O", "States": {"O": {"Type": "Map", "ItemsPath": "$.groups", "MaxConcurrency": 0,
                                             "ItemProcessor": {"StartAt": "I", "States": {"I": {
                                                 "Type": "Map", "ItemsPath": "$.items", "End": True,
                                                 "ItemProcessor": {"StartAt": "X", "States": {"X": task("a", End=True)}}}}},
                                             "ResultPath": "$.r", "Next": "Z"}, "Z": task("b", End=True)}}
        inp = {"groups": rng.choice([[{"items": []}, {"items": [1]}], [{"items": []}], [{"items": [1, 2]}, {"items": []}, {"items": []}]])}
    else:
        err = "E.Bad"
        script["bad"] = [{"err": err, "msg": "no", "delay": rng.choice([0.0, 0.5])}] * (1 if kind.startswith("retried") else 3) + \
            [{"ok": {"op": "tag"}}]
        fan1 = rng.choice([
            {"Type": "Parallel", "Branches": [{"StartAt": "B", "States": {"B": task("bad", End=True)}},
                                              {"StartAt": "S", "States": {"S": task("b", Next="S2"), "S2": {"Type": "Pass", "End": True}}}]},
            {"Type": "Map", "ItemsPath": "$.items", "ItemProcessor": {"StartAt": "B", "States": {
                "B": {"Type": "Choice", "Choices": [{"Variable": "$", "NumericEquals": 1, "Next": "Bad"}], "Default": "Ok"},
                "Bad": task("bad", End=True), "Ok": task("b", End=True)}}}])
        fan1.update({"ResultPath": "$.r1", "Next": "Q"})
        if kind.startswith("caught"):
            fan1["Catch"] = [{"ErrorEquals": ["States.ALL"], "ResultPath": "$.err", "Next": "Q"}]
        else:
            fan1["Retry"] = [{"ErrorEquals": [err], "IntervalSeconds": 1, "MaxAttempts": 2, "BackoffRate": 1.0}]
        fan2 = rng.choice([
            {"Type": "Parallel", "Branches": [{"StartAt": "U", "States": {"U": task("a", End=True)}},
                                              {"StartAt": "V", "States": {"V": task("b", End=True)}}]},
            {"Type": "Map", "ItemsPath": "$.items", "MaxConcurrency": rng.choice([0, 1]),
             "ItemProcessor": {"StartAt": "U", "States": {"U": task("a", End=True)}}}])
        fan2.update({"ResultPath": "$.r2", "End": True})
        d = {"StartAt": "P", "States": {"P": fan1, "Q": fan2}}
        inp = {"items": [1, 2, 3]}
    cfg = E.policy_cfg(rng.choice(POLICIES))
    cfg.update(execution_ttl=600, transport=rng.choice(["asyncio", "asyncio", "blocking"]))
    if "bad" in script and cfg["policy"] != "canonical":
        # under the non-FIFO schedules the failure must not fall on the instant at which sibling events are in flight:
        # a sibling's event handled after a fan-out failure was handled is the recorded C06 finding (every pending Task
        # of the execution is cancelled then - also those of the fan-out that follows - and the execution hangs)
        for o in script["bad"]:
            if "err" in o:
                o["delay"] = 0.25
    scn = {"machines": {"m0": {"definition": d, "type": rng.choice(["STANDARD", "EXPRESS"]), "family": "shape:" + kind}},
           "executions": [{"machine": "m0", "input": inp, "name": "e0", "at": 0.0}], "script": script,
           "functions": sorted(script), "config": cfg}
    return seed, scn, kind


def run_shapes(i, extra):
    seed, scn, kind = shape_case(i)
    r = check(scn, seed)
    r.setdefault("probes", {})["shape:" + kind] = 1
    return r


def run_one(i, extra):
    seed, scn, models, skipped = make(i, extra["tier"])
    return check(scn, seed, models, skipped)


def check(scn, seed, models=None, skipped=None):
    probes = {}
    for k, v in (skipped or {}).items():
        probes["regenerated:" + k] = v
    if not scn["executions"]:
        return {"evaluations": 1, "probes": {"empty": 1}, "findings": [], "distinct": []}
    mons = [NotifyMonitor("C02", check_shape=False, liveness=False), BrokerMonitor()]
    ttl = scn["config"].get("execution_ttl", 86400)
    def before(res):
        if not scn.get("poison"):
            return
        from lsfsim.peers import NativeChannel, Props
        pch = NativeChannel(res.sim, "poisoner")
        sfx = "-qq" if scn["config"].get("queue_type") == "quorum" else ""
        queues = {"shared": "asl_workflow_events" + sfx, "instance": "asl_workflow_events%s-inst0" % sfx,
                  "reply": "asl_workflow_reply_to%s-inst0" % sfx}
        for k, p in enumerate(scn["poison"]):
            def pub(p=p, k=k):
                res.sim.count("poison-message")
                res.sim.broker.basic_publish(pch.rec, "", queues[p["to"]], p["body"].encode(),
                                             Props(content_type="application/json", message_id="poison-%d" % k,
                                                   correlation_id="poison-cid-%d" % k if p["to"] == "reply" else None))
            res.sim.call_at(res.sim.now + p["at"], pub, None, kind="client", label="poison")
    res = run_scenario(scn, seed, monitors=mons, horizon=ttl + 800, before_run=before)
    # C11-tagged findings of these monitors belong to C11's check
    findings = [f for f in res.findings if f["property"] == PROP]
    for name, mo in (models or {}).items():
        probes["model:" + (mo.status or "?")] = probes.get("model:" + (mo.status or "?"), 0) + 1
        if mo.flags.fanout_failures:
            probes["single-branch-failure"] = probes.get("single-branch-failure", 0) + 1
    probes["executions"] = len(scn["executions"])
    probes["poison-messages"] = len(scn.get("poison") or [])
    if "unroutable" in scn["machines"]:
        probes["unroutable-task-request"] = 1
        probes["unroutable-task-request:ended"] = 1 if res.world.terminal_events().get(E.EX_ARN % ("unroutable", "u1")) else 0
    probes["carrier-evaluations"] = mons[1].ops_checked
    probes["policy:" + scn["config"]["policy"] + "/" + str(scn["config"]["latency"])] = 1
    if res.sim.errors:
        findings.append({"property": PROP, "rule": "engine-exception", "witness": None,
                         "detail": repr(res.sim.errors[0][:3]), "step": None, "t": None})
    E.attach_replay(findings, scn, seed, res)
    sample = {"executions": len(scn["executions"]), "policy": scn["config"]["policy"],
              "notifications": [(round(e["t"] - res.sim.epoch, 3), e["body"]["detail"]["name"],
                                 e["body"]["detail"]["status"]) for e in res.world.subscriber.events][:12]}
    return common.summarize_run(res, PROP, findings, True, sample, probes, E.nontrivial_hash(scn, res))


C03_RULES = ("never-acked", "leak", "ack-twice", "multiple-ack", "carrier-lost", "not-drained")


def check_responses(scn, meta, seed):
    """Task-token tasks whose callbacks / ordinary replies arrive twice, late (after the time-out), forged, or after the
    callback already completed the task: every such response is an orphan that still has to be acknowledged once, and
    nothing may be left in the engine's dictionaries."""
    from checks import c15
    res, fs = c15.check_token(scn, dict(meta), seed)
    findings = []
    for f in res.findings:
        if f["property"] == PROP and not (f["rule"] == "carrier-lost"):
            findings.append(dict(f, witness=f.get("witness") or meta["stream"]))
    if res.sim.errors:
        findings.append({"property": PROP, "rule": "engine-exception", "witness": None,
                         "detail": repr(res.sim.errors[0][:3]), "step": None, "t": None})
    for f in findings:
        f["token_meta"] = meta
    E.attach_replay(findings, scn, seed, res)
    probes = {"responses:runs": 1, "responses:stream=" + meta["stream"]: 1, "responses:flavour=" + meta["flavour"]: 1}
    return common.summarize_run(res, PROP, findings, True, None, probes, E.nontrivial_hash(scn, res))


def run_responses(i, extra):
    from checks import c15
    seed = common.run_seed(6000000 + i)
    rng = random.Random(seed)
    scn, meta = c15.token_case(rng, seed)
    return check_responses(scn, meta, seed)


class LaunchOrderMonitor(Monitor):
    """The start event of a child execution is a consequence of handling the launching Task's event: by the time that
    event is acknowledged, the child's start event has been handed to the broker."""

    def __init__(self):
        super(LaunchOrderMonitor, self).__init__()
        self.launch_uids = set()
        self.child_starts = 0
        self.launch_acks = 0

    def attach(self, res):
        super(LaunchOrderMonitor, self).attach(res)
        res.sim.broker.publish_hooks.append(self.on_publish)
        res.sim.broker.observers.append(self.on_op)

    def on_publish(self, ch, exchange, routing_key, body, props, queues, uid):
        if exchange != "" or not routing_key.startswith("asl_workflow_events"):
            return
        try:
            ctx = json.loads(body.decode("utf8") if isinstance(body, bytes) else body)["context"]
            sm = ctx["StateMachine"]["Id"]
            name = (ctx.get("State") or {}).get("Name")
        except (ValueError, KeyError, TypeError, AttributeError):
            return
        if sm.endswith(":child") and not name:
            self.child_starts += 1
        elif sm.endswith(":parent") and name == "L":
            self.launch_uids.add(uid)

    def on_op(self, rec):
        step, t, name, node, kw = rec
        if name == "basic_ack" and node is not None and kw.get("uid") in self.launch_uids:
            self.launch_uids.discard(kw["uid"])
            self.launch_acks += 1
            if self.child_starts < self.launch_acks:
                self.add(PROP, "acked-before-child-start-published",
                         "the event of the launching Task was acknowledged (ack #%d of such events) while only %d child "
                         "start events had been published" % (self.launch_acks, self.child_starts))


def check_children(scn, seed, label):
    mons = [NotifyMonitor("C02", check_shape=False, liveness=False), BrokerMonitor(), LaunchOrderMonitor()]
    ttl = scn["config"].get("execution_ttl", 600)
    res = run_scenario(scn, seed, monitors=mons, horizon=ttl + 800)
    findings = [f for f in res.findings if f["property"] == PROP]
    if res.sim.errors:
        findings.append({"property": PROP, "rule": "engine-exception", "witness": None,
                         "detail": repr(res.sim.errors[0][:3]), "step": None, "t": None})
    for f in findings:
        f["child_label"] = label
    E.attach_replay(findings, scn, seed, res)
    probes = {"child-launch:runs": 1, "child-launch:" + label.split("/")[0]: 1, "launching-events-acked": mons[2].launch_acks}
    return common.summarize_run(res, PROP, findings, True, None, probes, E.nontrivial_hash(scn, res))


def run_children(i, extra):
    from checks import c02
    seed, scn, label = c02.make_child(i)
    scn["config"]["execution_ttl"] = 600
    return check_children(scn, seed, label)


def main(argv):
    if len(argv) > 1 and argv[0] == "--replay":
        return replay(argv[1])
    tier = common.tier()
    n = 2500 if tier == "quick" else 100000
    rep = common.Report(PROP)
    from checks import minimise as _MIN
    rep.minimiser = lambda f: _MIN.scenario(f, lambda scn, seed: check(scn, seed)) if not (f.get("token_meta") or f.get("child_label")) else f
    for r in common.run_batch("checks.c03", "run_one", range(n), {"tier": tier}):
        rep.absorb(r)
    for r in common.run_batch("checks.c03", "run_responses", range(500 if tier == "quick" else 20000), {"tier": tier}):
        rep.absorb(r)
    for r in common.run_batch("checks.c03", "run_children", range(400 if tier == "quick" else 16000), {"tier": tier}):
        rep.absorb(r)
    for r in common.run_batch("checks.c03", "run_shapes", range(160 if tier == "quick" else 6000), {"tier": tier}):
        rep.absorb(r)
    return rep.finish(
        rule="1-4 concurrent executions of independently generated machines (families %s) per simulated run under a "
             "seeded schedule policy (%s); after every basic_ack/basic_publish of an engine the carrier invariant is "
             "evaluated (every execution that is RUNNING - start event queued or RUNNING notification sent, terminal "
             "notification not yet sent - has a queued or unacknowledged event, an outstanding task request or an "
             "armed timer created on its behalf); every delivery is acknowledged exactly once; at quiescence the "
             "engine's unacknowledged_messages/branch_metadata/pending_requests/cancellers/orphaned_responses and its "
             "queues are empty; a second slice drives .waitForTaskToken tasks (rpcmessage and startExecution flavours) with "
             "callback streams that leave orphaned responses (duplicate, late after the time-out, forged, truncated, ordinary "
             "reply before the callback, error reply) and applies the same exactly-once-ack and drain rules to the reply "
             "queue; a third slice launches child executions in every form: the child's start event has been published by the "
             "time the launching Task's event is acknowledged, and the same carrier / ack / drain rules hold for parent and "
             "child; distinct = distinct (scenario, interleaving) hashes" % (
                 sorted(set(FAMILIES)), ", ".join(POLICIES)),
        assumptions=["no faults injected (crash/restart is C04)", "legal schedules only: per-queue FIFO, timers never early"])


def replay(path):
    with open(path) as f:
        rec = json.load(f)
    if rec.get("child_label"):
        r = check_children(rec["scenario"], rec["seed"], rec["child_label"])
    elif rec.get("token_meta"):
        r = check_responses(rec["scenario"], rec["token_meta"], rec["seed"])
    else:
        r = check(rec["scenario"], rec["seed"])
    same = [f for f in r["findings"] if f["rule"] == rec["rule"]]
    print("replay %s: %s" % (path, "REPRODUCED rule=%s%s" % (rec["rule"], common.digest_note(rec, same)) if same else "not reproduced"))
    return 1 if same else 0


if __name__ == "__main__":
    sys.exit(main(sys.argv[1:]))
