"""
C08 - waits and time-outs fire at the right instant, never early.

(A) every UTC offset -23:59..+23:59: a Wait on a TimestampPath and a Choice with
    Timestamp*Path comparisons, the same instant written in different notations;
(B) generated sequential programs full of Wait (Seconds/SecondsPath/Timestamp/
    TimestampPath), Task TimeoutSeconds and machine TimeoutSeconds with worker
    replies before/after the deadlines: on the zero-latency schedule every Wait
    exit, task request and the terminal instant equal the reference model's on
    the virtual clock; with latency or a stalled engine they are never earlier.
"""
import json
import random
import sys

from checks import common
from checks import engine as E
from checks import timing
from gen.machines import rfc3339
from lsfsim.core import EPOCH
from lsfsim.runner import run_scenario

PROP = "C08"
OFFSETS = list(range(-23 * 60 - 59, 23 * 60 + 60))
BATCH = 24
POLICIES = ["canonical", "canonical", "latency-small", "latency-heavy"]


# ---- (A) offsets ---------------------------------------------------------------------------
OFFSET_MACHINE = {"StartAt": "W", "States": {
    "W": {"Type": "Wait", "TimestampPath": "$.ts", "Next": "C"},
    "C": {"Type": "Choice", "Choices": [{"And": [
        {"Variable": "$.ts", "TimestampEqualsPath": "$.same"},
        {"Variable": "$.ts", "TimestampGreaterThanPath": "$.earlier"},
        {"Variable": "$.ts", "TimestampLessThanPath": "$.later"},
        {"Variable": "$.ts", "TimestampLessThanEqualsPath": "$.same"},
        {"Variable": "$.ts", "TimestampGreaterThanEqualsPath": "$.same"},
        {"Variable": "$.ts", "IsTimestamp": True}], "Next": "OK"}], "Default": "BAD"},
    "OK": {"Type": "Pass", "Result": "ok", "End": True},
    "BAD": {"Type": "Pass", "Result": "bad", "End": True}}}


def offset_batch(b, form):
    offs = OFFSETS[b * BATCH:(b + 1) * BATCH]
    execs = []
    expect = {}
    for k, off in enumerate(offs):
        delay = 3 + (k % 7) + (0.5 if form == "fraction" else 0.0)
        target = EPOCH + delay
        other = OFFSETS[(b * BATCH + k * 37 + 11) % len(OFFSETS)]
        inp = {"ts": rfc3339(target, off, form == "zulu"), "same": rfc3339(target, other),
               "earlier": rfc3339(target - 60, -other), "later": rfc3339(target + 0.5, 0, True)}
        name = "o%d" % k
        execs.append({"machine": "m", "input": inp, "name": name, "at": 0.0})
        expect[name] = (target, off)
    scn = {"machines": {"m": {"definition": OFFSET_MACHINE, "type": "EXPRESS"}}, "executions": execs, "script": {},
           "functions": [], "config": {"policy": "canonical", "latency": "zero", "execution_ttl": 600,
                                       "tz": ["UTC0", "SIM-05:30", "SIM+09:45"][b % 3]}}
    return scn, expect


def run_offsets(b, form):
    scn, expect = offset_batch(b, form)
    res = run_scenario(scn, 1000 + b)
    findings = []
    terms = res.world.terminal_events()
    for name, (target, off) in expect.items():
        arn = E.EX_ARN % ("m", name)
        evs = terms.get(arn, [])
        if not evs:
            findings.append({"property": PROP, "rule": "offset-wait-never-ended", "witness": None,
                             "detail": "offset %+d min: %r never completed" % (off, scn["executions"][0]["input"])})
            continue
        d = evs[0]["body"]["detail"]
        te = evs[0]["published_at"]
        inp = [e["input"] for e in scn["executions"] if e["name"] == name][0]
        if abs(te - target) > timing.TOL:
            findings.append({"property": PROP, "rule": "wait-instant" if te > target else "wait-early", "witness": None,
                             "detail": "Wait on %s (UTC offset %+d min) ended at t=%.4f, true instant t=%.4f" % (
                                 inp["ts"], off, te - EPOCH, target - EPOCH)})
        elif d["status"] != "SUCCEEDED" or json.loads(d["output"]) != "ok":
            findings.append({"property": PROP, "rule": "timestamp-comparison", "witness": None,
                             "detail": "Choice over equal/earlier/later instants %r took the wrong branch: %s %s" % (
                                 inp, d["status"], d.get("output"))})
    E.attach_replay(findings, scn, 1000 + b, res, {"kind": "offsets", "batch": b, "form": form})
    r = common.summarize_run(res, PROP, findings, True, {"kind": "offsets", "first": scn["executions"][0]["input"]},
                             {"offset-executions": len(expect), "form:" + form: 1},
                             common.sha(["offsets", b, form]))
    r["evaluations"] = len(expect)
    r["distinct"] = [common.sha(["offset", form, o]) for _, o in expect.values()]
    return r


# ---- (B) generated -------------------------------------------------------------------------------
def gen(i, tier):
    seed = common.run_seed(i)
    rng = random.Random(seed)
    prof = dict(E.GM.PROFILES["timing"])
    sizes = dict(E.GM.SIZES[tier])
    sizes["depth"] = 0
    for _ in range(30):
        prog = E.GM.generate(rng, prof, sizes, with_timeout=0.3)
        cfg = E.swarm_config(rng, POLICIES, ttls=(600, 3600))
        scn = E.scenario_of(prog, cfg, 1, rng.choice(["STANDARD", "EXPRESS"]))
        if rng.random() < 0.25:
            scn["faults"] = [{"kind": "stall", "node": 0, "at": rng.choice([0.0, 0.5, 1.0, 2.0, 4.0]),
                              "duration": rng.choice([0.5, 1.0, 3.0])}]
        mo = E.model_for(scn)
        if E.classify(mo, definition=prog["definition"]) is None:
            return seed, scn, mo
    return seed, None, None


def wait_exits(res, arn):
    out = []
    for n in res.world.nodes:
        for (step, t, a, typ, details, smt) in n.history_log:
            if a == arn and typ == "WaitStateExited":
                out.append((details.get("name"), t))
    return out


def check(scn, seed, mo=None):
    if mo is None:
        mo = E.model_for(scn)
    res = run_scenario(scn, seed, horizon=scn["config"].get("execution_ttl", 600) + 800)
    arn = res.exec_arns.get("e1")
    term = res.terminal(arn) if arn else None
    exact = scn["config"].get("latency", "zero") == "zero" and not scn.get("faults")
    findings = []
    probes = {"policy:" + scn["config"]["policy"]: 1, "exact-runs" if exact else "never-early-runs": 1,
              "stalled-runs": 1 if scn.get("faults") else 0}
    t0 = timing.start_time(res, "e1")
    m_waits = [(x[2], t0 + x[0]) for x in mo.transitions if x[1] == "exited" and
               find_type(scn["machines"]["m"]["definition"], x[2]) == "Wait"]
    e_waits = wait_exits(res, arn)
    probes["waits"] = len(m_waits)
    probes["timeouts-in-model"] = sum(1 for x in mo.transitions if x[1] in ("failed", "retry", "caught") and
                                      "States.Timeout" in str(x[3]))
    if exact:
        diff = E.compare_outcome(mo, term)
        if diff:
            findings.append({"property": PROP, "rule": "outcome-mismatch", "witness": None, "detail": diff})
        else:
            for rule, detail in timing.compare_instants(mo, res, arn, t0, True):
                findings.append({"property": PROP, "rule": rule, "witness": None, "detail": detail})
            if [w[0] for w in e_waits] != [w[0] for w in m_waits]:
                findings.append({"property": PROP, "rule": "wait-sequence", "witness": None,
                                 "detail": "engine Wait exits %r, model %r" % (e_waits, m_waits)})
            else:
                for (n1, te), (n2, tm) in zip(e_waits, m_waits):
                    if abs(te - tm) > timing.TOL:
                        findings.append({"property": PROP, "rule": "wait-early" if te < tm else "wait-instant",
                                         "witness": None, "detail": "Wait %s exited at t=%.4f, model t=%.4f" % (
                                             n1, te - EPOCH, tm - EPOCH)})
                        break
    else:
        # never early: the k-th exit of each Wait state is not before the model's (the model is the zero-latency,
        # unstalled execution, so every legal schedule can only be later) - as long as the same path is taken
        by_name = {}
        for n1, tm in m_waits:
            by_name.setdefault(n1, []).append(tm)
        seen = {}
        for n1, te in e_waits:
            k = seen.get(n1, 0)
            seen[n1] = k + 1
            lst = by_name.get(n1, [])
            if k < len(lst) and te < lst[k] - timing.TOL:
                findings.append({"property": PROP, "rule": "wait-early", "witness": None,
                                 "detail": "Wait %s exited at t=%.4f before its target t=%.4f" % (
                                     n1, te - EPOCH, lst[k] - EPOCH)})
                break
        if term is None:
            findings.append({"property": PROP, "rule": "never-terminal", "witness": None,
                             "detail": "no terminal notification (%s)" % res.end_reason})
    if res.sim.errors:
        findings.append({"property": PROP, "rule": "engine-exception", "witness": None,
                         "detail": repr(res.sim.errors[0][:3])})
    E.attach_replay(findings, scn, seed, res, {"kind": "generated"})
    sample = {"kind": "generated", "waits": [(n, round(t - EPOCH, 3)) for n, t in e_waits][:8], "exact": exact,
              "model_end": mo.t_end}
    return common.summarize_run(res, PROP, findings, len(m_waits) > 0 or probes["timeouts-in-model"] > 0, sample, probes,
                                common.sha([scn["machines"], scn["script"], scn["executions"], scn.get("faults")]))


def find_type(machine, name):
    st = machine["States"].get(name)
    return st.get("Type") if st else None


def run_one(item, extra):
    if isinstance(item, tuple) and item[0] == "offsets":
        return run_offsets(item[1], item[2])
    seed, scn, mo = gen(item, extra["tier"])
    if scn is None:
        return {"evaluations": 1, "probes": {"no-acceptable-program": 1}, "findings": [], "distinct": []}
    return check(scn, seed, mo)


def main(argv):
    if len(argv) > 1 and argv[0] == "--replay":
        with open(argv[1]) as f:
            rec = json.load(f)
        if rec.get("kind") == "offsets":
            r = run_offsets(rec["batch"], rec["form"])
        else:
            r = check(rec["scenario"], rec["seed"])
        same = [f for f in r["findings"] if f["rule"] == rec["rule"]]
        print("replay %s: %s" % (argv[1], "REPRODUCED rule=%s" % rec["rule"] if same else "not reproduced"))
        return 1 if same else 0
    tier = common.tier()
    n = 2500 if tier == "quick" else 100000
    forms = ["plain"] if tier == "quick" else ["plain", "fraction", "zulu"]
    nb = (len(OFFSETS) + BATCH - 1) // BATCH
    items = [("offsets", b, f) for f in forms for b in range(nb)] + list(range(n))
    rep = common.Report(PROP)
    for r in common.run_batch("checks.c08", "run_one", items, {"tier": tier}, chunk=10):
        rep.absorb(r)
    return rep.finish(
        rule="(A) all %d UTC offsets -23:59..+23:59 (x %s notation), 24 executions per simulated run: Wait TimestampPath "
             "must end at the true instant on the virtual clock and a Choice comparing the same/earlier/later instants "
             "written in other offsets must take the right branch (this slice is enumerated completely); (B) generated "
             "sequential programs with Wait Seconds/SecondsPath/Timestamp/TimestampPath, Task TimeoutSeconds, machine "
             "TimeoutSeconds, Retry/Catch and worker replies before/after the deadlines: zero-latency runs compare "
             "every Wait exit, task request and the terminal instant with the reference model within 2 ms, latency "
             "and stalled-engine runs must never be earlier; non-trivial = at least one Wait or time-out in the model; "
             "distinct = distinct offsets + distinct (program, script, faults) hashes" % (len(OFFSETS), "/".join(forms)),
        assumptions=["exact-instant oracle only with zero latency and no stall; exact ties between a reply and a "
                     "deadline are excluded (either outcome is legal)", "synchronised, non-jumping clock"],
        extra_cov={"offset_slice": {"exhaustive": True, "offsets": len(OFFSETS), "forms": forms}})


if __name__ == "__main__":
    sys.exit(main(sys.argv[1:]))
