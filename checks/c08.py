"""
C08 - waits and time-outs fire at the right instant, never early.

(A) every UTC offset -23:59..+23:59: a Wait on a TimestampPath and a Choice with
    Timestamp*Path comparisons, the same instant written in different notations;
(B) generated sequential programs full of Wait (Seconds/SecondsPath/Timestamp/
    TimestampPath), Task TimeoutSeconds and machine TimeoutSeconds with worker
    replies before/after the deadlines: on the zero-latency schedule every Wait
    exit, task request and the terminal instant equal the reference model's on
    the virtual clock; with latency or a stalled engine they are never earlier.
"""
import json
import random
import sys

from checks import common
from checks import engine as E
from checks import timing
from gen.machines import rfc3339
from lsfsim.core import EPOCH
from lsfsim.runner import run_scenario

PROP = "C08"
OFFSETS = list(range(-23 * 60 - 59, 23 * 60 + 60))
BATCH = 24
POLICIES = ["canonical", "canonical", "latency-small", "latency-heavy"]


# ---- (A) offsets ---------------------------------------------------------------------------
OFFSET_MACHINE = {"StartAt": "W", "States": {
    "W": {"Type": "Wait", "TimestampPath": "$.ts", "Next": "C"},
    "C": {"Type": "Choice", "Choices": [{"And": [
        {"Variable": "$.ts", "TimestampEqualsPath": "$.same"},
        {"Variable": "$.ts", "TimestampGreaterThanPath": "$.earlier"},
        {"Variable": "$.ts", "TimestampLessThanPath": "$.later"},
        {"Variable": "$.ts", "TimestampLessThanEqualsPath": "$.same"},
        {"Variable": "$.ts", "TimestampGreaterThanEqualsPath": "$.same"},
        {"Variable": "$.ts", "IsTimestamp": True}], "Next": "OK"}], "Default": "BAD"},
    "OK": {"Type": "Pass", "Result": "ok", "End": True},
    "BAD": {"Type": "Pass", "Result": "bad", "End": True}}}


def offset_batch(b, form):
    offs = OFFSETS[b * BATCH:(b + 1) * BATCH]
    execs = []
    expect = {}
    for k, off in enumerate(offs):
        delay = 3 + (k % 7) + (0.5 if form == "fraction" else 0.0)
        target = EPOCH + delay
        other = OFFSETS[(b * BATCH + k * 37 + 11) % len(OFFSETS)]
        inp = {"ts": rfc3339(target, off, form == "zulu"), "same": rfc3339(target, other),
               "earlier": rfc3339(target - 60, -other), "later": rfc3339(target + 0.5, 0, True)}
        name = "o%d" % k
        execs.append({"machine": "m", "input": inp, "name": name, "at": 0.0})
        expect[name] = (target, off)
    scn = {"machines": {"m": {"definition": OFFSET_MACHINE, "type": "EXPRESS"}}, "executions": execs, "script": {},
           "functions": [], "config": {"policy": "canonical", "latency": "zero", "execution_ttl": 600,
                                       "tz": ["UTC0", "SIM-05:30", "SIM+09:45"][b % 3]}}
    return scn, expect


def run_offsets(b, form):
    scn, expect = offset_batch(b, form)
    res = run_scenario(scn, 1000 + b)
    findings = []
    terms = res.world.terminal_events()
    for name, (target, off) in expect.items():
        arn = E.EX_ARN % ("m", name)
        evs = terms.get(arn, [])
        if not evs:
            findings.append({"property": PROP, "rule": "offset-wait-never-ended", "witness": None,
                             "detail": "offset %+d min: %r never completed" % (off, scn["executions"][0]["input"])})
            continue
        d = evs[0]["body"]["detail"]
        te = evs[0]["published_at"]
        inp = [e["input"] for e in scn["executions"] if e["name"] == name][0]
        if abs(te - target) > timing.TOL:
            findings.append({"property": PROP, "rule": "wait-instant" if te > target else "wait-early", "witness": None,
                             "detail": "Wait on %s (UTC offset %+d min) ended at t=%.4f, true instant t=%.4f" % (
                                 inp["ts"], off, te - EPOCH, target - EPOCH)})
        elif d["status"] != "SUCCEEDED" or json.loads(d["output"]) != "ok":
            findings.append({"property": PROP, "rule": "timestamp-comparison", "witness": None,
                             "detail": "Choice over equal/earlier/later instants %r took the wrong branch: %s %s" % (
                                 inp, d["status"], d.get("output"))})
    E.attach_replay(findings, scn, 1000 + b, res, {"kind": "offsets", "batch": b, "form": form})
    r = common.summarize_run(res, PROP, findings, True, {"kind": "offsets", "first": scn["executions"][0]["input"]},
                             {"offset-executions": len(expect), "form:" + form: 1},
                             common.sha(["offsets", b, form]))
    r["evaluations"] = len(expect)
    r["distinct"] = [common.sha(["offset", form, o]) for _, o in expect.values()]
    return r


# ---- (B) generated -------------------------------------------------------------------------------
def gen(i, tier):
    seed = common.run_seed(i)
    rng = random.Random(seed)
    fan = i % 3 == 2          # every third program has Wait / time-outs inside Parallel branches and Map iterators
    prof = dict(E.GM.PROFILES["timing_fanout" if fan else "timing"])
    sizes = dict(E.GM.SIZES[tier])
    sizes["depth"] = (1 if tier == "quick" else 2) if fan else 0
    for _ in range(30):
        prog = E.GM.generate(rng, prof, sizes, with_timeout=0.3)
        cfg = E.swarm_config(rng, POLICIES, ttls=(600, 3600), transports=("asyncio", "asyncio", "blocking"))
        scn = E.scenario_of(prog, cfg, 1, rng.choice(["STANDARD", "EXPRESS"]))
        if rng.random() < 0.25:
            scn["faults"] = [{"kind": "stall", "node": 0, "at": rng.choice([0.0, 0.5, 1.0, 2.0, 4.0]),
                              "duration": rng.choice([0.5, 1.0, 3.0])}]
        mo = E.model_for(scn)
        if E.classify(mo, definition=prog["definition"]) is None:
            return seed, scn, mo
    return seed, None, None


def wait_exits(res, arn):
    out = []
    for n in res.world.nodes:
        for (step, t, a, typ, details, smt) in n.history_log:
            if a == arn and typ == "WaitStateExited":
                out.append((details.get("name"), t))
    return out


def check(scn, seed, mo=None):
    if mo is None:
        mo = E.model_for(scn)
    if mo.unsupported or mo.status is None or E.flags_block(mo):
        # (a shrunk scenario may leave what the reference model judges: nothing can be concluded then)
        return {"evaluations": 1, "probes": {"skipped:outside-model": 1}, "findings": [], "distinct": []}
    res = run_scenario(scn, seed, horizon=scn["config"].get("execution_ttl", 600) + 800)
    arn = res.exec_arns.get("e1")
    term = res.terminal(arn) if arn else None
    exact = scn["config"].get("latency", "zero") == "zero" and not scn.get("faults")
    findings = []
    probes = {"policy:" + scn["config"]["policy"]: 1, "exact-runs" if exact else "never-early-runs": 1,
              "stalled-runs": 1 if scn.get("faults") else 0}
    t0 = timing.start_time(res, "e1")
    if t0 is not None and abs(t0 - (EPOCH + scn["executions"][0].get("at", 0.0))) > 1e-6:
        # a stalled instance served the StartExecution call late: the execution started then (absolute Timestamps and
        # the deadlines count from the StartTime the handler took)
        mo = E.model_for(scn, start=t0)
        probes["start-call-served-late"] = 1
        if mo.unsupported or mo.status is None or E.flags_block(mo):
            return {"evaluations": 1, "probes": {"skipped:outside-model": 1}, "findings": [], "distinct": []}
    m_waits = [(x[2], t0 + x[0]) for x in mo.transitions if x[1] == "exited" and
               find_type(scn["machines"]["m"]["definition"], x[2]) == "Wait"]
    e_waits = wait_exits(res, arn)
    probes["waits"] = len(m_waits)
    probes["timeouts-in-model"] = sum(1 for x in mo.transitions if x[1] in ("failed", "retry", "caught") and
                                      "States.Timeout" in str(x[3]))
    if exact:
        diff = E.compare_outcome(mo, term)
        if diff:
            findings.append({"property": PROP, "rule": "outcome-mismatch", "witness": None, "detail": diff})
        else:
            # once a branch has failed its siblings are cancelled: what the model lets them do afterwards is not
            # comparable event by event (outcome and terminal instant still are)
            branch_failed = mo.flags.fanout_failures > 0
            for rule, detail in timing.compare_instants(mo, res, arn, t0, True, requests=not branch_failed):
                findings.append({"property": PROP, "rule": rule, "witness": None, "detail": detail})
            if branch_failed:
                probes["fanout-with-failed-branch(outcome+terminal instant only)"] = 1
                e_waits = m_waits = []
            e_waits = sorted(e_waits, key=lambda w: (w[0], w[1]))
            m_waits = sorted(m_waits, key=lambda w: (w[0], w[1]))
            if [w[0] for w in e_waits] != [w[0] for w in m_waits]:
                findings.append({"property": PROP, "rule": "wait-sequence", "witness": None,
                                 "detail": "engine Wait exits %r, model %r" % (e_waits, m_waits)})
            else:
                for (n1, te), (n2, tm) in zip(e_waits, m_waits):
                    if abs(te - tm) > timing.TOL:
                        findings.append({"property": PROP, "rule": "wait-early" if te < tm else "wait-instant",
                                         "witness": None, "detail": "Wait %s exited at t=%.4f, model t=%.4f" % (
                                             n1, te - EPOCH, tm - EPOCH)})
                        break
    else:
        # never early: the k-th exit of each Wait state is not before the model's (the model is the zero-latency,
        # unstalled execution, so every legal schedule can only be later) - as long as the same path is taken
        by_name = {}
        for n1, tm in sorted(m_waits, key=lambda w: w[1]):
            by_name.setdefault(n1, []).append(tm)
        seen = {}
        # ("the same path": with latency a reply may miss a Task's TimeoutSeconds that it meets in the zero-latency model;
        # the run then legitimately goes another way - e.g. straight to the Catch instead of through three retries - and
        # its Waits are not the model's.  The states entered, as a multiset, tell.)
        e_entered = sorted(str(d.get("name")) for n in res.world.nodes for (st_, t_, a_, typ_, d, smt_) in n.history_log
                           if a_ == arn and typ_.endswith("StateEntered") and isinstance(d, dict))
        m_entered = sorted(str(x[2]) for x in mo.transitions if x[1] == "entered")
        e_reqs = sorted(r["fn"] for r in res.world.workers.requests)
        m_reqs = sorted(x[1] for x in mo.requests)
        same_path = e_entered == m_entered and e_reqs == m_reqs      # (retries enter no state: the requests count them)
        if not same_path:
            probes["never-early-skipped:other-path-under-latency"] = 1
        for n1, te in (sorted(e_waits, key=lambda w: w[1]) if same_path else []):
            k = seen.get(n1, 0)
            seen[n1] = k + 1
            lst = by_name.get(n1, [])
            if k < len(lst) and te < lst[k] - timing.TOL:
                findings.append({"property": PROP, "rule": "wait-early", "witness": None,
                                 "detail": "Wait %s exited at t=%.4f before its target t=%.4f" % (
                                     n1, te - EPOCH, lst[k] - EPOCH)})
                break
        if term is None:
            findings.append({"property": PROP, "rule": "never-terminal", "witness": None,
                             "detail": "no terminal notification (%s)" % res.end_reason})
    if not findings:
        findings.extend(deadline_findings(scn, res, arn, t0, exact, mo))
    if res.sim.errors:
        findings.append({"property": PROP, "rule": "engine-exception", "witness": None,
                         "detail": repr(res.sim.errors[0][:3])})
    probes["fanout-programs"] = 1 if E.fanout_depth(scn["machines"]["m"]["definition"]) else 0
    E.attach_replay(findings, scn, seed, res, {"kind": "generated"})
    sample = {"kind": "generated", "waits": [(n, round(t - EPOCH, 3)) for n, t in e_waits][:8], "exact": exact,
              "model_end": mo.t_end}
    return common.summarize_run(res, PROP, findings, len(m_waits) > 0 or probes["timeouts-in-model"] > 0, sample, probes,
                                common.sha([scn["machines"], scn["script"], scn["executions"], scn.get("faults")]))



# ---- (C) deadlines that coincide, events delivered after the deadlines, Map batches ---------------------------
F = "arn:aws:rpcmessage:local::function:"
HOP = {"pub": ("fixed", 0.1), "reply": ("fixed", 0.1)}     # every message takes 0.1 s, so a stall can fall between hops


def gen_deadline(i):
    """
    tie      the start state's Task TimeoutSeconds equals the machine's TimeoutSeconds (both deadlines coincide);
             Retry and/or Catch match States.Timeout; the worker never answers in time
    late     a stalled engine receives the Task / Wait event only after the execution deadline (and, for the Task,
             after the Task's own deadline too)
    Expected in both: FAILED with States.Timeout, no Retry or Catch intercepts, the end comes at the deadline (tie) or
    when the late event is finally handled (late) - never later.
    """
    seed = common.run_seed(8000000 + i)
    rng = random.Random(seed)
    kind = rng.choice(["tie", "tie", "late-task", "late-task", "late-wait"])
    T = rng.choice([3, 5, 8])
    handlers = {}
    retry = [{"ErrorEquals": [rng.choice(["States.Timeout", "States.ALL"])], "IntervalSeconds": rng.choice([1, 2]),
              "MaxAttempts": rng.choice([1, 2, 3]), "BackoffRate": 1.0}] if rng.random() < 0.6 else None
    catch = [{"ErrorEquals": [rng.choice(["States.ALL", "States.Timeout"])], "ResultPath": "$.err", "Next": "H"}] \
        if (retry is None or rng.random() < 0.6) else None
    hstate = rng.choice([{"Type": "Pass", "End": True}, {"Type": "Wait", "Seconds": 2, "End": True},
                         {"Type": "Task", "Resource": F + "handler", "End": True}])
    task = {"Type": "Task", "Resource": F + "slow", "End": True}
    if retry:
        task["Retry"] = retry
    if catch:
        task["Catch"] = catch
    states = {"T": task}
    if catch:
        states["H"] = hstate
    cfg = {"policy": "canonical", "latency": "zero", "execution_ttl": 600, "tz": rng.choice(["UTC0", "SIM-05:30"])}
    faults = None
    start = "T"
    script = {"slow": [{"noreply": True}] if rng.random() < 0.5 else [{"ok": {"op": "tag"}, "delay": T + rng.choice([0.5, 2.0])}],
              "handler": [{"ok": {"op": "tag"}, "delay": 1.0}]}
    expect_end = float(T)
    if kind == "tie":
        task["TimeoutSeconds"] = T
        if rng.random() < 0.3:
            states["P"] = {"Type": "Pass", "Next": "T"}       # the Task is entered at the same instant all the same
            start = "P"
    else:
        cfg["latency"] = HOP
        cfg["policy"] = "latency"
        task["TimeoutSeconds"] = rng.choice([1, 2, T - 1])
        stall_at = 0.15
        dur = T + rng.choice([1.0, 2.5])
        faults = [{"kind": "stall", "node": 0, "at": stall_at, "duration": dur}]
        states["P"] = {"Type": "Pass", "Next": "T"}
        start = "P"
        if kind == "late-wait":
            # P -> T is replaced by P -> W (Wait) whose event arrives after the deadline
            states = {"P": {"Type": "Pass", "Next": "W"}, "W": {"Type": "Wait", "Seconds": rng.choice([1, 2]), "Next": "Z"},
                      "Z": {"Type": "Pass", "End": True}}
        expect_end = stall_at + dur
    definition = {"StartAt": start, "TimeoutSeconds": T, "States": states}
    scn = {"machines": {"m": {"definition": definition, "type": rng.choice(["STANDARD", "EXPRESS"])}},
           "executions": [{"machine": "m", "input": {"x": 1}, "name": "e1", "at": 0.0}], "script": script,
           "functions": ["handler", "slow"], "config": cfg}
    if faults:
        scn["faults"] = faults
    return seed, scn, kind, expect_end


def check_deadline(scn, seed, kind, expect_end):
    res = run_scenario(scn, seed, horizon=700)
    arn = res.exec_arns.get("e1")
    t0 = timing.start_time(res, "e1")
    findings = []
    evs = res.world.terminal_events().get(arn, []) if arn else []
    T = scn["machines"]["m"]["definition"]["TimeoutSeconds"]
    if not evs:
        findings.append({"property": PROP, "rule": "never-terminal", "witness": None,
                         "detail": "%s: no terminal notification (%s)" % (kind, res.end_reason)})
    else:
        d = evs[0]["body"]["detail"]
        te = evs[0]["published_at"] - t0
        err = d.get("error")
        if err is None and d.get("output"):
            try:
                o = json.loads(d["output"])
                err = o.get("Error") if isinstance(o, dict) else None
            except ValueError:
                pass
        if d["status"] != "FAILED" or err != "States.Timeout":
            findings.append({"property": PROP, "rule": "execution-timeout-intercepted", "witness": None,
                             "detail": "%s, machine TimeoutSeconds %s: ended %s %r at t=%.3f; the execution time-out "
                                       "cannot be retried or caught" % (kind, T, d["status"], err, te)})
        elif te > expect_end + 0.2 + timing.TOL or te < min(T, expect_end) - timing.TOL:
            findings.append({"property": PROP, "rule": "execution-timeout-instant", "witness": None,
                             "detail": "%s, machine TimeoutSeconds %s: FAILED States.Timeout at t=%.3f, expected at "
                                       "t=%.3f" % (kind, T, te, expect_end)})
    if not findings:
        findings.extend(deadline_findings(scn, res, arn, t0, kind == "tie"))
    if res.sim.errors:
        findings.append({"property": PROP, "rule": "engine-exception", "witness": None,
                         "detail": repr(res.sim.errors[0][:3])})
    E.attach_replay(findings, scn, seed, res, {"kind": "deadline", "dkind": kind, "expect_end": expect_end})
    return common.summarize_run(res, PROP, findings, True, {"kind": "deadline:" + kind},
                                {"deadline:" + kind: 1, "stalled-runs": 1 if scn.get("faults") else 0},
                                common.sha([scn["machines"], scn["script"], scn.get("faults")]))


def gen_stalled_start(i):
    """The start event reaches a busy (stalled) engine late: the first state's relative deadline still counts from the
    instant the execution was started (the EnteredTime the front end stamped), on both front ends and in any time zone."""
    seed = common.run_seed(8800000 + i)
    rng = random.Random(seed)
    w = rng.choice([3, 4, 6])
    dur = rng.choice([0.5, 1.0, 2.5])
    first = rng.choice(["wait", "wait", "task-timeout"])
    if first == "wait":
        states = {"A": {"Type": "Wait", "Seconds": w, "Next": "Z"}, "Z": {"Type": "Pass", "End": True}}
    else:
        states = {"A": {"Type": "Task", "Resource": F + "slow", "TimeoutSeconds": w, "End": True}}
    cfg = {"policy": "latency", "latency": HOP, "execution_ttl": 600, "tz": rng.choice(["UTC0", "SIM-05:30", "SIM+03:00", "SIM-12:45"]),
           "transport": rng.choice(["asyncio", "blocking"])}
    scn = {"machines": {"m": {"definition": {"StartAt": "A", "States": states}, "type": rng.choice(["STANDARD", "EXPRESS"])}},
           "executions": [{"machine": "m", "input": {"x": 1}, "name": "e1", "at": 0.0}], "script": {"slow": [{"noreply": True}]},
           "functions": ["slow"], "config": cfg, "faults": [{"kind": "stall", "node": 0, "at": 0.05, "duration": dur}]}
    return seed, scn, first, w


def check_stalled_start(scn, seed, first, w):
    res = run_scenario(scn, seed, horizon=700)
    arn = res.exec_arns.get("e1")
    t0 = timing.start_time(res, "e1")
    findings = []
    evs = res.world.terminal_events().get(arn, []) if arn else []
    if not evs or t0 is None:
        findings.append({"property": PROP, "rule": "never-terminal", "witness": None, "detail": "stalled start: %s" % res.end_reason})
    else:
        d = evs[0]["body"]["detail"]
        te = evs[0]["published_at"] - t0
        want = "SUCCEEDED" if first == "wait" else "FAILED"
        # the end is published one hop after the deadline is handled; nothing else may delay or hasten it
        if d["status"] != want or not (w - timing.TOL <= te <= w + 0.3):
            findings.append({"property": PROP, "rule": "wait-instant" if first == "wait" else "task-timeout-instant",
                             "witness": scn["config"]["transport"],
                             "detail": "first state %s of %d s, start event handled late by a stalled engine (%s front end, TZ %s): "
                                       "ended %s %r at t=%.3f after the start, expected %s at t=%d" % (
                                           first, w, scn["config"]["transport"], scn["config"]["tz"], d["status"], d.get("error"),
                                           te, want, w)})
    if res.sim.errors:
        findings.append({"property": PROP, "rule": "engine-exception", "witness": None, "detail": repr(res.sim.errors[0][:3])})
    E.attach_replay(findings, scn, seed, res, {"kind": "stalled-start", "first": first, "w": w})
    return common.summarize_run(res, PROP, findings, True, {"kind": "stalled-start"},
                                {"stalled-start:" + first: 1, "stalled-start:" + scn["config"]["transport"]: 1, "stalled-runs": 1},
                                common.sha([scn["machines"], scn["config"]["tz"], scn["config"]["transport"], scn["faults"]]))


# Map batches: Wait / Task time-out as the FIRST state of an iterator, MaxConcurrency below the item count, optionally
# the Map's own event delivered late: every iteration's deadline counts from the instant that iteration is started
def gen_batches(i):
    seed = common.run_seed(8500000 + i)
    rng = random.Random(seed)
    n = rng.randint(2, 5)
    mc = rng.choice([1, 1, 2, 3])
    first = rng.choice(["wait", "wait", "task-timeout", "pass-then-wait"])
    w = rng.choice([1, 2, 5, 10])
    if first == "wait":
        it = {"StartAt": "W", "States": {"W": {"Type": "Wait", "Seconds": w, "End": True}}}
    elif first == "pass-then-wait":
        it = {"StartAt": "P", "States": {"P": {"Type": "Pass", "Next": "W"}, "W": {"Type": "Wait", "Seconds": w, "End": True}}}
    else:
        it = {"StartAt": "T", "States": {"T": {"Type": "Task", "Resource": F + "silent", "TimeoutSeconds": w,
                                                "Catch": [{"ErrorEquals": ["States.Timeout"], "Next": "C"}]},
                                         "C": {"Type": "Pass", "Result": "timed out", "End": True}}}
    definition = {"StartAt": "M", "States": {"M": {"Type": "Map", "ItemsPath": "$.items", "MaxConcurrency": mc,
                                                   rng.choice(["ItemProcessor", "Iterator"]): it, "End": True}}}
    if rng.random() < 0.4:
        definition["States"] = {"A": {"Type": "Wait", "Seconds": 1, "Next": "M"}, "M": definition["States"]["M"]}
        definition["StartAt"] = "A"
    cfg = E.policy_cfg(rng.choice(["canonical", "canonical", "latency-small", "shuffle"]))
    cfg.update(execution_ttl=600, tz=rng.choice(["UTC0", "SIM+09:45"]))
    scn = {"machines": {"m": {"definition": definition, "type": rng.choice(["STANDARD", "EXPRESS"])}},
           "executions": [{"machine": "m", "input": {"items": list(range(n))}, "name": "e1", "at": 0.0}],
           "script": {"silent": [{"noreply": True}]}, "functions": ["silent"], "config": cfg}
    if rng.random() < 0.3:
        scn["faults"] = [{"kind": "stall", "node": 0, "at": rng.choice([0.0, 0.5, 1.0]), "duration": rng.choice([1.0, 3.0])}]
    return seed, scn


def find_type(machine, name):
    st = machine["States"].get(name)
    if st:
        return st.get("Type")
    for st in machine["States"].values():
        for sub in list(st.get("Branches") or []) + [st[k] for k in ("ItemProcessor", "Iterator") if isinstance(st.get(k), dict)]:
            t = find_type(sub, name)
            if t:
                return t
    return None


def deadline_findings(scn, res, arn, t0, exact, mo=None):
    """
    The machine's TimeoutSeconds: nothing but the States.Timeout failure may happen once it has passed.
      exact runs   the execution is over by t0 + TimeoutSeconds (it either ended before or fails with States.Timeout
                   exactly then)
      every run    a state (of any type) whose event is handled after the deadline must not complete, be retried or be
                   caught: the only history that may follow for the execution is failure, and it ends FAILED with
                   States.Timeout
    """
    limit = scn["machines"]["m"]["definition"].get("TimeoutSeconds")
    if limit is None or t0 is None or arn is None:
        return []
    out = []
    deadline = t0 + limit
    evs = res.world.terminal_events().get(arn, [])
    if exact and evs and evs[0]["published_at"] > deadline + timing.TOL:
        wit = None
        for tr in (mo.transitions if mo is not None else []):
            if tr[1] == "retry" and tr[0] <= limit < tr[0] + tr[3][1] + timing.TOL:
                wit = "deadline-inside-retry-backoff"      # recorded finding: noticed only when the back-off ends
        out.append({"property": PROP, "rule": "execution-outlived-its-timeout", "witness": wit,
                    "detail": "machine TimeoutSeconds %s: the execution ended at t=%.4f (%s), after t=%.4f" % (
                        limit, evs[0]["published_at"] - EPOCH, evs[0]["body"]["detail"]["status"], deadline - EPOCH)})
    late = None
    entered_late = set()
    stalled = bool(scn.get("faults"))
    zero = scn["config"].get("latency", "zero") == "zero"
    for n in res.world.nodes:
        for (step, t, a, typ, details, smt) in n.history_log:
            if a != arn or t <= deadline + timing.TOL:
                continue
            name = details.get("name")
            if typ.endswith("StateEntered"):
                entered_late.add((typ[:-len("StateEntered")], name))
                if late is None:
                    late = (typ, name, t)
            elif typ.endswith("StateExited") and ((typ[:-len("StateExited")], name) in entered_late or (
                    typ in ("TaskStateExited", "WaitStateExited") and zero and not stalled)):
                # a state (of any type) entered after the deadline can only fail; without latency or stall, a Task or
                # Wait entered before it cannot complete after it either (its timer is cut at the deadline)
                out.append({"property": PROP, "rule": "progress-after-execution-timeout", "witness": None,
                            "detail": "machine TimeoutSeconds %s (deadline t=%.4f): %s %s at t=%.4f" % (
                                limit, deadline - EPOCH, typ, name, t - EPOCH)})
                return out
    if late is not None and evs:
        d = evs[0]["body"]["detail"]
        err = None
        try:
            err = json.loads(d.get("output") or "null")
        except ValueError:
            pass
        if d["status"] != "FAILED" or d.get("error", (err or {}).get("Error") if isinstance(err, dict) else None) not in (
                "States.Timeout", None):
            out.append({"property": PROP, "rule": "progress-after-execution-timeout", "witness": None,
                        "detail": "machine TimeoutSeconds %s: %s %s handled at t=%.4f, after the deadline, and the "
                                  "execution ended %s %r" % (limit, late[0], late[1], late[2] - EPOCH, d["status"],
                                                             d.get("error"))})
    return out


DAY = 86400.0


def gen_long(k):
    """Timers far beyond the usual: Waits and time-outs of days, a cancelled multi-day Wait, a machine TimeoutSeconds
    above execution_ttl.  Returns (seed, scenario, expected status, expected error, expected end in seconds)."""
    seed = common.run_seed(8200000 + k)
    rng = random.Random(seed)
    kind = ["wait-days", "parallel-days", "task-timeout-days", "limit-above-ttl", "limit-above-ttl-late"][k % 5]
    cfg = {"policy": "canonical", "latency": "zero", "execution_ttl": int(10 * DAY), "max_steps": 3000000,
           "transport": ["asyncio", "blocking"][(k // 5) % 2], "tz": rng.choice(["UTC0", "SIM-05:30"])}
    script = {}
    if kind == "wait-days":
        d = rng.choice([1.0, 1.5, 2.25]) * DAY + rng.choice([0, 1, 3600])
        definition = {"StartAt": "W", "States": {"W": {"Type": "Wait", "Seconds": int(d), "End": True}}}
        want = ("SUCCEEDED", None, float(int(d)))
    elif kind == "parallel-days":
        a, b = rng.choice([(3, 2), (2.5, 1.25), (2, 1.5)])
        definition = {"StartAt": "P", "States": {"P": {"Type": "Parallel", "End": True, "Branches": [
            {"StartAt": "A", "States": {"A": {"Type": "Wait", "Seconds": int(a * DAY), "Next": "A2"},
                                        "A2": {"Type": "Pass", "End": True}}},
            {"StartAt": "B", "States": {"B": {"Type": "Wait", "Seconds": int(b * DAY), "Next": "X"},
                                        "X": {"Type": "Fail", "Error": "Boom", "Cause": "b"}}}]}}}
        want = ("FAILED", "Boom", float(int(b * DAY)))
    elif kind == "task-timeout-days":
        d = rng.choice([1.5, 2.0]) * DAY
        definition = {"StartAt": "T", "States": {"T": {"Type": "Task", "Resource": F + "slow", "TimeoutSeconds": int(d), "End": True}}}
        script = {"slow": [{"noreply": True}]}
        want = ("FAILED", "States.Timeout", float(int(d)))
    else:
        # the machine's own TimeoutSeconds is above execution_ttl: a Task without a time-out of its own has until then
        cfg["execution_ttl"] = 3600
        reply = 5000.0 if kind == "limit-above-ttl" else 7300.0
        definition = {"StartAt": "T", "TimeoutSeconds": 7200, "States": {"T": {"Type": "Task", "Resource": F + "slow", "End": True}}}
        script = {"slow": [{"ok": {"op": "tag"}, "delay": reply}]}
        want = ("SUCCEEDED", None, reply) if reply < 7200 else ("FAILED", "States.Timeout", 7200.0)
    scn = {"machines": {"m": {"definition": definition, "type": rng.choice(["STANDARD", "EXPRESS"])}},
           "executions": [{"machine": "m", "input": {"x": 1}, "name": "e1", "at": 0.0}], "script": script,
           "functions": sorted(script), "config": cfg}
    return seed, scn, kind, want


def check_long(scn, seed, kind, want):
    horizon = (want[2] + 2 * DAY) if want[2] > DAY else want[2] + 4000
    res = run_scenario(scn, seed, horizon=horizon)
    arn = res.exec_arns.get("e1")
    t0 = timing.start_time(res, "e1")
    findings = []
    notes = [(e["published_at"] - t0, e["body"]["detail"]) for e in res.world.subscriber.events
             if e["body"]["detail"].get("executionArn") == arn]
    terms = [(t, d) for t, d in notes if d["status"] != "RUNNING"]
    ctx = "%s (%s)" % (kind, scn["config"]["transport"])
    if not terms:
        findings.append({"property": PROP, "rule": "never-terminal", "witness": kind,
                         "detail": "%s: no terminal notification by t=%.0f (%s)" % (ctx, res.sim.now - t0, res.end_reason)})
    else:
        te, d = terms[0]
        if d["status"] != want[0] or (want[1] and d.get("error") != want[1]):
            findings.append({"property": PROP, "rule": "long-timer-outcome", "witness": kind,
                             "detail": "%s: ended %s %r at t=%.3f, expected %s %r at t=%.3f" % (
                                 ctx, d["status"], d.get("error"), te, want[0], want[1], want[2])})
        elif abs(te - want[2]) > timing.TOL:
            findings.append({"property": PROP, "rule": "wait-early" if te < want[2] else "wait-instant", "witness": kind,
                             "detail": "%s: ended at t=%.3f, expected t=%.3f" % (ctx, te, want[2])})
        if len(terms) > 1:
            findings.append({"property": PROP, "rule": "cancelled-timer-fired", "witness": kind,
                             "detail": "%s: a second terminal notification %s at t=%.3f (first %s at t=%.3f)" % (
                                 ctx, terms[1][1]["status"], terms[1][0], d["status"], te)})
        late = [(t - t0, typ) for n in res.world.nodes for (st_, t, a, typ, det, smt) in n.history_log
                if a == arn and t - t0 > te + timing.TOL]
        if late and not findings:
            findings.append({"property": PROP, "rule": "cancelled-timer-fired", "witness": kind,
                             "detail": "%s: %s recorded at t=%.3f, after the end at t=%.3f" % (ctx, late[0][1], late[0][0], te)})
    if res.sim.errors and not findings:
        findings.append({"property": PROP, "rule": "engine-exception", "witness": None, "detail": repr(res.sim.errors[0][:3])})
    E.attach_replay(findings, scn, seed, res, {"kind": "long", "lkind": kind, "want": list(want)})
    return common.summarize_run(res, PROP, findings, True, {"kind": "long:" + kind}, {"long-timers:" + kind: 1},
                                common.sha(["long", scn["machines"], scn["config"]["transport"]]))


def run_one(item, extra):
    if isinstance(item, tuple) and item[0] == "long":
        seed, scn, kind, want = gen_long(item[1])
        return check_long(scn, seed, kind, want)
    if isinstance(item, tuple) and item[0] == "offsets":
        return run_offsets(item[1], item[2])
    if isinstance(item, tuple) and item[0] == "deadline":
        seed, scn, kind, expect_end = gen_deadline(item[1])
        return check_deadline(scn, seed, kind, expect_end)
    if isinstance(item, tuple) and item[0] == "stalled-start":
        seed, scn, first, w = gen_stalled_start(item[1])
        return check_stalled_start(scn, seed, first, w)
    if isinstance(item, tuple) and item[0] == "batches":
        seed, scn = gen_batches(item[1])
        return check(scn, seed)
    seed, scn, mo = gen(item, extra["tier"])
    if scn is None:
        return {"evaluations": 1, "probes": {"no-acceptable-program": 1}, "findings": [], "distinct": []}
    return check(scn, seed, mo)


def main(argv):
    if len(argv) > 1 and argv[0] == "--replay":
        with open(argv[1]) as f:
            rec = json.load(f)
        if rec.get("kind") == "offsets":
            r = run_offsets(rec["batch"], rec["form"])
        elif rec.get("kind") == "deadline":
            r = check_deadline(rec["scenario"], rec["seed"], rec["dkind"], rec["expect_end"])
        elif rec.get("kind") == "long":
            r = check_long(rec["scenario"], rec["seed"], rec["lkind"], tuple(rec["want"]))
        elif rec.get("kind") == "stalled-start":
            r = check_stalled_start(rec["scenario"], rec["seed"], rec["first"], rec["w"])
        else:
            r = check(rec["scenario"], rec["seed"])
        same = [f for f in r["findings"] if f["rule"] == rec["rule"]]
        print("replay %s: %s" % (argv[1], "REPRODUCED rule=%s%s" % (rec["rule"], common.digest_note(rec, same)) if same else "not reproduced"))
        return 1 if same else 0
    tier = common.tier()
    n = 2500 if tier == "quick" else 100000
    forms = ["plain"] if tier == "quick" else ["plain", "fraction", "zulu"]
    nb = (len(OFFSETS) + BATCH - 1) // BATCH
    items = [("offsets", b, f) for f in forms for b in range(nb)] + list(range(n))
    items += [("deadline", k) for k in range(400 if tier == "quick" else 20000)]
    items += [("batches", k) for k in range(400 if tier == "quick" else 20000)]
    items += [("stalled-start", k) for k in range(200 if tier == "quick" else 8000)]
    items += [("long", k) for k in range(15 if tier == "quick" else 200)]
    rep = common.Report(PROP)
    from checks import minimise as _MIN
    rep.minimiser = lambda f: _MIN.scenario(f, lambda scn, seed: check(scn, seed)) if f.get('kind') == 'generated' else f
    for r in common.run_batch("checks.c08", "run_one", items, {"tier": tier}, chunk=10):
        rep.absorb(r)
    return rep.finish(
        rule="(A) all %d UTC offsets -23:59..+23:59 (x %s notation), 24 executions per simulated run: Wait TimestampPath "
             "must end at the true instant on the virtual clock and a Choice comparing the same/earlier/later instants "
             "written in other offsets must take the right branch (this slice is enumerated completely); (B) generated "
             "sequential programs with Wait Seconds/SecondsPath/Timestamp/TimestampPath, Task TimeoutSeconds, machine "
             "TimeoutSeconds, Retry/Catch and worker replies before/after the deadlines: zero-latency runs compare "
             "every Wait exit, task request and the terminal instant with the reference model within 2 ms, latency "
             "and stalled-engine runs must never be earlier; every third program has its Waits and time-outs inside "
             "Parallel branches and Map iterators; with a machine TimeoutSeconds nothing but the States.Timeout failure "
             "may follow the deadline; (C) Task and machine deadlines that coincide and Task/Wait events that a stalled "
             "engine receives only after the deadlines, with Retry/Catch on States.Timeout/States.ALL: the end is "
             "FAILED/States.Timeout at the deadline (or when the late event is handled), never intercepted; Map "
             "iterators whose first state is a Wait or a timed-out Task under MaxConcurrency batches; non-trivial = at least one Wait or time-out in the model; "
             "distinct = distinct offsets + distinct (program, script, faults) hashes" % (len(OFFSETS), "/".join(forms)),
        assumptions=["exact-instant oracle only with zero latency and no stall; exact ties between a reply and a "
                     "deadline are excluded (either outcome is legal)", "synchronised, non-jumping clock"],
        extra_cov={"offset_slice": {"exhaustive": True, "offsets": len(OFFSETS), "forms": forms}})


if __name__ == "__main__":
    sys.exit(main(sys.argv[1:]))
