"""
C20 - stores act as dictionaries, persist definitions, caches are never stale.

Slices
------
seq      operation sequences against the REAL store classes (JSONStore on the simulated disk, SimpleStore,
         RedisDictStore / RedisListStore on the simulated Redis server through the fake redis/pottery packages)
         compared operation by operation with a dict model.  One or two clients ("processes", each with its own
         connection, tracker and cache); every server invalidation is queued by the simulator and delivered only
         when the (seeded) sequence says so: before, between or after later operations, and - the tracker being a
         thread of its own in the shipped code - also *inside* a read, at a Redis command boundary, together with
         operations of the other client.  Faults: crash of the client inside a write (torn / truncated file, crash
         between two Redis commands), ENOSPC / EIO on the file, garbage file at open, TTL expiry on the virtual
         clock.  Knobs per sequence: cache_size, SCAN page size, server version (client-side caching or not).
engine   the running engine on the simulated broker: definitions created / updated / deleted through the REST
         handlers are still there after crash + restart (file and Redis), records and histories receive the
         configured TTL and disappear when it has passed, and a second instance's cached definition follows an
         update once the invalidation has been delivered.
factory  the factories choose the store kind from the URL and the DISABLE_* switches.
"""
import copy
import json
import os
import random
import sys

from checks import common
from lsfsim import patches
from lsfsim.core import Sim, SimCrash, HarnessError
from lsfsim.disk import Disk

PROP = "C20"
REPO = os.environ.get("VERIF_REPO", "/repo")
REPO_PY = os.path.join(REPO, "asl-workflow-engine", "py")
URL = "redis://localhost:6379?connection_attempts=2&retry_delay=1"
KINDS = ["json", "simple", "redis_dict", "redis_list"]
KEYS = ["arn:aws:states:local:0123456789:stateMachine:a", "k:b", "c", "asl_store:c*"]
FIELDS = ["definition", "type", "f:x"]
FILE = "ASL_store.json"
DEFAULT = "<default>"


def is_redis(kind):
    return kind.startswith("redis")


def is_list(kind):
    return kind == "redis_list"


# ---------------------------------------------------------------------------------------
# generation
# ---------------------------------------------------------------------------------------
class Gen(object):
    def __init__(self, rng, kind, tier):
        self.rng = rng
        self.kind = kind
        self.n = 0
        self.tier = tier

    def uniq(self):
        self.n += 1
        return self.n

    def dict_value(self):
        r = self.rng
        n = self.uniq()
        shape = r.randrange(5)
        if shape == 0:
            return {"n": n}
        if shape == 1:
            return {"definition": json.dumps({"StartAt": "S%d" % n, "States": {}}), "type": r.choice(["STANDARD", "EXPRESS"]),
                    "creationDate": 1700000000.0 + n / 8.0, "n": n}
        if shape == 2:
            return {"n": n, "f:x": [1, {"a": None, "b": [True, 2.5]}], "ü": "grüß"}
        if shape == 3:
            return {}
        return {"n": n, "type": None, "definition": ""}

    def list_value(self):
        r = self.rng
        k = r.choice([0, 1, 1, 2, 3])
        return [{"id": i + 1, "n": self.uniq()} for i in range(k)]

    def value(self):
        if is_list(self.kind):
            return self.list_value()
        if self.kind in ("json", "simple") and self.rng.random() < 0.25:
            return self.list_value()
        return self.dict_value()

    def scalar(self):
        r = self.rng
        return r.choice([self.uniq(), "s%d" % self.uniq(), None, True, [self.uniq()], {"z": self.uniq()}, 1.5 + self.uniq()])


def gen_sequence(seed, kind, tier="quick", force=None):
    rng = random.Random((seed << 3) ^ 0xC20)
    force = force or {}
    g = Gen(rng, kind, tier)
    redis = is_redis(kind)
    cfg = {
        "kind": kind,
        "clients": force.get("clients", rng.choice([1, 2, 2]) if redis else 1),
        "cache_size": force.get("cache_size", rng.choice([0, 1, 2, 3, 1024, 1024])),
        "scan_page": rng.choice([1, 2, 3, 10]),
        "redis_version": rng.choice(["7.0.11", "7.0.11", "7.0.11", "6.0.0", "5.0.7"]),
        "other_keys": rng.randrange(0, 4),   # unrelated keys in the same Redis database
        "preempt": force.get("preempt", rng.random() < 0.35),
        "faults": force.get("faults", rng.random() < 0.35),
    }
    nops = rng.randint(2, 12 if tier == "quick" else 30)
    nkeys = rng.choice([1, 2, 3, 4])
    keys = KEYS[:nkeys]
    ops = []
    cl = cfg["clients"]

    def basic_op(c=None):
        c = rng.randrange(cl) if c is None else c
        k = rng.choice(keys)
        x = rng.random()
        if x < 0.22:
            return {"c": c, "op": "set", "k": k, "v": g.value()}
        if x < 0.40:
            return {"c": c, "op": "cget", "k": k}
        if x < 0.47:
            return {"c": c, "op": rng.choice(["get", "getd"]), "k": k}
        if x < 0.53:
            return {"c": c, "op": "delete", "k": k}
        if x < 0.58:
            return {"c": c, "op": "contains", "k": k}
        if x < 0.64:
            return {"c": c, "op": rng.choice(["iterate", "len", "items"])}
        if x < 0.76:
            if is_list(kind):
                return {"c": c, "op": "append", "k": k, "x": {"id": rng.randint(1, 9), "n": g.uniq()}}
            return {"c": c, "op": "nested", "k": k, "f": rng.choice(FIELDS), "x": g.scalar()}
        if x < 0.82:
            if is_list(kind):
                return {"c": c, "op": rng.choice(["index", "slice", "vlen", "lset"]), "k": k, "i": rng.randint(-4, 4),
                        "j": rng.randint(-4, 5), "x": {"n": g.uniq()}}
            return {"c": c, "op": rng.choice(["field", "fieldin", "vlen", "delfield", "vupdate"]), "k": k,
                    "f": rng.choice(FIELDS), "x": {"n": g.uniq(), "type": "T%d" % g.uniq()}}
        if x < 0.86:
            return {"c": c, "op": "copy", "k": k, "k2": rng.choice(keys)}
        if x < 0.90:
            return {"c": c, "op": "ttl", "k": k, "ttl": rng.choice([5, 60, 86400])}
        if x < 0.94:
            return {"op": "advance", "dt": rng.choice([1, 4, 6, 59, 61, 100000])}
        return {"c": c, "op": "reopen"}

    for _ in range(nops):
        op = basic_op()
        ops.append(op)
        # placement of pending invalidation deliveries: after any operation, for any client, any count
        if redis and rng.random() < 0.5:
            ops.append({"op": "deliver", "c": rng.randrange(cl), "n": rng.choice([1, 1, 2, 99])})
        if cfg["preempt"] and redis and op.get("op") in ("cget", "get", "iterate", "len", "items") and rng.random() < 0.6:
            nested = []
            other = (op["c"] + 1) % cl if cl > 1 else None
            for _ in range(rng.randint(1, 2)):
                if other is not None and rng.random() < 0.7:
                    k = op.get("k") if "k" in op and rng.random() < 0.8 else rng.choice(keys)
                    y = rng.random()
                    if y < 0.6:
                        nested.append({"c": other, "op": "set", "k": k, "v": g.value()})
                    elif y < 0.8:
                        nested.append({"c": other, "op": "delete", "k": k})
                    elif is_list(kind):
                        nested.append({"c": other, "op": "append", "k": k, "x": {"id": 1, "n": g.uniq()}})
                    else:
                        nested.append({"c": other, "op": "nested", "k": k, "f": rng.choice(FIELDS), "x": g.scalar()})
                nested.append({"op": "deliver", "c": op["c"], "n": 99})
            op["nest"] = {"after": rng.randint(1, 3), "ops": nested}
        if cfg["faults"] and op.get("op") in ("set", "nested", "delete", "append", "copy") and rng.random() < 0.3:
            if kind == "json":
                op["fault"] = rng.choice([
                    {"kind": "torn", "stage": "write", "frac": rng.choice([0.0, 0.3, 0.6, 0.95])},
                    {"kind": "crash_after_truncate", "stage": "open_w"},
                    {"kind": "crash_before_replace", "stage": "replace"},
                    {"kind": "enospc", "stage": "write"},
                    {"kind": "enospc_open", "stage": "open_w"},
                    {"kind": "eio", "stage": "write"},
                ])
            elif redis:
                op["fault"] = {"kind": "crash_at_command", "after": rng.randint(1, 3)}
        if cfg["faults"] and kind == "json" and rng.random() < 0.08:
            ops.append({"op": "garbage", "content": rng.choice(
                ["", "{", "{\"a\": {\"n\": 1}", "\x00\x01\x02 not json", "{\"a\": 1}}", "nul", "{'a': 1}"])})
        if cfg["faults"] and kind == "json" and rng.random() < 0.05:
            ops.append({"op": "reopen", "c": 0, "fault": {"kind": "eio", "stage": "read"}})
    # end: deliver everything, then read every key through every client's cached view and through the store
    if redis:
        for c in range(cl):
            ops.append({"op": "deliver", "c": c, "n": 99})
    for c in range(cl):
        for k in keys:
            ops.append({"c": c, "op": "cget", "k": k})
            ops.append({"c": c, "op": "get", "k": k})
        ops.append({"c": c, "op": "items"})
    if kind in ("json",) or redis:
        ops.append({"c": 0, "op": "reopen"})
        ops.append({"c": 0, "op": "items"})
    return {"cfg": cfg, "ops": ops, "keys": keys}


# ---------------------------------------------------------------------------------------
# the harness
# ---------------------------------------------------------------------------------------
class Proc(object):
    """A client process: what the simulator needs to know about a node."""
    transport = "asyncio"

    def __init__(self, name):
        self.name = name
        self.dead = False
        self.torn_down = True
        self.stalled_until = None
        self.redis_clients = []
        self.store = None
        self.pending = []      # undelivered invalidations [(key, tick)]
        self.incarnation = 0

    def teardown(self):
        self.torn_down = True


def plain(v):
    """Native, JSON-able copy of whatever a store handed out."""
    from collections.abc import Mapping, Sequence
    if isinstance(v, Mapping):
        return {k: plain(x) for k, x in v.items()}
    if isinstance(v, (str, bytes)):
        return v
    if isinstance(v, Sequence):
        return [plain(x) for x in v]
    return v


class Harness(object):
    def __init__(self, seq, seed=0):
        patches.install(REPO_PY)
        patches.gc_point()
        import asl_workflow_engine.store as st
        self.st = st
        cfg = seq["cfg"]
        self.cfg = cfg
        self.kind = cfg["kind"]
        self.sim = sim = Sim(seed)
        patches.per_run(sim, "UTC0")
        sim.disk = Disk()
        from lsfsim.redis_server import RedisServer
        self.server = sim.redis_server = RedisServer(sim, scan_page=cfg["scan_page"], version=cfg["redis_version"])
        self.server.inval_sink = self.sink
        for i in range(cfg.get("other_keys", 0)):
            self.server.data["executions:zz%d" % i] = ("hash", {'"a"': "1"})
            self.server.data["a:%d" % i] = ("string", b"x")
        self.procs = [Proc("c%d" % i) for i in range(cfg["clients"])]
        for p in self.procs:
            sim.nodes[p.name] = p
        self.findings = []
        self.tick = 0
        self.cur = {}          # model: key -> value (absent keys missing)
        self.expiry = {}
        self.hist = {}         # key -> [(tick, value or None)]
        self.disk_ok = [{}]    # acceptable whole-file snapshots (json)
        self.uncertain = {}    # key -> [acceptable values] after a failed write (json)
        self.probes = {}
        self.cmds = 0
        self.nest = None
        self.in_nested = False
        self.op_index = -1
        for p in self.procs:
            self.open(p)

    # -- plumbing ---------------------------------------------------------------------
    def probe(self, name, n=1):
        self.probes[name] = self.probes.get(name, 0) + n

    def add(self, rule, witness, detail, resynced=False):
        f = {"property": PROP, "rule": rule, "witness": "%s:%s" % (self.kind, witness),
             "detail": "op#%d %s" % (self.op_index, detail)}
        if resynced:
            f["resynced"] = True   # the model was re-aligned with the store: the run can go on
        self.findings.append(f)

    def sink(self, target_cid, key):
        for p in self.procs:
            if p.store is not None and getattr(p.store, "tracker_id", None) == target_cid:
                p.pending.append((key, self.tick))
                self.probe("invalidations-queued")
                return
        self.probe("invalidations-for-dead-tracker")

    def open(self, p, fault=None):
        st = self.st
        sim = self.sim
        sim.current_node = p.name
        p.dead = False
        p.incarnation += 1
        p.pending = []
        if hasattr(st.RedisStore, "connection"):
            try:
                del st.RedisStore.connection
            except AttributeError:
                pass
        if fault:
            sim.disk.plan(FILE, dict(fault))
        try:
            if self.kind == "json":
                p.store = st.JSONStore(FILE)
            elif self.kind == "simple":
                p.store = st.SimpleStore()
            elif self.kind == "redis_dict":
                p.store = st.RedisDictStore(URL, "asl_store", cache_size=self.cfg["cache_size"], daemon=True)
            else:
                p.store = st.RedisListStore(URL, "execution_history", cache_size=self.cfg["cache_size"], daemon=True)
        except Exception as e:
            p.store = None
            self.add("open-raised", "open", "opening the store raised %s: %s" % (type(e).__name__, e))
        finally:
            sim.disk.faults.clear()

    def close(self, p, crash):
        sim = self.sim
        sim.current_node = p.name
        s = p.store
        p.store = None
        if crash:
            p.dead = True
            for r in p.redis_clients:
                r._kill()
            p.redis_clients = []
            if hasattr(s, "tracker_id"):
                s.tracker_id = None   # a dead process runs no destructor
        elif s is not None and hasattr(s, "stop"):
            try:
                s.stop()
            except Exception as e:
                self.add("stop-raised", "stop", "%s: %s" % (type(e).__name__, e))
        del s
        p.pending = []
        # the old tracker is gone: the server forgets what it remembered for it
        p.dead = False

    def rkey(self, k):
        return ("asl_store:" if self.kind == "redis_dict" else "execution_history:") + k

    # -- the model ----------------------------------------------------------------------
    def empty(self):
        return [] if is_list(self.kind) else {}

    def m_get(self, k):
        """(present, value)"""
        if k in self.cur:
            return True, self.cur[k]
        return False, None

    def m_set(self, k, v):
        v = copy.deepcopy(v)
        if is_redis(self.kind) and not v:
            self.m_del(k)
            return
        self.cur[k] = v
        self.hist.setdefault(k, []).append((self.tick, copy.deepcopy(v)))
        self.expiry.pop(k, None)   # replacing the whole value is delete + create: the new key has no expiry

    def m_del(self, k):
        if k in self.cur:
            del self.cur[k]
            self.hist.setdefault(k, []).append((self.tick, None))
        self.expiry.pop(k, None)

    def m_changed(self, k):
        """after an in-place change of cur[k]"""
        v = self.cur.get(k)
        if is_redis(self.kind) and not v:
            self.m_del(k)
        else:
            self.hist.setdefault(k, []).append((self.tick, copy.deepcopy(v)))

    def values_since(self, k, tick):
        """values k has held from just before `tick` until now (None = absent)"""
        h = self.hist.get(k, [])
        out = []
        before = None
        for t, v in h:
            if t < tick:
                before = v
            else:
                out.append(v)
        return [before] + out

    def snapshot(self):
        return copy.deepcopy(self.cur)

    # -- running -------------------------------------------------------------------------
    def run(self, ops):
        for i, op in enumerate(ops):
            self.op_index = i
            self.execute(op)
            if any(not f.get("resynced") for f in self.findings):
                break
        for p in self.procs:
            if p.store is not None:
                self.close(p, crash=False)
        return self.findings

    def boundary(self, cid, name):
        """Called by the fake redis after every command: the pre-emption points of an operation."""
        if self.in_nested:
            return
        self.cmds += 1
        if self.crash_after is not None and self.cmds == self.crash_after:
            self.crash_after = None
            self.probe("crash-between-redis-commands")
            raise SimCrash()
        n = self.nest
        if n is not None and self.cmds == n["after"]:
            self.nest = None
            self.in_nested = True
            outer = (self.op_index, self.sim.current_node)
            try:
                self.probe("preempted-inside-read")
                for sub in n["ops"]:
                    self.execute(sub, nested=True)
            finally:
                self.in_nested = False
                self.sim.current_node = outer[1]

    def execute(self, op, nested=False):
        kind = op["op"]
        if kind == "deliver":
            return self.deliver(self.procs[op["c"] % len(self.procs)], op["n"])
        if kind == "advance":
            return self.advance(op["dt"])
        if kind == "garbage":
            if self.kind != "json":
                return
            p = self.procs[0]
            self.close(p, crash=True)
            self.sim.disk.files[FILE] = op["content"]
            self.probe("garbage-file")
            self.open(p)
            self.cur = {}
            self.hist = {}
            self.uncertain = {}
            self.disk_ok = [{}]
            if p.store is not None:
                got = self.call(p, lambda s: plain(dict(s)))
                if got != {}:
                    self.add("unreadable-file-not-empty", "garbage", "store opened on %r holds %r" % (op["content"], got))
            return
        p = self.procs[op["c"] % len(self.procs)]
        if kind == "reopen":
            return self.reopen(p, op)
        if p.store is None:
            return
        self.tick += 1
        start_tick = self.tick
        self.sim.current_node = p.name
        if not nested:
            self.cmds = 0
            self.crash_after = None
            self.nest = op.get("nest") if is_redis(self.kind) else None
            self.server.boundary_hook = self.boundary
        fault = op.get("fault") if not nested else None
        if fault:
            if fault["kind"] == "crash_at_command":
                self.crash_after = fault["after"]
            else:
                self.sim.disk.plan("*" if fault["stage"] != "replace" else FILE, dict(fault))
        before = self.snapshot()
        had_cache = self.cache_has(p, op.get("k"))
        crashed = False
        try:
            got = self.perform(p, op)
        except SimCrash:
            crashed = True
            got = None
        finally:
            if not nested:
                self.server.boundary_hook = None
                self.nest = None
                self.crash_after = None
            self.sim.disk.faults.clear()
        if crashed:
            self.probe("crash-inside-%s" % kind)
            return self.after_crash(p, op, before)
        self.judge(p, op, got, before, start_tick, had_cache, nested)
        self.invariants()

    def cache_has(self, p, k):
        c = getattr(p.store, "cache", None)
        return c is not None and k in c

    def call(self, p, fn):
        self.sim.current_node = p.name
        try:
            return fn(p.store)
        except SimCrash:
            raise
        except Exception as e:
            return {"exc": type(e).__name__, "msg": str(e)[:200]}

    def perform(self, p, op):
        kind = op["op"]
        k = op.get("k")
        v = copy.deepcopy(op.get("v"))
        x = copy.deepcopy(op.get("x"))
        if kind == "set":
            return self.call(p, lambda s: s.__setitem__(k, v))
        if kind == "get":
            return self.call(p, lambda s: plain(s[k]))
        if kind == "getd":
            return self.call(p, lambda s: plain(s.get(k, DEFAULT)))
        if kind == "cget":
            return self.call(p, lambda s: plain(s.get_cached_view(k, DEFAULT)))
        if kind == "delete":
            return self.call(p, lambda s: s.__delitem__(k))
        if kind == "contains":
            return self.call(p, lambda s: k in s)
        if kind == "iterate":
            return self.call(p, lambda s: list(iter(s)))
        if kind == "len":
            return self.call(p, lambda s: len(s))
        if kind == "items":
            return self.call(p, lambda s: {a: plain(b) for a, b in s.items()})
        if kind == "nested":
            return self.call(p, lambda s: s[k].__setitem__(op["f"], x))
        if kind == "append":
            return self.call(p, lambda s: s[k].append(x))
        if kind == "index":
            return self.call(p, lambda s: plain(s[k][op["i"]]))
        if kind == "slice":
            return self.call(p, lambda s: plain(s[k][op["i"]:op["j"]]))
        if kind == "lset":
            return self.call(p, lambda s: s[k].__setitem__(op["i"], x))
        if kind == "vlen":
            return self.call(p, lambda s: len(s[k]))
        if kind == "field":
            return self.call(p, lambda s: plain(s[k][op["f"]]))
        if kind == "fieldin":
            return self.call(p, lambda s: op["f"] in s[k])
        if kind == "delfield":
            return self.call(p, lambda s: s[k].__delitem__(op["f"]))
        if kind == "vupdate":
            return self.call(p, lambda s: s[k].update(x))
        if kind == "copy":
            if is_redis(self.kind):
                return self.call(p, lambda s: s.__setitem__(op["k2"], s[k]))
            # a plain dict would alias the two entries; that is Python, not the store
            return self.call(p, lambda s: s.__setitem__(op["k2"], copy.deepcopy(plain(s[k]))))
        if kind == "ttl":
            return self.call(p, lambda s: s.set_ttl(k, op["ttl"]))
        raise HarnessError("unknown op %r" % (op,))

    # -- oracle ---------------------------------------------------------------------------
    def judge(self, p, op, got, before, start_tick, had_cache, nested):
        kind = op["op"]
        k = op.get("k")
        redis = is_redis(self.kind)
        present, val = self.m_get(k) if k is not None else (False, None)
        overlapped = self.tick > start_tick   # nested operations ran inside this one
        exc = got.get("exc") if isinstance(got, dict) and set(got.keys()) == {"exc", "msg"} else None
        fault = op.get("fault") if not nested else None
        json_fail = self.kind == "json" and fault and fault["kind"] in ("enospc", "enospc_open", "eio")

        def bad(rule, detail, witness=None):
            self.add(rule, witness or kind, "%s -> %r: %s" % (json.dumps(op, sort_keys=True, default=str)[:300], got, detail))

        def unexpected_exc():
            if exc is not None:
                bad("operation-raised", "raised %s (%s)" % (exc, got.get("msg")))
                return True
            return False

        # ---- writes
        if kind == "set":
            if json_fail:
                return self.failed_write(p, op, got, before, lambda: self.m_set(k, op["v"]))
            if unexpected_exc():
                return
            self.m_set(k, op["v"])
            return self.wrote(p)
        if kind == "delete":
            if not present and not redis:
                if exc != "KeyError":
                    bad("delete-of-missing-key", "expected KeyError")
                return
            if json_fail:
                return self.failed_write(p, op, got, before, lambda: self.m_del(k))
            if unexpected_exc():
                return
            self.m_del(k)
            return self.wrote(p)
        if kind == "nested":
            if not redis:
                if not present:
                    if exc != "KeyError":
                        bad("nested-update-of-missing-key", "expected KeyError")
                    return
                if isinstance(val, list):
                    return  # a list value: field assignment is a TypeError of the value, not of the store
                if unexpected_exc():
                    return
                val[op["f"]] = copy.deepcopy(op["x"])
                return self.m_changed(k)
            if unexpected_exc():
                return
            d = self.cur.setdefault(k, {})
            d[op["f"]] = copy.deepcopy(op["x"])
            return self.m_changed(k)
        if kind == "vupdate":
            if not redis and (not present or isinstance(val, list)):
                return
            if unexpected_exc():
                return
            d = self.cur.setdefault(k, {})
            d.update(copy.deepcopy(op["x"]))
            return self.m_changed(k)
        if kind == "delfield":
            has = present and isinstance(val, dict) and op["f"] in val
            if not has:
                if not redis and not present:
                    return
                if isinstance(val, list):
                    return
                if exc != "KeyError":
                    bad("delete-of-missing-field", "expected KeyError")
                return
            if unexpected_exc():
                return
            del val[op["f"]]
            return self.m_changed(k)
        if kind == "append":
            if not redis:
                if not present or not isinstance(val, list):
                    return
                if unexpected_exc():
                    return
                val.append(copy.deepcopy(op["x"]))
                return self.m_changed(k)
            if unexpected_exc():
                return
            self.cur.setdefault(k, []).append(copy.deepcopy(op["x"]))
            return self.m_changed(k)
        if kind == "lset":
            lst = val if present else []
            i = op["i"]
            if not -len(lst) <= i < len(lst):
                if exc != "IndexError":
                    bad("list-assignment-out-of-range", "expected IndexError for a list of %d" % len(lst))
                return
            if unexpected_exc():
                return
            lst[i] = copy.deepcopy(op["x"])
            return self.m_changed(k)
        if kind == "copy":
            k2 = op["k2"]
            if not present and not redis:
                if exc != "KeyError":
                    bad("copy-of-missing-key", "expected KeyError")
                return
            if json_fail:
                return self.failed_write(p, op, got, before, lambda: self.m_set(k2, copy.deepcopy(val)), key=k2)
            if unexpected_exc():
                return
            if k2 != k:
                if present:
                    self.m_set(k2, copy.deepcopy(val))
                else:
                    self.m_del(k2)
            return self.wrote(p)
        if kind == "ttl":
            if unexpected_exc():
                return
            if redis and present:
                self.expiry[k] = self.sim.now + op["ttl"]
                srv = self.server.expiry.get(self.rkey(k))
                if srv != self.expiry[k]:
                    bad("ttl-not-applied", "server expiry %r, expected now+%s" % (srv, op["ttl"]))
            return

        # ---- reads
        if overlapped and k is not None:
            allowed = self.values_since(k, start_tick + 1)
        else:
            allowed = [val if present else None]
        if self.kind == "json" and k in self.uncertain:
            allowed = allowed + self.uncertain[k]

        def matches(gotv, a, missing_ok):
            if a is None:
                return gotv in missing_ok
            return gotv == a

        if kind in ("get", "getd", "cget"):
            if redis:
                missing_ok = [self.empty(), DEFAULT, {"exc": "KeyError"}]
            elif kind == "get":
                missing_ok = []
            else:
                missing_ok = [DEFAULT]
            g = {"exc": "KeyError"} if exc == "KeyError" else got
            if not redis and kind == "get" and None in allowed and exc == "KeyError":
                ok = True
            else:
                if exc is not None and exc != "KeyError":
                    return bad("operation-raised", "raised %s (%s)" % (exc, got.get("msg")))
                ok = any(matches(g, a, missing_ok) for a in allowed)
            if kind == "cget" and redis:
                self.probe("cached-reads")
                if had_cache:
                    self.probe("cached-reads-hit")
                pend = [t for (key, t) in p.pending if key == self.rkey(k)]
                if ok:
                    return
                if pend:
                    stale_ok = self.values_since(k, min(pend))
                    if any(matches(g, a, missing_ok) for a in stale_ok):
                        self.probe("stale-read-while-invalidation-pending")
                        return
                    return bad("cached-view-wrong", "not a value the key held since its oldest undelivered invalidation "
                               "(allowed %r)" % (stale_ok,), witness="pending")
                return bad("stale-cached-view", "every invalidation for this key has been delivered to this client; "
                           "current value %r" % (allowed,), witness="after-delivery")
            if not ok:
                bad("read-differs-from-last-write", "expected one of %r" % (allowed,))
            return
        if kind == "contains":
            if exc is not None:
                return unexpected_exc()
            exp = [a is not None for a in allowed]
            if got not in exp:
                bad("membership-differs", "expected %r" % (exp,))
            return
        if kind in ("iterate", "len", "items"):
            if exc is not None:
                return unexpected_exc()
            keys_now = set(self.cur.keys())
            if overlapped:
                stable = set(k2 for k2 in keys_now if k2 in before and not any(
                    t > start_tick for t, _ in self.hist.get(k2, [])))
                if kind == "len":
                    return
                gotkeys = list(got) if kind == "iterate" else list(got.keys())
                if not stable <= set(gotkeys):
                    bad("iteration-missed-stable-key", "keys %r were present throughout" % (sorted(stable),))
                return
            if kind == "len":
                if got != len(keys_now):
                    bad("length-differs", "expected %d" % len(keys_now))
                return
            gotkeys = list(got) if kind == "iterate" else list(got.keys())
            if kind == "iterate" and len(gotkeys) != len(set(gotkeys)):
                bad("iteration-duplicates", "keys %r" % (gotkeys,))
            if set(gotkeys) != keys_now:
                bad("iteration-differs", "expected keys %r" % (sorted(keys_now),))
            elif kind == "items":
                for k2, v2 in got.items():
                    exp2 = [self.cur[k2]] + self.uncertain.get(k2, [])
                    if v2 not in exp2:
                        bad("read-differs-from-last-write", "items()[%r]: expected %r" % (k2, self.cur[k2]))
            return
        # value-level reads
        if kind in ("index", "slice", "vlen", "field", "fieldin"):
            if overlapped or (self.kind == "json" and k in self.uncertain):
                return
            if not present:
                if redis:
                    val = self.empty()
                else:
                    if exc != "KeyError":
                        bad("read-of-missing-key", "expected KeyError")
                    return
            if kind == "vlen":
                if got != len(val):
                    bad("value-length-differs", "expected %d" % len(val))
            elif kind == "index":
                if not isinstance(val, list):
                    return
                try:
                    exp = val[op["i"]]
                except IndexError:
                    if exc != "IndexError":
                        bad("index-out-of-range", "expected IndexError for a list of %d" % len(val))
                    return
                if got != exp:
                    bad("list-order", "expected %r" % (exp,))
            elif kind == "slice":
                if not isinstance(val, list):
                    return
                if got != val[op["i"]:op["j"]]:
                    bad("list-order", "expected %r" % (val[op["i"]:op["j"]],))
            elif kind == "field":
                if not isinstance(val, dict):
                    return
                if op["f"] in val:
                    if got != val[op["f"]]:
                        bad("read-differs-from-last-write", "expected %r" % (val[op["f"]],))
                elif exc != "KeyError":
                    bad("read-of-missing-field", "expected KeyError")
            elif kind == "fieldin":
                if isinstance(val, dict) and got != (op["f"] in val):
                    bad("membership-differs", "expected %r" % (op["f"] in val))
            return

    def wrote(self, p):
        """A write-through operation returned normally."""
        if self.kind == "json":
            self.disk_ok = [self.snapshot()]
            self.uncertain = {}

    def failed_write(self, p, op, got, before, apply, key=None):
        """json: the file system refused the write. The operation must have raised; memory may hold old or new."""
        key = key or op["k"]
        exc = got.get("exc") if isinstance(got, dict) else None
        self.probe("write-refused-by-file-system")
        if exc not in ("OSError", "IOError"):
            self.add("write-error-swallowed", op["fault"]["kind"], "%s returned %r although the file system failed" % (
                op["op"], got))
        old = copy.deepcopy(before.get(key))
        apply()
        new = copy.deepcopy(self.cur.get(key))
        # resolve: read back what memory holds now
        cur = self.call(p, lambda s: plain(s[key]) if key in s else None)
        if cur not in (old, new):
            self.add("read-differs-from-last-write", "after-failed-write", "key %r holds %r, expected %r or %r" % (
                key, cur, old, new))
        if cur is None:
            self.cur.pop(key, None)
        else:
            self.cur[key] = cur
        self.hist.setdefault(key, []).append((self.tick, copy.deepcopy(cur)))
        self.disk_ok = self.disk_ok + [self.snapshot()]

    def after_crash(self, p, op, before):
        """The client died inside a write. Restart it and compare what survived."""
        kind = op["op"]
        self.close(p, crash=True)
        self.open(p)
        if p.store is None:
            return
        if self.kind == "json":
            # the write was never acknowledged: old or new whole-file snapshot
            new = self.would_be(op, before)
            ok = self.disk_ok + [new]
            got = self.call(p, lambda s: plain(dict(s)))
            if got not in ok:
                lost = sorted(k for k in self.disk_ok[0] if not isinstance(got, dict) or k not in got)
                self.add("acknowledged-write-lost-after-crash", op["fault"]["kind"],
                         "crash inside %s(%r): after restart the store holds %r; acknowledged content was %r (keys lost: %r)" % (
                             kind, op.get("k"), got, self.disk_ok[0], lost))
            self.cur = got if isinstance(got, dict) else {}
            self.hist = {}
            for k, v in self.cur.items():
                self.hist[k] = [(self.tick, copy.deepcopy(v))]
            self.disk_ok = [self.snapshot()]
            self.uncertain = {}
            return
        # redis: only the key(s) being written may differ, and must hold the old or the new value
        new = self.would_be(op, before)
        got = self.call(p, lambda s: {a: plain(b) for a, b in s.items()})
        if not isinstance(got, dict) or "exc" in got:
            self.add("operation-raised", "items-after-crash", repr(got))
            return
        for k in set(before) | set(new) | set(got):
            o, n, g = before.get(k), new.get(k), got.get(k)
            if g != o and g != n:
                self.add("acknowledged-write-lost-after-crash",
                         "crash-between-commands-of-%s" % ("setitem" if kind in ("set", "copy") else kind),
                         "client crashed after Redis command %d of %s(%r): the key now holds %r; before %r, intended %r" % (
                             op["fault"]["after"], kind, k, g, o, n), resynced=True)
        self.cur = {k: v for k, v in got.items()}
        for k in set(before) | set(got):
            self.hist.setdefault(k, []).append((self.tick, copy.deepcopy(got.get(k))))
        # whether the (unacknowledged) write got as far as dropping the key's expiry is as open as its value: the
        # model takes over what the server holds for the key(s) being written
        for k in set(before) | set(new) | set(got):
            if before.get(k) != new.get(k) or k == op.get("k") or k == op.get("k2"):
                srv = self.server.expiry.get(self.rkey(k))
                if srv is None or k not in got:
                    self.expiry.pop(k, None)
                else:
                    self.expiry[k] = srv
        # pending invalidations of the dead client are gone with it; other clients keep theirs

    def would_be(self, op, before):
        m = copy.deepcopy(before)
        kind, k = op["op"], op.get("k")
        redis = is_redis(self.kind)
        if kind == "set":
            if redis and not op["v"]:
                m.pop(k, None)
            else:
                m[k] = copy.deepcopy(op["v"])
        elif kind == "delete":
            m.pop(k, None)
        elif kind == "copy":
            if k in m:
                m[op["k2"]] = copy.deepcopy(m[k])
            elif redis:
                m.pop(op["k2"], None)
        elif kind == "append" and redis:
            m.setdefault(k, []).append(copy.deepcopy(op["x"]))
        elif kind == "nested" and redis:
            m.setdefault(k, {})[op["f"]] = copy.deepcopy(op["x"])
        return m

    def invariants(self):
        for p in self.procs:
            s = p.store
            c = getattr(s, "cache", None)
            if c is not None:
                if len(c) > s.cache_size:
                    self.add("cache-over-capacity", "capacity", "%d entries, capacity %d" % (len(c), s.cache_size))
                if len(c) == s.cache_size:
                    self.probe("cache-full")
        for e in self.sim.errors:
            self.add("invalidation-handler-raised", "handler", "%s" % (e[2],))
        del self.sim.errors[:]

    def deliver(self, p, n):
        if p.store is None:
            return
        tid = getattr(p.store, "tracker_id", None)
        k = 0
        while p.pending and k < n:
            key, t = p.pending.pop(0)
            k += 1
            subs = self.server.subscribers("__redis__:invalidate", tid)
            msg = {"type": "message", "pattern": None, "channel": b"__redis__:invalidate", "data": [key.encode("utf8")]}
            for (_cid, _h, pubsub) in subs:
                pubsub._deliver(msg)
                self.probe("invalidations-delivered")
        self.invariants()

    def advance(self, dt):
        self.tick += 1
        self.sim.now += dt
        for k, t in list(self.expiry.items()):
            if self.sim.now > t:       # (Redis: a key is expired when now > its expiry instant)
                self.m_del(k)
                self.probe("keys-expired")
        self.server.sweep()

    def reopen(self, p, op):
        self.tick += 1
        self.probe("reopen")
        self.close(p, crash=bool(op.get("crash")))
        self.open(p, fault=op.get("fault"))
        if p.store is None:
            return
        if self.kind == "simple":
            self.cur = {}
            self.hist = {}
            return
        if self.kind == "json":
            got = self.call(p, lambda s: plain(dict(s)))
            if op.get("fault"):
                # the file could not be read: starts empty, no exception
                if got != {}:
                    self.add("unreadable-file-not-empty", "eio", "holds %r" % (got,))
            elif got not in self.disk_ok:
                self.add("written-value-lost-after-reopen", "reopen", "store holds %r, file should hold %r" % (
                    got, self.disk_ok))
            self.cur = got if isinstance(got, dict) else {}
            self.hist = {k: [(self.tick, copy.deepcopy(v))] for k, v in self.cur.items()}
            self.uncertain = {}
            if op.get("fault"):
                # nothing was lost on disk; the next write replaces the file with what memory holds
                pass
            self.disk_ok = [self.snapshot()] if not op.get("fault") else self.disk_ok + [self.snapshot()]


def run_sequence(seq, seed=0):
    h = Harness(seq, seed)
    h.run(seq["ops"])
    return h


# ---------------------------------------------------------------------------------------
# minimisation (ddmin over the operation list, same rule+witness must persist)
# ---------------------------------------------------------------------------------------
def still_fails(seq, key):
    try:
        h = run_sequence(seq)
    except Exception:
        return False
    return any((f["rule"], f["witness"]) == key for f in h.findings)


def minimise(seq, key, budget=400):
    ops = list(seq["ops"])
    n = 2
    tries = 0
    while len(ops) >= 2 and tries < budget:
        chunk = max(1, len(ops) // n)
        reduced = False
        for i in range(0, len(ops), chunk):
            cand = ops[:i] + ops[i + chunk:]
            tries += 1
            if cand and still_fails(dict(seq, ops=cand), key):
                ops = cand
                n = max(n - 1, 2)
                reduced = True
                break
        if not reduced:
            if chunk == 1:
                break
            n = min(n * 2, len(ops))
    # drop nests / faults that are not needed
    for i, op in enumerate(list(ops)):
        for field in ("nest", "fault"):
            if field in op:
                cand = copy.deepcopy(ops)
                del cand[i][field]
                if still_fails(dict(seq, ops=cand), key):
                    ops = cand
    return dict(seq, ops=ops)


# ---------------------------------------------------------------------------------------
# worker functions
# ---------------------------------------------------------------------------------------
def run_seq_item(item, extra):
    seed, kind, force = item
    seq = gen_sequence(seed, kind, extra.get("tier", "quick"), force)
    h = run_sequence(seq, seed)
    findings = []
    seen = set()
    for f in h.findings:
        key = (f["rule"], f["witness"])
        if key in seen:
            continue
        seen.add(key)
        small = minimise(seq, key)
        h2 = run_sequence(small)
        f2 = [x for x in h2.findings if (x["rule"], x["witness"]) == key]
        f = dict(f2[0] if f2 else f)
        f.update({"seed": seed, "slice": "seq", "sequence": small if f2 else seq, "original_ops": len(seq["ops"])})
        findings.append(f)
    cfg = seq["cfg"]
    sig = common.sha([kind, [(o.get("op"), o.get("c"), o.get("k"), bool(o.get("nest")), (o.get("fault") or {}).get("kind"))
                             for o in seq["ops"]], cfg["cache_size"], cfg["clients"]])
    probes = dict(h.probes)
    probes["kind:" + kind] = 1
    probes["redis-commands"] = h.server.stats["commands"]
    if h.server.stats.get("empty_scan_pages"):
        probes["empty-scan-pages"] = h.server.stats["empty_scan_pages"]
    faults = {}
    for name in ("torn", "truncated", "enospc", "eio", "crash_before_replace"):
        if h.sim.disk.stats.get(name):
            faults["disk-" + name] = h.sim.disk.stats[name]
    for name in ("crash-between-redis-commands", "garbage-file", "keys-expired", "preempted-inside-read"):
        if h.probes.get(name):
            faults[name] = h.probes[name]
    return {"evaluations": 1, "distinct": [sig], "interleavings": [sig], "findings": findings, "probes": probes,
            "faults": faults, "steps": len(seq["ops"]),
            "sample": "%s seed %d: %d ops, clients=%d cache=%s" % (kind, seed, len(seq["ops"]), cfg["clients"], cfg["cache_size"])}


def main(argv):
    if len(argv) > 1 and argv[0] == "--replay":
        with open(argv[1]) as f:
            rec = json.load(f)
        if rec.get("slice") == "seq":
            h = run_sequence(rec["sequence"], rec.get("seed", 0))
            same = [f for f in h.findings if f["rule"] == rec["rule"] and f["witness"] == rec["witness"]]
        else:
            from checks import c20_engine
            same = c20_engine.replay(rec)
        print("replay %s: %s" % (argv[1], "REPRODUCED" if same else "not reproduced"))
        for f in same[:1]:
            print("  " + f["detail"][:800])
        return 1 if same else 0
    tier = common.tier()
    n = 1500 if tier == "quick" else 40000
    base = common.base_seed()
    items = []
    for i in range(n):
        for kind in KINDS:
            if kind == "simple" and i % 4:
                continue
            items.append((common.run_seed(i), kind, None))
    # directed swarm corners: the cache-fill window, tiny caches, two clients
    for i in range(n // 3):
        items.append((common.run_seed(100000 + i), "redis_dict", {"clients": 2, "preempt": True, "cache_size": 1024}))
        items.append((common.run_seed(200000 + i), "redis_list", {"clients": 2, "preempt": True, "cache_size": 2}))
        items.append((common.run_seed(300000 + i), "json", {"faults": True}))
        items.append((common.run_seed(400000 + i), "redis_dict", {"faults": True, "clients": 1}))
    rep = common.Report(PROP)
    for r in common.run_batch("checks.c20", "run_seq_item", items, {"tier": tier}):
        rep.absorb(r)
    from checks import c20_engine
    c20_engine.run(rep, tier)
    return rep.finish(
        rule="seq: every operation's result equals the dict model's (reads of keys the model lacks: KeyError/default for "
             "file and memory stores, empty or default for Redis stores where an empty value and an absent key are the same "
             "thing); membership/iteration/length equal the model's key set; list values keep append order; after reopen or "
             "crash+restart the content equals the last acknowledged content (the write in flight may or may not have "
             "happened, nothing else may change); an unreadable file gives an empty store and no exception; a cached view "
             "equals the current value unless an invalidation for that key is still undelivered to that client, in which "
             "case it may be any value held since that change; len(cache) <= cache_size after every operation; expiry = "
             "now + ttl. engine: see the slice descriptions in checks/c20_engine.py",
        assumptions=["redis and pottery are not installed: RedisDict/RedisList/Redis are in-process fakes with the documented "
                     "semantics (JSON-encoded members, whole-value reads are one atomic server command)",
                     "process crash model: a completed write()/close() is durable, a crash inside it leaves a prefix",
                     "one caching store per client process (as the engine configures it)",
                     "operations of different clients are atomic with respect to each other except inside reads, where a "
                     "complete foreign operation and tracker deliveries may be placed at a Redis command boundary"])


if __name__ == "__main__":
    sys.exit(main(sys.argv[1:]))
