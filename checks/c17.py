"""
C17 - names and ARNs round-trip and link executions to their state machine.

Names drawn from an alphabet with every ARN-significant or forbidden character
(up to length 81) are pushed through CreateStateMachine / StartExecution and,
bypassing the API validators, through the Name parameter of child launches.
For every name that is accepted, every place that derives one identifier from
the other must arrive at the same state machine ARN and execution name:
StartExecution response, notifications, the stored record, the EXPRESS details
synthesised in end_execution, and the record re-created after a crash/restart.
Every ARN minted in a run must survive parse_arn/create_arn unchanged.
"""
import json
import random
import sys

from checks import common
from lsfsim.core import EPOCH
from lsfsim.world import World

PROP = "C17"
F = "arn:aws:rpcmessage:local::function:"
ALPHA = list("abXY019") + list("-_.") + list(":/ ") + list('*?#"$,;[]{}<>%\\^|~`&')
SAFE = set("abcdefghijklmnopqrstuvwxyzABCDEFGHIJKLMNOPQRSTUVWXYZ0123456789-_.")
FORBIDDEN = set(' <>{}[]?*"#%\\^|~`$&,;:/')


VOCAB = ["execution", "stateMachine", "states", "arn", "aws", "local", "0123456789", "express", "activity",
         "executions", "statemachine", "Execution"]


def gen_name(rng):
    r = rng.random()
    if r < 0.12:
        # names made of the ARN's own vocabulary: every derivation must treat them as opaque text
        parts = [rng.choice(VOCAB) if rng.random() < 0.7 else rng.choice(["a", "x1", "flow"]) for _ in range(rng.randint(1, 3))]
        if not any(p in VOCAB for p in parts):
            parts[0] = rng.choice(VOCAB)
        return rng.choice(["-", "_", ".", ""]).join(parts)
    if r < 0.25:
        n = rng.choice([80, 81, 79])
        return "".join(rng.choice("ab0-_.") for _ in range(n))
    if r < 0.55:
        n = rng.randint(1, 12)
        return "".join(rng.choice(list(SAFE)) for _ in range(n))
    n = rng.randint(1, 10)
    s = [rng.choice("abX01-_.") for _ in range(n)]
    for _ in range(rng.randint(1, 2)):
        s[rng.randrange(len(s))] = rng.choice(ALPHA)
    return "".join(s)


def acceptable(name):
    return 1 <= len(name) <= 80 and not (set(name) & FORBIDDEN)


def check_arn_roundtrip(arn):
    from asl_workflow_engine.arn import parse_arn, create_arn
    p = parse_arn(arn)
    back = create_arn(p)
    if back != arn:
        return "create_arn(parse_arn(%r)) = %r" % (arn, back)
    # parts
    elems = arn.split(":", 5)
    if (p["arn"], p["partition"], p["service"], p["region"], p["account"]) != tuple(elems[:5]):
        return "parse_arn(%r) parts %r" % (arn, p)
    return None


def run_one(i, extra):
    seed = common.run_seed(i)
    rng = random.Random(seed)
    mode = rng.choice(["api", "api", "api-restart", "child", "child", "backstop", "raw-child", "foreign-region"])
    typ = rng.choice(["STANDARD", "EXPRESS"])
    smname = gen_name(rng)
    exname = gen_name(rng)
    findings = []
    probes = {"mode:" + mode: 1, "type:" + typ: 1}
    minted = set()
    script = {"work": [{"ok": {"op": "tag"}, "delay": 2.0}]}
    w = World(seed, execution_ttl=600, script=script, functions=["work"])
    node = w.nodes[0]
    d = {"StartAt": "T", "States": {"T": {"Type": "Task", "Resource": F + "work", "End": True}}}

    def add(rule, detail, witness=None):
        findings.append({"property": PROP, "rule": rule, "witness": witness, "detail": detail, "seed": seed,
                         "names": [smname, exname], "mode": mode, "type": typ})

    if mode == "foreign-region":
        return foreign_region(rng, seed, smname, exname, typ, probes)
    if mode == "raw-child":
        return raw_child(rng, seed, smname, exname, typ, probes)
    if mode == "backstop":
        # an execution that only the periodic back stop ends (check_for_expired_branch_results derives the state
        # machine from the execution ARN): a join that can never complete - the recorded C06 finding, where a failure
        # caught by an inner Parallel cancels the healthy branch of the outer one - outliving its TimeoutSeconds
        d = {"TimeoutSeconds": 20, "StartAt": "O", "States": {"O": {"Type": "Parallel", "End": True, "Branches": [
            {"StartAt": "I", "States": {
                "I": {"Type": "Parallel", "Branches": [
                    {"StartAt": "X", "States": {"X": {"Type": "Task", "Resource": F + "bad", "End": True}}},
                    {"StartAt": "Y", "States": {"Y": {"Type": "Task", "Resource": F + "work", "End": True}}}],
                    "Catch": [{"ErrorEquals": ["States.ALL"], "ResultPath": "$.err", "Next": "H"}], "End": True},
                "H": {"Type": "Pass", "End": True}}},
            {"StartAt": "B", "States": {"B": {"Type": "Task", "Resource": F + "work", "End": True}}}]}}}
        w.workers.script["bad"] = [{"err": "E.Alpha", "msg": "m", "delay": 1.0}]
        w.workers.add_function("bad")
    if mode in ("api", "api-restart", "backstop"):
        rec = w.api_sync(node, "CreateStateMachine", {"name": smname, "roleArn": w.ROLE, "definition": json.dumps(d), "type": typ})
        ok = rec["status"] == 200
        if ok != acceptable(smname):
            add("name-acceptance", "state machine name %r %s" % (smname, "accepted" if ok else "refused: %s" % rec["body"][:80]))
        if not ok:
            probes["sm-name-refused"] = 1
            return done(w, findings, probes, minted, [smname, exname, mode, typ])
        sm_arn = rec["json"]["stateMachineArn"]
        want_sm = "arn:aws:states:local:0123456789:stateMachine:" + smname
        if sm_arn != want_sm:
            add("arn-composition", "stateMachineArn %r, expected %r" % (sm_arn, want_sm))
        minted.add(sm_arn)
        rec = w.api_sync(node, "StartExecution", {"stateMachineArn": sm_arn, "name": exname, "input": "{}"})
        ok = rec["status"] == 200
        if ok != acceptable(exname):
            add("name-acceptance", "execution name %r %s" % (exname, "accepted" if ok else "refused: %s" % rec["body"][:80]))
        if not ok:
            probes["ex-name-refused"] = 1
            return done(w, findings, probes, minted, [smname, exname, mode, typ])
        ex_arn = rec["json"]["executionArn"]
        want_ex = "arn:aws:states:local:0123456789:execution:%s:%s" % (smname, exname)
        if ex_arn != want_ex:
            add("arn-composition", "executionArn %r, expected %r" % (ex_arn, want_ex))
        minted.add(ex_arn)
        if mode == "api-restart":
            w.run_until(lambda: len(w.workers.requests) > 0, limit=20, what="task request")
            node.crash("injected")
            node.teardown()
            w.sim.call_later(0.5, node.restart, None, kind="fault", label="restart")
            probes["restarts"] = 1
        w.run_quiescent(limit=900)
        if mode == "backstop":
            w.run_until(lambda: any(e["body"]["detail"].get("status") in ("SUCCEEDED", "FAILED") and
                                    e["body"]["detail"].get("executionArn", "").endswith(":" + exname)
                                    for e in w.subscriber.events), limit=400, what="the back stop")
            ended = [e["body"]["detail"] for e in w.subscriber.events if e["body"]["detail"].get("status") != "RUNNING"]
            if ended and "Forcing clean up" in (ended[-1].get("cause") or ended[-1].get("output") or ""):
                probes["ended-by-the-back-stop"] = 1
        link_checks(w, sm_arn, ex_arn, exname, typ, add, probes, restarted=(mode == "api-restart"))
        if mode == "api" and typ == "STANDARD" and len(smname) < 76 and acceptable(smname + "-eu"):
            # a second machine whose name merely BEGINS with the first one's (orders / orders-eu) and an execution of
            # its own: each machine's list holds its own executions only
            rec2 = w.api_sync(node, "CreateStateMachine", {"name": smname + "-eu", "roleArn": w.ROLE,
                                                           "definition": json.dumps(d), "type": typ})
            if rec2["status"] == 200:
                sm2 = rec2["json"]["stateMachineArn"]
                w.api_sync(node, "StartExecution", {"stateMachineArn": sm2, "name": "other", "input": "{}"})
                w.run_quiescent(limit=900)
                probes["sibling-machine-with-common-name-prefix"] = 1
                for arn_, own in ((sm_arn, smname), (sm2, smname + "-eu")):
                    ls = w.api_sync(node, "ListExecutions", {"stateMachineArn": arn_})
                    for e in ((ls["json"] or {}).get("executions") or []) if ls["status"] == 200 else []:
                        parts = str(e.get("executionArn", "")).split(":")
                        if e.get("stateMachineArn") != arn_ or len(parts) < 8 or parts[6] != own:
                            add("linkage", "ListExecutions(%s) lists %r of %r" % (arn_, e.get("executionArn"), e.get("stateMachineArn")),
                                witness="list-of-other-machine")
    else:
        # child launch with a Name parameter that never saw the API validators
        child_d = {"StartAt": "C", "States": {"C": {"Type": "Task", "Resource": F + "work", "End": True}}}
        child_arn = w.create_machine("child", child_d, typ)
        res = rng.choice(["arn:aws:states:local::states:startExecution", "arn:aws:states:local::states:startExecution.sync",
                          "arn:aws:states:local::states:startExecution.sync:2"])
        if typ == "EXPRESS" and rng.random() < 0.5:
            res = "arn:aws:states:local::aws-sdk:sfn:startSyncExecution"
        # the Resource of the launching Task may be written in the region-less form AWS documents
        # (arn:aws:states:::states:startExecution.sync:2) or with other region/account fields: the child execution ARN
        # is derived from the CHILD state machine's ARN, never from the Resource
        form = rng.choice(["local", "local", "regionless", "other-region", "with-account"])
        res = res.replace("arn:aws:states:local::", {"local": "arn:aws:states:local::", "regionless": "arn:aws:states:::",
                                                     "other-region": "arn:aws:states:eu-west-1::",
                                                     "with-account": "arn:aws:states:local:999999999999:"}[form])
        probes["resource-arn-form:" + form] = 1
        minted.add(res)
        parent_d = {"StartAt": "L", "States": {"L": {"Type": "Task", "Resource": res, "Parameters": {
            "StateMachineArn": child_arn, "Name": exname, "Input": {"from": "parent"}}, "End": True}}}
        parent_arn = w.create_machine("parent", parent_d, "STANDARD")
        pex = w.start(parent_arn, {}, name="p1")
        w.run_quiescent(limit=900)
        probes["child:" + res.split(":")[-1]] = 1
        child_ex = "arn:aws:states:local:0123456789:execution:child:" + exname
        evs = [e for e in w.subscriber.events if e["body"]["detail"].get("stateMachineArn") == child_arn or
               e["body"]["detail"].get("executionArn") == child_ex or
               e["body"]["detail"].get("executionArn", "").startswith("arn:aws:states:local:0123456789:execution:child:")]
        launched = len(evs) > 0
        if launched and not acceptable(exname):
            # the name was not refused: then every derivation must still agree
            probes["unvalidated-child-name-launched"] = 1
        if launched:
            minted.add(child_ex)
            link_checks(w, child_arn, child_ex, exname, typ, add, probes, child=True)
        pt = w.terminal_events().get(pex)
        if not pt:
            add("parent-never-terminal", "parent execution of child %r never ended" % exname)
    minted.add(F + "work")
    # one more ARN per run BUILT FROM PARTS (the property speaks of ARNs the engine mints, so the direction is
    # parts -> create_arn -> parse_arn -> the same parts -> the same string): empty and non-empty region / account,
    # every resource type the engine uses, resources that are an accepted name or <name>:<name>
    from asl_workflow_engine.arn import parse_arn, create_arn
    okname = lambda n: n if acceptable(n) else "x1"
    parts = {"arn": "arn", "partition": rng.choice(["aws", "aws-cn", "aws-us-gov"]),
             "service": rng.choice(["states", "rpcmessage", "lambda", "fn", "openfaas"]),
             "region": rng.choice(["", "local", "eu-west-1", "cn-north-1", "us-gov-west-1", "ap-southeast-2"]), "account": rng.choice(["", "0123456789", "123456789012"]),
             "resource_type": rng.choice(["function", "stateMachine", "execution", "states", "aws-sdk", "activity", "express"]),
             "resource": rng.choice([okname(smname), okname(smname) + ":" + okname(exname), okname(exname)])}
    built = create_arn(dict(parts))
    back = parse_arn(built)
    if back != parts or create_arn(back) != built:
        add("arn-roundtrip", "parts %r -> %r -> %r -> %r" % (parts, built, back, create_arn(back)), witness="from-parts")
    probes["arn-combination-roundtrips"] = 1
    for a in sorted(minted):
        e = check_arn_roundtrip(a)
        if e:
            add("arn-roundtrip", e)
    return done(w, findings, probes, minted, [smname, exname, mode, typ])


def _adder(findings, seed, names, mode, typ):
    def add(rule, detail, witness=None):
        findings.append({"property": PROP, "rule": rule, "witness": witness, "detail": detail, "seed": seed,
                         "names": names, "mode": mode, "type": typ})
    return add


def raw_child(rng, seed, smname, exname, typ, probes):
    """
    A parent started the low-level way - the client publishes the start event with an AMQP message id of its own (any
    text) - whose first state launches a child WITHOUT a Name: the child's name defaults to the id of the launching
    event, i.e. to that client-chosen text, which never saw a validator. Either the launch is refused (the Task fails) or
    every derivation for the child agrees.
    """
    findings = []
    mid = smname                   # drawn from the alphabet with ':' '/' and the forbidden punctuation
    script = {"work": [{"ok": {"op": "tag"}, "delay": 1.0}]}
    w = World(seed, execution_ttl=600, script=script, functions=["work"])
    add = _adder(findings, seed, [smname, exname], "raw-child", typ)
    child_d = {"StartAt": "C", "States": {"C": {"Type": "Task", "Resource": F + "work", "End": True}}}
    child_arn = w.create_machine("child", child_d, typ)
    res = rng.choice(["arn:aws:states:local::states:startExecution", "arn:aws:states:local::states:startExecution.sync",
                      "arn:aws:states:local::states:startExecution.sync:2"])
    if typ == "EXPRESS" and res.endswith("startExecution.sync"):
        res = "arn:aws:states:local::aws-sdk:sfn:startSyncExecution"
    parent_d = {"StartAt": "L", "States": {"L": {"Type": "Task", "Resource": res, "Parameters": {
        "StateMachineArn": child_arn, "Input": {"from": "parent"}}, "TimeoutSeconds": 30, "End": True}}}
    parent_arn = w.create_machine("parent", parent_d, "STANDARD")
    from lsfsim.peers import NativeChannel, Props
    ch = NativeChannel(w.sim, "raw-starter")
    body = json.dumps({"data": {}, "context": {"StateMachine": {"Id": parent_arn}, "Execution": {"Name": "p1"}}})
    w.sim.broker.basic_publish(ch.rec, "", "asl_workflow_events", body.encode(),
                               Props(content_type="application/json", message_id=mid, delivery_mode=2))
    w.run_quiescent(limit=900)
    probes["raw-child:" + res.split(":")[-1]] = 1
    minted = set()
    child_evs = [e for e in w.subscriber.events if ":execution:child" in (e["body"]["detail"].get("executionArn") or "") or
                 e["body"]["detail"].get("stateMachineArn") == child_arn]
    if child_evs:
        probes["raw-child:launched-with-client-chosen-name"] = 1
        child_ex = "arn:aws:states:local:0123456789:execution:child:" + mid
        minted.add(child_ex)
        link_checks(w, child_arn, child_ex, mid, typ, add, probes, child=True)
        if not acceptable(mid):
            probes["raw-child:unvalidated-name-launched"] = 1
    pt = w.terminal_events().get("arn:aws:states:local:0123456789:execution:parent:p1")
    if not pt:
        add("parent-never-terminal", "parent started by a raw event with message id %r never ended" % mid)
    for a in sorted(minted):
        e = check_arn_roundtrip(a)
        if e:
            add("arn-roundtrip", e)
    return done(w, findings, probes, minted, [smname, exname, "raw-child", typ])


def foreign_region(rng, seed, smname, exname, typ, probes):
    """A state machine registered under a region other than the front end's own configuration - a store shared with
    or copied from another deployment: StartExecution on either front end mints the execution ARN from the STATE
    MACHINE's ARN, and every derivation leads back to it."""
    findings = []
    transport = rng.choice(["asyncio", "blocking"])
    region = rng.choice(["eu-west-1", "us-east-1", "other", "cn-north-1", "us-gov-west-1"])
    if not acceptable(smname) or not acceptable(exname):
        smname, exname = "sm-%d" % (seed % 97), "run-%d" % (seed % 89)
    add = _adder(findings, seed, [smname, exname], "foreign-region", typ)
    sm_arn = "arn:aws:states:%s:0123456789:stateMachine:%s" % (region, smname)
    d = {"StartAt": "T", "States": {"T": {"Type": "Task", "Resource": F + "work", "End": True}}}
    store = json.dumps({sm_arn: {"creationDate": EPOCH, "definition": d, "loggingConfiguration": {"level": "OFF"}, "name": smname,
                                 "roleArn": World.ROLE, "stateMachineArn": sm_arn, "updateDate": EPOCH, "status": "ACTIVE",
                                 "type": typ}})
    script = {"work": [{"ok": {"op": "tag"}, "delay": 1.0}]}
    w = World(seed, execution_ttl=600, script=script, functions=["work"], transport=transport, initial_store=store)
    node = w.nodes[0]
    rec = w.api_sync(node, "StartExecution", {"stateMachineArn": sm_arn, "name": exname, "input": "{}"})
    probes["foreign-region:" + transport] = 1
    minted = set([sm_arn])
    if rec["status"] != 200:
        add("foreign-region-start-refused", "StartExecution(%s) answered %s %s" % (sm_arn, rec["status"], (rec["body"] or "")[:120]))
        return done(w, findings, probes, minted, [smname, exname, "foreign-region", typ])
    ex_arn = rec["json"]["executionArn"]
    want = "arn:aws:states:%s:0123456789:execution:%s:%s" % (region, smname, exname)
    if ex_arn != want:
        add("arn-composition", "executionArn %r for a state machine in region %r, expected %r" % (ex_arn, region, want),
            witness=transport)
    minted.add(ex_arn)
    w.run_quiescent(limit=900)
    link_checks(w, sm_arn, want, exname, typ, add, probes)
    for a in sorted(minted):
        e = check_arn_roundtrip(a)
        if e:
            add("arn-roundtrip", e)
    return done(w, findings, probes, minted, [smname, exname, "foreign-region", typ])


def link_checks(w, sm_arn, ex_arn, exname, typ, add, probes, restarted=False, child=False):
    evs = [e for e in w.subscriber.events if e["body"]["detail"].get("executionArn") == ex_arn]
    others = [e for e in w.subscriber.events if e["body"]["detail"].get("executionArn") != ex_arn and
              e["body"]["detail"].get("stateMachineArn") == sm_arn]
    if not evs:
        add("no-notification", "no notification carries executionArn %r (others for the machine: %r)" % (
            ex_arn, [e["body"]["detail"].get("executionArn") for e in others][:3]),
            witness="child-name" if child else None)
        return
    probes["linked-notifications"] = len(evs)
    for e in evs:
        d = e["body"]["detail"]
        if d.get("stateMachineArn") != sm_arn:
            add("linkage", "%s notification of %r names state machine %r, expected %r" % (
                d.get("status"), ex_arn, d.get("stateMachineArn"), sm_arn), witness="child-name" if child else None)
        if d.get("name") != exname:
            add("linkage", "%s notification of %r has name %r, expected %r" % (d.get("status"), ex_arn, d.get("name"), exname),
                witness="child-name" if child else None)
        if e["subject"] != "%s.%s" % (sm_arn, d.get("status")):
            add("linkage", "notification subject %r, expected %r" % (e["subject"], "%s.%s" % (sm_arn, d.get("status"))),
                witness="child-name" if child else None)
    if not any(e["body"]["detail"]["status"] in ("SUCCEEDED", "FAILED") for e in evs):
        add("never-terminal", "%r never ended" % ex_arn, witness="child-name" if child else None)
    node = w.nodes[0]
    if typ == "STANDARD" and node.state_engine is not None:
        rec = node.state_engine.executions.get(ex_arn)
        if rec is None:
            add("linkage", "no record stored under %r" % ex_arn, witness="child-name" if child else None)
        else:
            if rec.get("stateMachineArn") != sm_arn or rec.get("name") != exname or rec.get("executionArn") != ex_arn:
                add("linkage", "record of %r (%s) says stateMachineArn=%r name=%r" % (
                    ex_arn, "re-created after restart" if restarted else "stored", rec.get("stateMachineArn"), rec.get("name")),
                    witness="child-name" if child else None)
            if restarted:
                probes["record-recreated-after-restart"] = 1


def done(w, findings, probes, minted, key):
    sim = w.sim
    if sim.errors:
        findings.append({"property": PROP, "rule": "engine-exception", "witness": None, "detail": repr(sim.errors[0][:3]),
                         "names": key[:2], "mode": key[2], "type": key[3]})
    return {"evaluations": 1, "sim_seconds": sim.now - sim.epoch, "steps": sim.steps, "broker_ops": len(sim.broker.oplog),
            "interleavings": [], "distinct": [common.sha(key)], "probes": probes, "findings": findings,
            "sample": {"names": key[:2], "mode": key[2], "type": key[3], "arns": sorted(minted)[:3]}}


def main(argv):
    if len(argv) > 1 and argv[0] == "--replay":
        with open(argv[1]) as f:
            rec = json.load(f)
        # the run index is recovered from the seed
        i = rec["seed"] - common.base_seed() * 1000003
        r = run_one(i, {})
        same = [f for f in r["findings"] if f["rule"] == rec["rule"]]
        print("replay %s: %s" % (argv[1], "REPRODUCED" if same else "not reproduced (set VERIF_SEED to the base seed used)"))
        return 1 if same else 0
    tier = common.tier()
    n = 2500 if tier == "quick" else 100000
    rep = common.Report(PROP)
    for r in common.run_batch("checks.c17", "run_one", range(n), {}):
        rep.absorb(r)
    return rep.finish(
        rule="state machine and execution names drawn from an alphabet with letters, digits, '-_.', ':', '/', space and "
             "the rejected punctuation, lengths 1-81, pushed through CreateStateMachine/StartExecution (STANDARD and "
             "EXPRESS), with a crash+restart of the engine while the execution waits for its task (record re-creation), "
             "and through the Name parameter of child launches (startExecution, .sync, .sync:2, sfn:startSyncExecution) "
             "which bypasses the API validators, through a parent started by a raw event whose client-chosen message id becomes "
             "the default name of the child it launches, and for state machines stored under a foreign region on both front "
             "ends; accepted <=> 1..80 characters without the forbidden ones; for every "
             "accepted or launched name the StartExecution response, every notification (subject, stateMachineArn, "
             "name), and the stored / re-created record agree on the state machine ARN and execution name, and every "
             "minted ARN, every Task Resource ARN used (local, region-less, other region, with account) and one ARN per run from the "
             "partition/service/region/account/resource-type combinations survives parse_arn/create_arn with the parts "
             "it was built from; distinct = distinct (names, mode, type)",
        assumptions=["account and region fixed by the role ARN / configuration", "the time-out back stop derivation path "
                     "is reached through the recorded C06 finding (a join that can never complete), mode 'backstop'"])


if __name__ == "__main__":
    sys.exit(main(sys.argv[1:]))
