"""
C11 - all observability surfaces tell the same story about an execution.

The executions generated for C01-C07 (all state types, success and failure paths, retries, fan-out) are run with the
SurfaceMonitor attached, over: file-backed and Redis-backed stores x STANDARD and EXPRESS x one or two engine
instances (two only where the store is shared, i.e. Redis) x both front ends (asyncio/Quart and blocking/Flask) x the
schedule policies.  See monitors/surfaces.py for the rules.
"""
import json
import random
import sys

from checks import common
from checks import engine as E
from checks.monitored import accept_any_clean, ALL_POLICIES
from lsfsim.runner import run_scenario
from monitors.surfaces import SurfaceMonitor

PROP = "C11"
FAMILIES = ["sequential", "general", "fanout_ok", "fanout_fail", "retry", "timing"]


def make(i, tier):
    seed = common.run_seed(i)
    rng = random.Random(seed ^ 0xC11)
    cfg = E.policy_cfg(rng.choice(ALL_POLICIES))
    cfg["store"] = rng.choice(["file", "redis", "redis"])
    cfg["transport"] = rng.choice(["asyncio", "asyncio", "blocking"])
    cfg["nodes"] = rng.choice([1, 2]) if cfg["store"] == "redis" else 1
    cfg["queue_type"] = rng.choice(["classic", "classic", "quorum"])
    cfg["execution_ttl"] = rng.choice([3600, 86400])
    cfg["tz"] = rng.choice(["UTC0", "SIM-05:30", "SIM+03:00"])
    fams = [f for f in FAMILIES if f in E.FAMILIES]
    scn, models, skipped = E.gen_multi(rng, fams, tier, 3, cfg, types=("STANDARD", "STANDARD", "EXPRESS"),
                                       accept=accept_any_clean)
    for ex in scn["executions"]:
        ex["node"] = rng.randrange(cfg["nodes"])
        if scn["machines"][ex["machine"]]["type"] == "EXPRESS" and rng.random() < 0.4:
            ex["via"] = "sync"
    add_logging(rng, scn)
    return seed, scn


LOGGING = [{"level": "ALL", "destinations": [{"cloudWatchLogsLogGroup": {"logGroupArn": "x"}}]},
           {"level": "ALL", "includeExecutionData": False, "destinations": [{}]},
           {"level": "ALL", "includeExecutionData": True, "destinations": [{}]},
           {"level": "ERROR", "destinations": [{}]}, {"level": "FATAL", "destinations": [{}]}, {"level": "OFF"}]


def add_logging(rng, scn, p=0.35):
    """Some machines get a loggingConfiguration (only the asyncio front end accepts one): what is logged, and whether the
    data fields are redacted in the log, must not change any surface."""
    if scn["config"].get("transport", "asyncio") != "asyncio":
        return
    for m in scn["machines"].values():
        if rng.random() < p:
            m["logging"] = json.loads(json.dumps(rng.choice(LOGGING)))


def make_reused(i):
    """The same execution name run again after the earlier run under that name has ended (names may be re-used once
    the record is terminal): every surface must then speak of the NEW run only."""
    seed = common.run_seed(9500000 + i)
    rng = random.Random(seed)
    cfg = E.policy_cfg(rng.choice(["canonical", "shuffle", "latency-small"]))
    cfg["store"] = rng.choice(["file", "redis", "redis"])
    cfg["transport"] = rng.choice(["asyncio", "asyncio", "blocking"])
    cfg["nodes"] = rng.choice([1, 2]) if cfg["store"] == "redis" else 1
    cfg["execution_ttl"] = 3600
    cfg["tz"] = rng.choice(["UTC0", "SIM-05:30"])
    d = {"StartAt": "C", "States": {
        "C": {"Type": "Choice", "Choices": [{"Variable": "$.bad", "BooleanEquals": True, "Next": "F"}], "Default": "T"},
        "T": {"Type": "Task", "Resource": F + "work", "ResultPath": "$.r", "End": True},
        "F": {"Type": "Fail", "Error": "E.Rejected", "Cause": "first run said no"}}}
    order = rng.choice([(True, False), (False, True), (True, True), (False, False)])
    execs = []
    for k, bad in enumerate(order):
        execs.append({"machine": "m", "input": {"bad": bad, "run": k}, "name": "same-name", "at": 5.0 * k,
                      "node": rng.randrange(cfg["nodes"])})
    scn = {"machines": {"m": {"definition": d, "type": "STANDARD", "family": "reused-name"}}, "executions": execs,
           "script": {"work": [{"ok": {"op": "tag"}, "delay": 1.0}]}, "functions": ["work"], "config": cfg}
    add_logging(rng, scn)
    return seed, scn


def make_children(i):
    from checks import c02
    seed, scn, label = c02.make_child(i)
    scn["config"]["execution_ttl"] = 3600     # the stored records must outlive the run (their expiry is C20's subject)
    return seed, scn, label


F = "arn:aws:rpcmessage:local::function:"
LIMIT = 262144


def rare_machine(rng):
    """Ends that ordinary programs seldom reach: each still has to look the same on every surface."""
    kind = rng.choice(["output-over-quota-pass", "output-over-quota-task", "output-over-quota-map", "output-at-quota",
                       "execution-timeout-wait", "execution-timeout-task", "no-choice-matched", "bad-outputpath-at-end",
                       "fail-state", "intrinsic-failure", "task-error-uncaught", "resultpath-failure", "succeed-outputpath"])
    big = "x" * (LIMIT // 2 - 40)
    inp = {"k": 1}
    script = {}
    if kind == "output-over-quota-pass":
        inp = {"s": big + "y" * rng.choice([40, 60, 200])}
        d = {"StartAt": "P", "States": {"P": {"Type": "Pass", "Parameters": {"a.$": "$.s", "b.$": "$.s"}, "End": True}}}
    elif kind == "output-at-quota":
        # {"a": "<n>", "b": "<n>"} has 2n + 20 characters
        n = (LIMIT - 20) // 2
        inp = {"s": "z" * n}
        d = {"StartAt": "P", "States": {"P": {"Type": "Pass", "Parameters": {"a.$": "$.s", "b.$": "$.s"}, "End": True}}}
    elif kind == "output-over-quota-task":
        inp = {"s": big + "y" * 100}
        d = {"StartAt": "T", "States": {"T": {"Type": "Task", "Resource": F + "echo", "ResultPath": "$.r", "End": True}}}
        script = {"echo": [{"ok": {"op": "echo"}, "delay": 1.0}]}
    elif kind == "output-over-quota-map":
        inp = {"items": ["q" * 90000, "r" * 90000, "s" * 90000]}
        d = {"StartAt": "M", "States": {"M": {"Type": "Map", "ItemsPath": "$.items", "End": True, "ItemProcessor": {
            "StartAt": "P", "States": {"P": {"Type": "Pass", "End": True}}}}}}
    elif kind == "execution-timeout-wait":
        d = {"StartAt": "W", "TimeoutSeconds": 3, "States": {"W": {"Type": "Wait", "Seconds": 10, "End": True}}}
    elif kind == "execution-timeout-task":
        d = {"StartAt": "T", "TimeoutSeconds": 3, "States": {"T": {"Type": "Task", "Resource": F + "silent", "End": True,
                                                                 "Catch": [{"ErrorEquals": ["States.ALL"], "Next": "H"}]},
                                                           "H": {"Type": "Pass", "End": True}}}
        script = {"silent": [{"noreply": True}]}
    elif kind == "no-choice-matched":
        d = {"StartAt": "C", "States": {"C": {"Type": "Choice", "Choices": [{"Variable": "$.k", "NumericEquals": 2, "Next": "S"}]},
                                        "S": {"Type": "Succeed"}}}
    elif kind == "bad-outputpath-at-end":
        d = {"StartAt": "P", "States": {"P": {"Type": "Pass", "OutputPath": "$.missing.deeper", "End": True}}}
    elif kind == "fail-state":
        d = {"StartAt": "P", "States": {"P": {"Type": "Pass", "Next": "F"}, "F": {"Type": "Fail", "Error": "E.Rare", "Cause": "a cause"}}}
    elif kind == "intrinsic-failure":
        d = {"StartAt": "P", "States": {"P": {"Type": "Pass", "Parameters": {"v.$": "States.JsonToString($.k, 1)"}, "End": True}}}
    elif kind == "task-error-uncaught":
        d = {"StartAt": "T", "States": {"T": {"Type": "Task", "Resource": F + "bad", "End": True}}}
        script = {"bad": [{"err": "E.Worker", "msg": "it broke", "delay": 0.5}]}
    elif kind == "resultpath-failure":
        inp = 5
        d = {"StartAt": "P", "States": {"P": {"Type": "Pass", "Result": 1, "ResultPath": "$.a.b", "End": True}}}
    else:
        inp = {"keep": {"z": 1}, "drop": 2}
        d = {"StartAt": "S", "States": {"S": {"Type": "Succeed", "OutputPath": "$.keep"}}}
    return kind, d, inp, script


def make_rare(i):
    seed = common.run_seed(9000000 + i)
    rng = random.Random(seed)
    cfg = E.policy_cfg(rng.choice(ALL_POLICIES))
    cfg["store"] = rng.choice(["file", "redis", "redis"])
    cfg["transport"] = rng.choice(["asyncio", "asyncio", "blocking"])
    cfg["nodes"] = rng.choice([1, 2]) if cfg["store"] == "redis" else 1
    cfg["execution_ttl"] = 3600
    cfg["tz"] = rng.choice(["UTC0", "SIM-05:30"])
    kind, d, inp, script = rare_machine(rng)
    typ = rng.choice(["STANDARD", "STANDARD", "EXPRESS"])
    ex = {"machine": "m", "input": inp, "name": "e0", "at": 0.0, "node": rng.randrange(cfg["nodes"])}
    if typ == "EXPRESS" and rng.random() < 0.4:
        ex["via"] = "sync"
    scn = {"machines": {"m": {"definition": d, "type": typ, "family": "rare:" + kind}}, "executions": [ex],
           "script": script, "functions": sorted(script), "config": cfg}
    return seed, scn, kind


def run_one(item, extra):
    if isinstance(item, tuple) and item[0] == "rare":
        seed, scn, kind = make_rare(item[1])
        r = check(scn, seed)
        r.setdefault("probes", {})["rare-end:" + kind] = 1
        return r
    if isinstance(item, tuple) and item[0] == "reused":
        seed, scn = make_reused(item[1])
        r = check(scn, seed)
        r.setdefault("probes", {})["reused-execution-name"] = 1
        return r
    if isinstance(item, tuple) and item[0] == "outlives":
        # executions that last about as long as / longer than execution_ttl: on Redis the stored record expires under the
        # running execution and is re-created when it ends - every surface must then still tell the same end
        from checks import c02
        seed, scn = c02.make_long(item[1])
        r = check(scn, seed)
        # once the record has expired its content is gone by design (a re-created record knows the ARN only), so the
        # rules that compare contents do not apply; what still must hold: whatever record exists is never BEHIND the
        # notifications (RUNNING after the terminal notification), is whole, and every status change is announced once
        keep = ("record-behind-notification", "torn-record", "status-change-published-twice", "status-change-order",
                "notification-subject", "notification-shape", "notification-units", "engine-exception")
        r["findings"] = [f for f in r["findings"] if f["rule"] in keep]
        r.setdefault("probes", {})["outlives-ttl:" + scn["config"]["store"]] = 1
        return r
    if isinstance(item, tuple) and item[0] == "child":
        seed, scn, label = make_children(item[1])
        r = check(scn, seed)
        r.setdefault("probes", {})["child-launch:" + label.split("/")[0]] = 1
        return r
    seed, scn = make(item, extra["tier"])
    return check(scn, seed)


def check(scn, seed):
    if not scn["executions"]:
        return {"evaluations": 1, "probes": {"empty": 1}, "findings": [], "distinct": []}
    mon = SurfaceMonitor()
    # the horizon stays below execution_ttl: expiry of the records is C20's subject
    res = run_scenario(scn, seed, monitors=[mon], horizon=1500)
    findings = [dict(f) for f in res.findings if f["property"] == PROP]
    if res.sim.errors:
        findings.append({"property": PROP, "rule": "engine-exception", "witness": None,
                         "detail": repr(res.sim.errors[0][:3])})
    E.attach_replay(findings, scn, seed, res)
    cfg = scn["config"]
    probes = dict(mon.probes)
    probes["record-polls"] = mon.polls
    probes["cfg:%s/%s/%d-instance" % (cfg["store"], cfg["transport"], cfg["nodes"])] = 1
    probes["policy:" + cfg["policy"] + "/" + str(cfg["latency"])] = 1
    if res.world.redis_server is not None:
        probes["invalidations-delivered"] = res.world.redis_server.stats["invalidations_delivered"]
    sample = {"executions": [(e["name"], scn["machines"][e["machine"]].get("family"),
                              scn["machines"][e["machine"]].get("type"), e.get("via", "api")) for e in scn["executions"]],
              "config": {k: cfg[k] for k in ("store", "transport", "nodes", "policy")}, "steps": res.sim.steps}
    return common.summarize_run(res, PROP, findings, True, sample, probes, E.nontrivial_hash(scn, res))


def main(argv):
    if len(argv) > 1 and argv[0] == "--replay":
        with open(argv[1]) as f:
            rec = json.load(f)
        r = check(rec["scenario"], rec["seed"])
        same = [f for f in r["findings"] if f["rule"] == rec["rule"] and f.get("witness") == rec.get("witness")]
        print("replay %s: %s" % (argv[1], "REPRODUCED" if same else "not reproduced"))
        for f in same[:1]:
            print("  " + str(f["detail"])[:800])
        return 1 if same else 0
    tier = common.tier()
    n = 1600 if tier == "quick" else 80000
    rep = common.Report(PROP)
    from checks import minimise as _MIN
    rep.minimiser = lambda f: _MIN.scenario(f, lambda scn, seed: check(scn, seed))
    items = list(range(n)) + [("rare", k) for k in range(260 if tier == "quick" else 13000)]
    items += [("reused", k) for k in range(120 if tier == "quick" else 6000)]
    items += [("child", k) for k in range(300 if tier == "quick" else 12000)]
    items += [("outlives", k) for k in range(250 if tier == "quick" else 10000)]
    for r in common.run_batch("checks.c11", "run_one", items, {"tier": tier}):
        rep.absorb(r)
    return rep.finish(
        rule="executions generated for C01-C07 run with the surface monitor: at every notification publish the stored "
             "record already shows exactly that state (and the last history event for a terminal one), subject = "
             "'<stateMachineArn>.<status>', CloudWatch envelope, integer milliseconds = int(seconds*1000) of the record; at "
             "every scheduler step the record is a whole RUNNING or terminal record in epoch seconds, never behind and, in the "
             "same state, equal to the last published notification, and the last history event is terminal exactly when the "
             "record is; one notification per status change; the record read at every Redis command boundary (another "
             "instance) and by a REST thread at every broker operation of the blocking engine thread is whole and in seconds; "
             "at the end DescribeExecution / ListExecutions / GetExecutionHistory through every instance equal the store and "
             "each other, EXPRESS executions have notifications only; a second slice drives the ends ordinary programs seldom "
             "reach (terminal output over / at the 262144 quota from Pass, Task and Map, execution time-out in Wait and "
             "Task, no Choice matched, bad OutputPath at the end, Fail, intrinsic failure, uncaught task error, ResultPath "
             "failure, Succeed with OutputPath) through the same rules; a third slice runs the same execution name again after "
             "the earlier run under it ended (FAILED or SUCCEEDED first), a fourth one parents that launch child executions "
             "in every form (the child's record, notifications and history are surfaces too); some machines carry a "
             "loggingConfiguration (ALL / ERROR / FATAL / OFF, with and without includeExecutionData); a fifth slice runs executions "
             "that outlive execution_ttl (the Redis record expires under them): there only 'a stored record is never behind "
             "the notifications', wholeness and once-per-status-change are judged; distinct = distinct (scenario, interleaving) hashes",
        assumptions=["fault-free runs (crash/restart duplicates are C04's subject)",
                     "file-backed configurations use one instance (a file store is not shared between instances)",
                     "pre-emption is placed at I/O boundaries (Redis commands, broker operations), not between bytecodes"])


if __name__ == "__main__":
    sys.exit(main(sys.argv[1:]))
