"""
C11 - all observability surfaces tell the same story about an execution.

The executions generated for C01-C07 (all state types, success and failure paths, retries, fan-out) are run with the
SurfaceMonitor attached, over: file-backed and Redis-backed stores x STANDARD and EXPRESS x one or two engine
instances (two only where the store is shared, i.e. Redis) x both front ends (asyncio/Quart and blocking/Flask) x the
schedule policies.  See monitors/surfaces.py for the rules.
"""
import json
import random
import sys

from checks import common
from checks import engine as E
from checks.monitored import accept_any_clean, ALL_POLICIES
from lsfsim.runner import run_scenario
from monitors.surfaces import SurfaceMonitor

PROP = "C11"
FAMILIES = ["sequential", "general", "fanout_ok", "fanout_fail", "retry", "timing"]


def make(i, tier):
    seed = common.run_seed(i)
    rng = random.Random(seed ^ 0xC11)
    cfg = E.policy_cfg(rng.choice(ALL_POLICIES))
    cfg["store"] = rng.choice(["file", "redis", "redis"])
    cfg["transport"] = rng.choice(["asyncio", "asyncio", "blocking"])
    cfg["nodes"] = rng.choice([1, 2]) if cfg["store"] == "redis" else 1
    cfg["queue_type"] = rng.choice(["classic", "classic", "quorum"])
    cfg["execution_ttl"] = rng.choice([3600, 86400])
    cfg["tz"] = rng.choice(["UTC0", "SIM-05:30", "SIM+03:00"])
    fams = [f for f in FAMILIES if f in E.FAMILIES]
    scn, models, skipped = E.gen_multi(rng, fams, tier, 3, cfg, types=("STANDARD", "STANDARD", "EXPRESS"),
                                       accept=accept_any_clean)
    for ex in scn["executions"]:
        ex["node"] = rng.randrange(cfg["nodes"])
        if scn["machines"][ex["machine"]]["type"] == "EXPRESS" and rng.random() < 0.4:
            ex["via"] = "sync"
    return seed, scn


def run_one(item, extra):
    seed, scn = make(item, extra["tier"])
    return check(scn, seed)


def check(scn, seed):
    if not scn["executions"]:
        return {"evaluations": 1, "probes": {"empty": 1}, "findings": [], "distinct": []}
    mon = SurfaceMonitor()
    # the horizon stays below execution_ttl: expiry of the records is C20's subject
    res = run_scenario(scn, seed, monitors=[mon], horizon=1500)
    findings = [dict(f) for f in res.findings if f["property"] == PROP]
    if res.sim.errors:
        findings.append({"property": PROP, "rule": "engine-exception", "witness": None,
                         "detail": repr(res.sim.errors[0][:3])})
    E.attach_replay(findings, scn, seed, res)
    cfg = scn["config"]
    probes = dict(mon.probes)
    probes["record-polls"] = mon.polls
    probes["cfg:%s/%s/%d-instance" % (cfg["store"], cfg["transport"], cfg["nodes"])] = 1
    probes["policy:" + cfg["policy"] + "/" + str(cfg["latency"])] = 1
    if res.world.redis_server is not None:
        probes["invalidations-delivered"] = res.world.redis_server.stats["invalidations_delivered"]
    sample = {"executions": [(e["name"], scn["machines"][e["machine"]].get("family"),
                              scn["machines"][e["machine"]].get("type"), e.get("via", "api")) for e in scn["executions"]],
              "config": {k: cfg[k] for k in ("store", "transport", "nodes", "policy")}, "steps": res.sim.steps}
    return common.summarize_run(res, PROP, findings, True, sample, probes, E.nontrivial_hash(scn, res))


def main(argv):
    if len(argv) > 1 and argv[0] == "--replay":
        with open(argv[1]) as f:
            rec = json.load(f)
        r = check(rec["scenario"], rec["seed"])
        same = [f for f in r["findings"] if f["rule"] == rec["rule"] and f.get("witness") == rec.get("witness")]
        print("replay %s: %s" % (argv[1], "REPRODUCED" if same else "not reproduced"))
        for f in same[:1]:
            print("  " + str(f["detail"])[:800])
        return 1 if same else 0
    tier = common.tier()
    n = 1600 if tier == "quick" else 80000
    rep = common.Report(PROP)
    for r in common.run_batch("checks.c11", "run_one", range(n), {"tier": tier}):
        rep.absorb(r)
    return rep.finish(
        rule="executions generated for C01-C07 run with the surface monitor: at every notification publish the stored "
             "record already shows exactly that state (and the last history event for a terminal one), subject = "
             "'<stateMachineArn>.<status>', CloudWatch envelope, integer milliseconds = int(seconds*1000) of the record; at "
             "every scheduler step the record is a whole RUNNING or terminal record in epoch seconds, never behind and, in the "
             "same state, equal to the last published notification, and the last history event is terminal exactly when the "
             "record is; one notification per status change; the record read at every Redis command boundary (another "
             "instance) and by a REST thread at every broker operation of the blocking engine thread is whole and in seconds; "
             "at the end DescribeExecution / ListExecutions / GetExecutionHistory through every instance equal the store and "
             "each other, EXPRESS executions have notifications only; distinct = distinct (scenario, interleaving) hashes",
        assumptions=["fault-free runs (crash/restart duplicates are C04's subject)",
                     "file-backed configurations use one instance (a file store is not shared between instances)",
                     "pre-emption is placed at I/O boundaries (Redis commands, broker operations), not between bytecodes"])


if __name__ == "__main__":
    sys.exit(main(sys.argv[1:]))
