"""
C11 - all observability surfaces tell the same story about an execution.

The executions generated for C01-C07 (all state types, success and failure paths, retries, fan-out) are run with the
SurfaceMonitor attached, over: file-backed and Redis-backed stores x STANDARD and EXPRESS x one or two engine
instances (two only where the store is shared, i.e. Redis) x both front ends (asyncio/Quart and blocking/Flask) x the
schedule policies.  See monitors/surfaces.py for the rules.
"""
import json
import random
import sys

from checks import common
from checks import engine as E
from checks.monitored import accept_any_clean, ALL_POLICIES
from lsfsim.runner import run_scenario
from monitors.surfaces import SurfaceMonitor

PROP = "C11"
FAMILIES = ["sequential", "general", "fanout_ok", "fanout_fail", "retry", "timing"]


def make(i, tier):
    seed = common.run_seed(i)
    rng = random.Random(seed ^ 0xC11)
    cfg = E.policy_cfg(rng.choice(ALL_POLICIES))
    cfg["store"] = rng.choice(["file", "redis", "redis"])
    cfg["transport"] = rng.choice(["asyncio", "asyncio", "blocking"])
    cfg["nodes"] = rng.choice([1, 2]) if cfg["store"] == "redis" else 1
    cfg["queue_type"] = rng.choice(["classic", "classic", "quorum"])
    cfg["execution_ttl"] = rng.choice([3600, 86400])
    cfg["tz"] = rng.choice(["UTC0", "SIM-05:30", "SIM+03:00"])
    fams = [f for f in FAMILIES if f in E.FAMILIES]
    scn, models, skipped = E.gen_multi(rng, fams, tier, 3, cfg, types=("STANDARD", "STANDARD", "EXPRESS"),
                                       accept=accept_any_clean)
    for ex in scn["executions"]:
        ex["node"] = rng.randrange(cfg["nodes"])
        if scn["machines"][ex["machine"]]["type"] == "EXPRESS" and rng.random() < 0.4:
            ex["via"] = "sync"
    add_logging(rng, scn)
    return seed, scn


LOGGING = [{"level": "ALL", "destinations": [{"cloudWatchLogsLogGroup": {"logGroupArn": "x"}}]},
           {"level": "ALL", "includeExecutionData": False, "destinations": [{}]},
           {"level": "ALL", "includeExecutionData": True, "destinations": [{}]},
           {"level": "ERROR", "destinations": [{}]}, {"level": "FATAL", "destinations": [{}]}, {"level": "OFF"}]


def add_logging(rng, scn, p=0.35):
    """Some machines get a loggingConfiguration (only the asyncio front end accepts one): what is logged, and whether the
    data fields are redacted in the log, must not change any surface."""
    if scn["config"].get("transport", "asyncio") != "asyncio":
        return
    big = set()
    for name, m in scn["machines"].items():
        if rng.random() < p:
            m["logging"] = json.loads(json.dumps(rng.choice(LOGGING)))
            if rng.random() < 0.4:
                big.add(name)
    # some of them run on a payload of a few thousand characters (log lines are cut to size; the surfaces are not)
    for ex in scn["executions"]:
        if ex["machine"] in big and isinstance(ex.get("input"), dict) and "pad" not in ex["input"]:
            ex["input"] = dict(ex["input"], pad="p" * rng.choice([2100, 4200, 9000]))


def make_reused(i):
    """The same execution name run again after the earlier run under that name has ended (names may be re-used once
    the record is terminal): every surface must then speak of the NEW run only."""
    seed = common.run_seed(9500000 + i)
    rng = random.Random(seed)
    cfg = E.policy_cfg(rng.choice(["canonical", "shuffle", "latency-small"]))
    cfg["store"] = rng.choice(["file", "redis", "redis"])
    cfg["transport"] = rng.choice(["asyncio", "asyncio", "blocking"])
    cfg["nodes"] = rng.choice([1, 2]) if cfg["store"] == "redis" else 1
    cfg["execution_ttl"] = 3600
    cfg["tz"] = rng.choice(["UTC0", "SIM-05:30"])
    d = {"StartAt": "C", "States": {
        "C": {"Type": "Choice", "Choices": [{"Variable": "$.bad", "BooleanEquals": True, "Next": "F"}], "Default": "T"},
        "T": {"Type": "Task", "Resource": F + "work", "ResultPath": "$.r", "End": True},
        "F": {"Type": "Fail", "Error": "E.Rejected", "Cause": "first run said no"}}}
    order = rng.choice([(True, False), (False, True), (True, True), (False, False)])
    execs = []
    for k, bad in enumerate(order):
        execs.append({"machine": "m", "input": {"bad": bad, "run": k}, "name": "same-name", "at": 5.0 * k,
                      "node": rng.randrange(cfg["nodes"])})
    scn = {"machines": {"m": {"definition": d, "type": "STANDARD", "family": "reused-name"}}, "executions": execs,
           "script": {"work": [{"ok": {"op": "tag"}, "delay": 1.0}]}, "functions": ["work"], "config": cfg}
    add_logging(rng, scn)
    return seed, scn


def make_children(i):
    from checks import c02
    seed, scn, label = c02.make_child(i)
    scn["config"]["execution_ttl"] = 3600     # the stored records must outlive the run (their expiry is C20's subject)
    return seed, scn, label


F = "arn:aws:rpcmessage:local::function:"
LIMIT = 262144


def rare_machine(rng):
    """Ends that ordinary programs seldom reach: each still has to look the same on every surface."""
    kind = rng.choice(["output-over-quota-pass", "output-over-quota-task", "output-over-quota-map", "output-at-quota",
                       "execution-timeout-wait", "execution-timeout-task", "no-choice-matched", "bad-outputpath-at-end",
                       "fail-state", "intrinsic-failure", "task-error-uncaught", "resultpath-failure", "succeed-outputpath"])
    big = "x" * (LIMIT // 2 - 40)
    inp = {"k": 1}
    script = {}
    if kind == "output-over-quota-pass":
        inp = {"s": big + "y" * rng.choice([40, 60, 200])}
        d = {"StartAt": "P", "States": {"P": {"Type": "Pass", "Parameters": {"a.$": "$.s", "b.$": "$.s"}, "End": True}}}
    elif kind == "output-at-quota":
        # {"a": "<n>", "b": "<n>"} has 2n + 20 characters
        n = (LIMIT - 20) // 2
        inp = {"s": "z" * n}
        d = {"StartAt": "P", "States": {"P": {"Type": "Pass", "Parameters": {"a.$": "$.s", "b.$": "$.s"}, "End": True}}}
    elif kind == "output-over-quota-task":
        inp = {"s": big + "y" * 100}
        d = {"StartAt": "T", "States": {"T": {"Type": "Task", "Resource": F + "echo", "ResultPath": "$.r", "End": True}}}
        script = {"echo": [{"ok": {"op": "echo"}, "delay": 1.0}]}
    elif kind == "output-over-quota-map":
        inp = {"items": ["q" * 90000, "r" * 90000, "s" * 90000]}
        d = {"StartAt": "M", "States": {"M": {"Type": "Map", "ItemsPath": "$.items", "End": True, "ItemProcessor": {
            "StartAt": "P", "States": {"P": {"Type": "Pass", "End": True}}}}}}
    elif kind == "execution-timeout-wait":
        d = {"StartAt": "W", "TimeoutSeconds": 3, "States": {"W": {"Type": "Wait", "Seconds": 10, "End": True}}}
    elif kind == "execution-timeout-task":
        d = {"StartAt": "T", "TimeoutSeconds": 3, "States": {"T": {"Type": "Task", "Resource": F + "silent", "End": True,
                                                                 "Catch": [{"ErrorEquals": ["States.ALL"], "Next": "H"}]},
                                                           "H": {"Type": "Pass", "End": True}}}
        script = {"silent": [{"noreply": True}]}
    elif kind == "no-choice-matched":
        d = {"StartAt": "C", "States": {"C": {"Type": "Choice", "Choices": [{"Variable": "$.k", "NumericEquals": 2, "Next": "S"}]},
                                        "S": {"Type": "Succeed"}}}
    elif kind == "bad-outputpath-at-end":
        d = {"StartAt": "P", "States": {"P": {"Type": "Pass", "OutputPath": "$.missing.deeper", "End": True}}}
    elif kind == "fail-state":
        d = {"StartAt": "P", "States": {"P": {"Type": "Pass", "Next": "F"}, "F": {"Type": "Fail", "Error": "E.Rare", "Cause": "a cause"}}}
    elif kind == "intrinsic-failure":
        d = {"StartAt": "P", "States": {"P": {"Type": "Pass", "Parameters": {"v.$": "States.JsonToString($.k, 1)"}, "End": True}}}
    elif kind == "task-error-uncaught":
        d = {"StartAt": "T", "States": {"T": {"Type": "Task", "Resource": F + "bad", "End": True}}}
        script = {"bad": [{"err": "E.Worker", "msg": "it broke", "delay": 0.5}]}
    elif kind == "resultpath-failure":
        inp = 5
        d = {"StartAt": "P", "States": {"P": {"Type": "Pass", "Result": 1, "ResultPath": "$.a.b", "End": True}}}
    else:
        inp = {"keep": {"z": 1}, "drop": 2}
        d = {"StartAt": "S", "States": {"S": {"Type": "Succeed", "OutputPath": "$.keep"}}}
    return kind, d, inp, script


def make_rare(i):
    seed = common.run_seed(9000000 + i)
    rng = random.Random(seed)
    cfg = E.policy_cfg(rng.choice(ALL_POLICIES))
    cfg["store"] = rng.choice(["file", "redis", "redis"])
    cfg["transport"] = rng.choice(["asyncio", "asyncio", "blocking"])
    cfg["nodes"] = rng.choice([1, 2]) if cfg["store"] == "redis" else 1
    cfg["execution_ttl"] = 3600
    cfg["tz"] = rng.choice(["UTC0", "SIM-05:30"])
    kind, d, inp, script = rare_machine(rng)
    typ = rng.choice(["STANDARD", "STANDARD", "EXPRESS"])
    ex = {"machine": "m", "input": inp, "name": "e0", "at": 0.0, "node": rng.randrange(cfg["nodes"])}
    if typ == "EXPRESS" and rng.random() < 0.4:
        ex["via"] = "sync"
    scn = {"machines": {"m": {"definition": d, "type": typ, "family": "rare:" + kind}}, "executions": [ex],
           "script": script, "functions": sorted(script), "config": cfg}
    return seed, scn, kind


def make_crash(i):
    """One engine crash (and restart) in a corpus scenario on the Redis-backed store, where records and histories are
    durable; half of the cases with the client's prefetch buffer modelled (fault 'prefetched-unhandled': messages
    pushed to the dying consumer but not handled come back flagged redelivered)."""
    from gen import corpus
    seed = common.run_seed(9100000 + i)
    rng = random.Random(seed)
    names = [n for n in sorted(corpus.CORPUS) if not corpus.CORPUS[n].get("via")]
    scn = corpus.scenario(rng.choice(names))
    scn["config"] = dict(scn["config"], store="redis", execution_ttl=3600, crash_prefetch=rng.choice([0.0, 1.0]))
    if rng.random() < 0.25:
        for m in scn["machines"].values():
            m["type"] = "EXPRESS"       # nothing about an EXPRESS execution is stored, before or after a restart
    if rng.random() < 0.4:
        # a second execution started a moment later: its start event can be waiting (pushed, unhandled) at the crash
        if all(len(v) == 1 for v in scn["script"].values()):
            ex = dict(scn["executions"][0], name="e2", at=rng.choice([0.0, 0.0, 0.3]))
            scn["executions"].append(ex)
    return seed, scn, rng


def check_crash(scn, seed, point, downtime):
    """Final-state rules after a crash: every status change of a finished execution was announced at least once
    (duplicates after a crash are at-least-once redelivery, C04's note), and record, last notification and last
    history event tell the same end."""
    from checks import c04
    res, state, mon = c04.run_crash(scn, seed, tuple(point), downtime)
    findings = []
    if state["crashed_at"] is None:
        return res, state, findings
    w = res.world
    node = w.nodes[0]
    ctx = "crash %s downtime %.1fs prefetch=%s" % (tuple(point), downtime, scn["config"].get("crash_prefetch"))
    term = w.terminal_events()
    for arn in sorted(set(res.exec_arns.values()) | set(mon.seq)):   # (a start call cut off by the crash has no answer)
        if arn is None:
            continue
        seq = mon.seq.get(arn) or []
        evs = term.get(arn) or []
        if not evs:
            continue        # (never-terminal after a crash is C04's rule)
        last = evs[-1]["body"]["detail"]
        if "RUNNING" not in seq:
            findings.append({"property": PROP, "rule": "status-change-never-published", "witness": "RUNNING",
                             "detail": "%s: %s ended %s but RUNNING was never published (notifications %s)" % (
                                 ctx, arn, last["status"], seq)})
        if node.dead or node.state_engine is None:
            continue
        mname = arn.split(":")[6]
        if (scn["machines"].get(mname) or {}).get("type") == "EXPRESS":
            d = w.describe(arn, node)
            h = w.api_sync(node, "GetExecutionHistory", {"executionArn": arn})
            if d["status"] == 200 or h["status"] == 200:
                findings.append({"property": PROP, "rule": "express-stored", "witness": "after-restart",
                                 "detail": "%s: %s (EXPRESS) has a stored record/history after the restart: Describe %s, "
                                           "History %s" % (ctx, arn, d["status"], h["status"])})
            continue
        if res.sim.now - res.sim.epoch > scn["config"]["execution_ttl"] - 5:
            # the run lasted until the execution deadline (an execution C04's recorded findings leave stuck ends there):
            # the stored record and history expire with execution_ttl, their content is gone by design
            continue
        d = w.describe(arn, node)
        if d["status"] != 200 or not isinstance(d["json"], dict):
            findings.append({"property": PROP, "rule": "record-lost-after-restart", "witness": None,
                             "detail": "%s: DescribeExecution(%s) -> %s %s" % (ctx, arn, d["status"], str(d["body"])[:150])})
            continue
        rec = d["json"]
        if len(set(e["body"]["detail"]["status"] for e in evs)) == 1:
            for k in ("status", "output", "input"):
                if rec.get(k) != last.get(k):
                    findings.append({"property": PROP, "rule": "record-differs-from-notification-after-restart", "witness": k,
                                     "detail": "%s: %s %s: record %r, last notification %r" % (ctx, arn, k, rec.get(k), last.get(k))})
            h = w.api_sync(node, "GetExecutionHistory", {"executionArn": arn})
            hev = (h["json"] or {}).get("events") if h["status"] == 200 else None
            if not hev:
                findings.append({"property": PROP, "rule": "history-lost-after-restart", "witness": None,
                                 "detail": "%s: GetExecutionHistory(%s) -> %s" % (ctx, arn, h["status"])})
            else:
                want = {"SUCCEEDED": "ExecutionSucceeded", "FAILED": "ExecutionFailed"}.get(last["status"])
                types = [e.get("type") for e in hev]
                if want and want not in types:
                    findings.append({"property": PROP, "rule": "history-differs-from-record-after-restart", "witness": want,
                                     "detail": "%s: %s ended %s but the history has no %s event (%s)" % (
                                         ctx, arn, last["status"], want, types[-4:])})
                # every state that left its trace on exit left one on entry (a redelivered event may repeat an entry)
                ent, exi = {}, {}
                for e in hev:
                    t_ = e.get("type") or ""
                    nm = ((e.get("stateEnteredEventDetails") or e.get("stateExitedEventDetails") or {}).get("name"))
                    if t_.endswith("StateEntered"):
                        ent[nm] = ent.get(nm, 0) + 1
                    elif t_.endswith("StateExited"):
                        exi[nm] = exi.get(nm, 0) + 1
                for nm, k_ in sorted(exi.items(), key=lambda kv: str(kv[0])):
                    if ent.get(nm, 0) == 0:
                        findings.append({"property": PROP, "rule": "history-differs-from-record-after-restart",
                                         "witness": "exited-without-entered",
                                         "detail": "%s: %s history has StateExited for %r and no StateEntered" % (ctx, arn, nm)})
                        break
                if types[0] != "ExecutionStarted":
                    findings.append({"property": PROP, "rule": "history-differs-from-record-after-restart",
                                     "witness": "first-event", "detail": "%s: %s history starts with %s" % (ctx, arn, types[0])})
    return res, state, findings


def run_crash_item(i, extra):
    from checks import c04
    seed, scn, rng = make_crash(i)
    ref, info = c04.reference(scn, seed)
    starts = [rec for ex, rec in ref.start_calls if rec is not None]
    total = {"evaluations": 0, "sim_seconds": 0.0, "steps": 0, "broker_ops": 0, "interleavings": [], "distinct": [],
             "faults": {}, "probes": {}, "findings": [], "sample": None}
    if not starts:
        total["evaluations"] = 1
        return total
    start_step = starts[0]["step0"]
    points = [("step", s) for s, idle, t in info["steps"] if s >= start_step]
    nops = len([o for o in info["ops"] if o[0] >= start_step])
    before = len(info["ops"]) - nops
    points += [("op", j) for j in range(before + 1, before + nops + 1)]
    # right after the steps in which the engine published its first events (the start event, then the first
    # transition): those messages are in flight / pushed and unhandled when the process dies there
    pubsteps = sorted(set(st for st, op in info["ops"] if op == "basic_publish" and st >= start_step))
    early = [("step", st) for st in pubsteps[:3]]
    points = early + rng.sample(points, min(len(points), 5 if extra["tier"] == "quick" else 12))
    for p in points:
        dt = rng.choice(c04.DOWNTIMES)
        res, state, findings = check_crash(scn, seed, p, dt)
        total["evaluations"] += 1
        total["sim_seconds"] += res.sim.now - res.sim.epoch
        total["steps"] += res.sim.steps
        total["broker_ops"] += len(res.sim.broker.oplog)
        if state["crashed_at"] is not None:
            for k in ("crash", "restart", "prefetched-unhandled"):
                if res.sim.stats.get(k):
                    total["faults"][k] = total["faults"].get(k, 0) + res.sim.stats[k]
            total["probes"]["crash-slice:" + ("idle" if state["idle"] else "mid-handling")] = \
                total["probes"].get("crash-slice:" + ("idle" if state["idle"] else "mid-handling"), 0) + 1
            total["distinct"].append(common.sha([scn["machines"], p, dt, scn["config"].get("crash_prefetch")]))
            total["interleavings"].append(res.sim.order_hash.hexdigest()[:16])
        seen = set((f["rule"], f.get("witness")) for f in total["findings"])
        for f in findings:
            if (f["rule"], f.get("witness")) in seen:
                continue
            f["seed"] = seed
            f["scenario"] = scn
            f["crash_point"] = list(p)
            f["downtime"] = dt
            total["findings"].append(f)
    return total


def run_one(item, extra):
    if isinstance(item, tuple) and item[0] == "crash":
        return run_crash_item(item[1], extra)
    if isinstance(item, tuple) and item[0] == "rare":
        seed, scn, kind = make_rare(item[1])
        r = check(scn, seed)
        r.setdefault("probes", {})["rare-end:" + kind] = 1
        return r
    if isinstance(item, tuple) and item[0] == "reused":
        seed, scn = make_reused(item[1])
        r = check(scn, seed)
        r.setdefault("probes", {})["reused-execution-name"] = 1
        return r
    if isinstance(item, tuple) and item[0] == "outlives":
        # executions that last about as long as / longer than execution_ttl: on Redis the stored record expires under the
        # running execution and is re-created when it ends - every surface must then still tell the same end
        from checks import c02
        seed, scn = c02.make_long(item[1])
        r = check(scn, seed)
        # once the record has expired its content is gone by design (a re-created record knows the ARN only), so the
        # rules that compare contents do not apply; what still must hold: whatever record exists is never BEHIND the
        # notifications (RUNNING after the terminal notification), is whole, and every status change is announced once
        keep = ("record-behind-notification", "torn-record", "status-change-published-twice", "status-change-order",
                "notification-subject", "notification-shape", "notification-units", "engine-exception")
        r["findings"] = [f for f in r["findings"] if f["rule"] in keep]
        r.setdefault("probes", {})["outlives-ttl:" + scn["config"]["store"]] = 1
        return r
    if isinstance(item, tuple) and item[0] == "child":
        seed, scn, label = make_children(item[1])
        r = check(scn, seed)
        r.setdefault("probes", {})["child-launch:" + label.split("/")[0]] = 1
        return r
    seed, scn = make(item, extra["tier"])
    return check(scn, seed)


def check(scn, seed):
    if not scn["executions"]:
        return {"evaluations": 1, "probes": {"empty": 1}, "findings": [], "distinct": []}
    mon = SurfaceMonitor()
    # the horizon stays below execution_ttl: expiry of the records is C20's subject
    res = run_scenario(scn, seed, monitors=[mon], horizon=1500)
    findings = [dict(f) for f in res.findings if f["property"] == PROP]
    if res.sim.errors:
        findings.append({"property": PROP, "rule": "engine-exception", "witness": None,
                         "detail": repr(res.sim.errors[0][:3])})
    E.attach_replay(findings, scn, seed, res)
    cfg = scn["config"]
    probes = dict(mon.probes)
    probes["record-polls"] = mon.polls
    probes["cfg:%s/%s/%d-instance" % (cfg["store"], cfg["transport"], cfg["nodes"])] = 1
    probes["policy:" + cfg["policy"] + "/" + str(cfg["latency"])] = 1
    if res.world.redis_server is not None:
        probes["invalidations-delivered"] = res.world.redis_server.stats["invalidations_delivered"]
    sample = {"executions": [(e["name"], scn["machines"][e["machine"]].get("family"),
                              scn["machines"][e["machine"]].get("type"), e.get("via", "api")) for e in scn["executions"]],
              "config": {k: cfg[k] for k in ("store", "transport", "nodes", "policy")}, "steps": res.sim.steps}
    return common.summarize_run(res, PROP, findings, True, sample, probes, E.nontrivial_hash(scn, res))


def main(argv):
    if len(argv) > 1 and argv[0] == "--replay":
        with open(argv[1]) as f:
            rec = json.load(f)
        if rec.get("crash_point"):
            res, state, fs = check_crash(rec["scenario"], rec["seed"], rec["crash_point"], rec["downtime"])
            r = {"findings": fs}
        else:
            r = check(rec["scenario"], rec["seed"])
        same = [f for f in r["findings"] if f["rule"] == rec["rule"] and f.get("witness") == rec.get("witness")]
        print("replay %s: %s" % (argv[1], "REPRODUCED" if same else "not reproduced"))
        for f in same[:1]:
            print("  " + str(f["detail"])[:800])
        return 1 if same else 0
    tier = common.tier()
    n = 1600 if tier == "quick" else 80000
    rep = common.Report(PROP)
    from checks import minimise as _MIN
    rep.minimiser = lambda f: _MIN.scenario(f, lambda scn, seed: (
        {"findings": check_crash(scn, seed, f["crash_point"], f["downtime"])[2]} if f.get("crash_point") else check(scn, seed)))
    items = list(range(n)) + [("rare", k) for k in range(260 if tier == "quick" else 13000)]
    items += [("reused", k) for k in range(120 if tier == "quick" else 6000)]
    items += [("child", k) for k in range(300 if tier == "quick" else 12000)]
    items += [("outlives", k) for k in range(250 if tier == "quick" else 10000)]
    items += [("crash", k) for k in range(60 if tier == "quick" else 4000)]
    for r in common.run_batch("checks.c11", "run_one", items, {"tier": tier}):
        rep.absorb(r)
    return rep.finish(
        rule="executions generated for C01-C07 run with the surface monitor: at every notification publish the stored "
             "record already shows exactly that state (and the last history event for a terminal one), subject = "
             "'<stateMachineArn>.<status>', CloudWatch envelope, integer milliseconds = int(seconds*1000) of the record; at "
             "every scheduler step the record is a whole RUNNING or terminal record in epoch seconds, never behind and, in the "
             "same state, equal to the last published notification, and the last history event is terminal exactly when the "
             "record is; one notification per status change; the record read at every Redis command boundary (another "
             "instance) and by a REST thread at every broker operation of the blocking engine thread is whole and in seconds; "
             "at the end DescribeExecution / ListExecutions / GetExecutionHistory through every instance equal the store and "
             "each other, EXPRESS executions have notifications only; a second slice drives the ends ordinary programs seldom "
             "reach (terminal output over / at the 262144 quota from Pass, Task and Map, execution time-out in Wait and "
             "Task, no Choice matched, bad OutputPath at the end, Fail, intrinsic failure, uncaught task error, ResultPath "
             "failure, Succeed with OutputPath) through the same rules; a third slice runs the same execution name again after "
             "the earlier run under it ended (FAILED or SUCCEEDED first), a fourth one parents that launch child executions "
             "in every form (the child's record, notifications and history are surfaces too); some machines carry a "
             "loggingConfiguration (ALL / ERROR / FATAL / OFF, with and without includeExecutionData); a fifth slice runs executions "
             "that outlive execution_ttl (the Redis record expires under them): there only 'a stored record is never behind "
             "the notifications', wholeness and once-per-status-change are judged; distinct = distinct (scenario, interleaving) hashes",
        assumptions=["fault-free runs (crash/restart duplicates are C04's subject)",
                     "file-backed configurations use one instance (a file store is not shared between instances)",
                     "pre-emption is placed at I/O boundaries (Redis commands, broker operations), not between bytecodes"])


if __name__ == "__main__":
    sys.exit(main(sys.argv[1:]))
