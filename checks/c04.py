"""
C04 - in-progress executions survive an engine crash and restart.

For every scenario of the corpus a crash-free reference run is recorded, then
one crash is injected (a) after every scheduler step of that run (the engine
process dies between two events; restart after a seeded down-time, the broker
redelivers what was unacknowledged) and (b) after every individual broker
operation the engine issues inside its handlers (the process dies while
writing to its socket: operations 1..j took effect, nothing after).  Both sets
are enumerated completely for each scenario; repeated crashes and generated
programs are sampled (thorough tier).

Oracles: no-loss (every started execution reaches exactly one terminal
notification once faults have stopped), no task request is issued twice for
the same correlation id, and for crashes that fall between two event handlings
(the engine was idle) the terminal status and output equal the crash-free run.
"""
import json
import random
import re
import sys

from checks import common
from checks import engine as E
from gen import corpus
from lsfsim.core import EPOCH, SimCrash
from lsfsim.runner import run_scenario
from monitors.basic import NotifyMonitor, BrokerMonitor

PROP = "C04"
NODE = "n0"
DOWNTIMES = [0.0, 0.2, 1.5, 6.0]


REQID = re.compile(r'\\?"RequestId\\?": \\?"[^"\\]*\\?"')


def reference(scn, seed):
    """Crash-free run; returns (result, list of steps with flags, ops by step)."""
    info = {"steps": [], "ops": []}

    def before(res):
        sim = res.sim
        sim.broker.observers.append(lambda rec: info["ops"].append((rec[0], rec[2])) if rec[3] == NODE and rec[2] in
                                    OPS else None)

        def after():
            info["steps"].append((sim.steps, node_idle(sim), sim.now))
        sim.after_step.append(after)
    res = run_scenario(scn, seed, before_run=before)
    return res, info


OPS = ("basic_publish", "basic_ack")


def node_idle(sim):
    """True when the engine has nothing in progress at this instant: no ready loop handle, no due timer."""
    q = sim.loopq.get(NODE)
    if q and any(not h.cancelled for h in q):
        return False
    for it in sim.items:
        if not it.cancelled and it.node == NODE and not it.periodic and it.due <= sim.now + 1e-9:
            return False
    return True


def outcome(res, arn):
    """(status, output, error) of the LAST terminal notification; history-dependent 'event id #n' text removed."""
    import re
    evs = res.world.terminal_events().get(arn, [])
    if not evs:
        return None
    d = evs[-1]["body"]["detail"]
    out = d.get("output")
    if isinstance(out, str):
        out = re.sub(r"\(entered at the event id #\d+\)", "(entered at the event id #N)", out)
        out = re.sub(r"timeout value of \d+ seconds", "timeout value of N seconds", out)
        out = REQID.sub('"RequestId": "#"', out)     # (a correlation id: generated, differs from run to run)
        out = strip_cids(res, out)
    return (d["status"], out, d.get("error"))


def strip_timeouts(node):
    """Generated programs for C04 carry no explicit time-outs: a deadline that passes while the engine is down changes
    the outcome legitimately, which would make the crash-free run the wrong reference."""
    if isinstance(node, dict):
        for k in ("TimeoutSeconds", "TimeoutSecondsPath", "HeartbeatSeconds"):
            if k in node and ("Type" in node or "States" in node):
                del node[k]
        for v in node.values():
            strip_timeouts(v)
    elif isinstance(node, list):
        for v in node:
            strip_timeouts(v)


def unfinished(res, mon):
    """
    True if the run went quiet while an execution that was announced has no terminal notification yet.  The engine's
    last line of defence against stuck executions is periodic (check_for_expired_branch_results, once a second, fails
    an execution whose join has outlived the execution time-out), and periodic timers do not keep a simulation from
    being quiescent: in that case the run is continued past the time-out before "never terminal" is concluded.
    """
    res.info["continued-to-backstop"] = any("RUNNING" in s and mon.terminal_status(a) is None for a, s in mon.seq.items())
    return res.info["continued-to-backstop"]


def run_crash(scn, seed, point, downtime):
    """point = ("step", k) crash right after scheduler step k; ("op", j) crash after the j-th engine broker op."""
    state = {"n": 0, "crashed_at": None, "idle": None}
    if point[0] == "pstep":
        # the same crash point, with the client's prefetch buffer modelled: messages already pushed to the dying
        # consumer but not handled yet come back flagged redelivered (fault 'prefetched-unhandled')
        scn = dict(scn, config=dict(scn["config"], crash_prefetch=1.0))

    def before(res):
        sim = res.sim
        node = res.world.nodes[0]

        def restart():
            node.restart()
            sim.count("restart")

        def do_crash():
            if node.dead:
                return
            state["crashed_at"] = sim.now
            node.crash("injected")
            state["situation"] = situation(res, node)
            state["prefetched"] = len(getattr(sim.broker, "prefetched_marked", []))
            sim.call_later(downtime, restart, None, kind="fault", label="restart")

        if point[0] in ("step", "pstep"):
            def after():
                if sim.steps == point[1] and state["crashed_at"] is None:
                    state["idle"] = node_idle(sim)
                    do_crash()
                    node.teardown()
            sim.after_step.append(after)
        else:
            def hook(name, nd):
                if nd != NODE or name not in OPS:
                    return
                state["n"] += 1
                if state["n"] == point[1] and state["crashed_at"] is None:
                    state["idle"] = False
                    do_crash()
                    raise SimCrash()
            sim.broker.fault_hook = hook
        sim.broker.publish_hooks.append(reentry_counter(state))
    mon = NotifyMonitor("C04", check_shape=False)
    ttl = scn["config"].get("execution_ttl", 120)
    bm = BrokerMonitor(drain=False, carrier=False)
    res = run_scenario(scn, seed, monitors=[mon, bm], before_run=before, horizon=ttl + 900, settle=ttl + 70,
                       settle_if=lambda r: unfinished(r, mon))
    res.info["map_reentered_twice"] = bool(state.get("reentered_twice"))
    return res, state, mon


def reentry_counter(state):
    """Publish hook: counts the events that re-enter a Map state for its next MaxConcurrency batch (the last Branch
    frame is {ID, Range}); the same (state, fan-out id, range) published twice is the signature of the recorded
    'map-batch-re-entered' situation, whatever is requested again as a consequence (also the states after the Map)."""
    seen = state.setdefault("reentries", {})

    def on_publish(ch, exchange, routing_key, body, props, queues, uid):
        if exchange != "" or not str(routing_key).startswith("asl_workflow_events"):
            return
        try:
            st = json.loads(body)["context"]["State"]
            fr = st["Branch"][-1]
        except (ValueError, KeyError, TypeError, IndexError):
            return
        if isinstance(fr, dict) and "Range" in fr and "Index" not in fr:
            k = (st.get("Name"), fr.get("ID"), fr.get("Range"))
            seen[k] = seen.get(k, 0) + 1
            if seen[k] > 1:
                state["reentered_twice"] = True
    return on_publish


def strip_cids(res, text):
    """Correlation ids are generated (they differ from run to run) and the long-form invoke hands them to the program as
    SdkResponseMetadata.RequestId, from where a ResultSelector may copy them anywhere: every id under which a request
    was made in this run is replaced wherever it appears."""
    for r in res.world.workers.requests:
        cid = r.get("cid")
        if cid and cid in text:
            text = text.replace(cid, "#")
    return text


def request_counts(res):
    """How often each (function, payload) was requested from the workers."""
    out = {}
    for r in res.world.workers.requests:
        # history-dependent text (event ids start again at 1 after a restart with the in-memory history) removed
        k = (r["fn"], strip_cids(res, REQID.sub('"RequestId": "#"', re.sub(
            r"\(entered at the event id #\d+\)", "(entered at the event id #N)", json.dumps(r["payload"], sort_keys=True)))))
        out[k] = out.get(k, 0) + 1
    return out


def in_batched_map(machine, fn, inside=False):
    """True if the Task calling `fn` sits (at any depth) inside a Map state with a non-zero MaxConcurrency."""
    for st in (machine.get("States") or {}).values():
        if st.get("Type") == "Task" and str(st.get("Resource", "")).endswith(":" + fn) and inside:
            return True
        batched = inside or (st.get("Type") == "Map" and bool(st.get("MaxConcurrency")))
        for sub in list(st.get("Branches") or []) + [st[k] for k in ("ItemProcessor", "Iterator") if isinstance(st.get(k), dict)]:
            if in_batched_map(sub, fn, batched):
                return True
    return False


def requested_again(res, ref_reqs, scn, ctx, witness):
    """
    The engine was idle at every crash, so every request of the crash-free run that had been sent stays sent and the
    others are sent once: no (function, payload) may be requested more often than in the crash-free run (the
    generators give every Task its own function and Map items distinct payloads).  This also sees a task that is
    requested again under a NEW correlation id, e.g. because the state that launches it was entered a second time.
    """
    got = request_counts(res)
    extra = sorted((k, n - ref_reqs.get(k, 0)) for k, n in got.items() if n > ref_reqs.get(k, 0))
    if not extra:
        return []
    (fn, payload), n = extra[0]
    if res.info.get("map_reentered_twice") or \
            all(in_batched_map(m["definition"], k[0]) for m in scn["machines"].values() for k, _ in extra):
        witness = "idle:map-batch-re-entered"
    return [{"property": PROP, "rule": "task-requested-again", "witness": witness,
             "detail": "%s (engine idle): %s(%s) was requested %d more time(s) than in the crash-free run; %d "
                       "(function, payload) pairs over-requested" % (ctx, fn, payload[:60], n, len(extra))}]


def never_acked(res, ctx, witness):
    """A reply that arrives around the restart is matched to its task - or, as an orphan, acknowledged once its
    retention is over: at quiescence after the last restart no reply delivered to the live engine stays unacknowledged
    (event messages of executions that recorded findings end early are left to those findings)."""
    out = []
    for f in res.findings:
        if f["property"] == "C03" and f["rule"] == "never-acked" and "asl_workflow_reply_to" in f["detail"]:
            out.append({"property": PROP, "rule": "never-acked-after-restart", "witness": witness,
                        "detail": "%s: %s" % (ctx, f["detail"])})
            break
    return out


def check_point(scn, seed, point, downtime, ref_out, arn, ref_reqs=None):
    res, state, mon = run_crash(scn, seed, point, downtime)
    findings = []
    fam = scn["machines"]["m"].get("family", "?")
    ctx = "%s crash %s downtime %.1fs" % (fam, point, downtime)
    if state["crashed_at"] is None:
        return res, state, findings   # the point was never reached (run shorter than the reference)
    for f in mon.findings:
        if f["property"] != "C04":
            continue
        if f["rule"] in ("running-twice", "terminal-twice", "running-after-terminal", "terminal-before-running"):
            # at-least-once redelivery after a crash may repeat a notification; C04 demands a terminal status, not
            # exactly-once notifications (that is C02, which is quantified over crash-free runs)
            continue
        f = dict(f)
        f["detail"] = ctx + ": " + f["detail"]
        f["witness"] = classify_witness(f["rule"], point, state, res)
        findings.append(f)
    # a task request already sent must not be sent again
    seen = {}
    for r in res.world.workers.requests:
        seen[r["cid"]] = seen.get(r["cid"], 0) + 1
    dup = [c for c, n in seen.items() if n > 1]
    if dup:
        findings.append({"property": PROP, "rule": "task-requested-again", "witness": None,
                         "detail": "%s: correlation id %s was requested %d times" % (ctx, dup[0], seen[dup[0]])})
    findings += never_acked(res, ctx, classify_witness("never-acked", point, state, res))
    if state["idle"] and ref_reqs is not None:
        findings += requested_again(res, ref_reqs, scn, ctx, classify_witness("task-requested-again", point, state, res))
    out = outcome(res, arn)
    if state["idle"] and out is not None and ref_out is not None and out != ref_out and \
            not any(f["rule"] in ("never-terminal", "terminal-twice") for f in findings):
        # (a Map re-entered twice for one batch runs everything after it twice: with scripted workers the second pass
        # gets other answers - the recorded map-batch-re-entered finding, seen at the outcome)
        findings.append({"property": PROP, "rule": "outcome-changed",
                         "witness": "idle:map-batch-re-entered" if res.info.get("map_reentered_twice") else
                         classify_witness("outcome-changed", point, state, res) + signature(state, out),
                         "detail": "%s (engine idle): crash-free %r, with crash %r" % (ctx, ref_out, out)})
    if res.sim.errors and not findings:
        findings.append({"property": PROP, "rule": "engine-exception-after-restart",
                         "witness": res.sim.errors[0][2].split("(")[0],
                         "detail": "%s: %r" % (ctx, res.sim.errors[0][:3])})
    return res, state, findings


def situation(res, node):
    """
    What the dying engine holds only in memory (computed at the crash instant, before the teardown):
      unsent-task-request    an unacknowledged Task event whose request has not been published yet (the Task is
                             waiting on its dispatch/retry timer) - after redelivery the engine will not send it
      branch-result-in-memory a branch/iteration result collected into the volatile join results
    """
    sim = res.sim
    out = set()
    sent = set()
    for o in sim.broker.oplog:
        if o[2] == "basic_publish" and o[3] == node.name and o[4].get("reply_to"):
            sent.add((o[4].get("cid") or "").split(".")[0])
    ed = node.event_dispatcher
    se = node.state_engine
    if ed is not None:
        for mid, m in ed.unacknowledged_messages.items():
            try:
                ev = json.loads(m.body)
                st = ev["context"]["State"]
                arn = ev["context"]["Execution"]["Id"]
                d = res.scenario["machines"][arn.split(":")[6]]["definition"]
            except (ValueError, KeyError, TypeError):
                continue
            typ = find_type_deep(d, st.get("Name") or d.get("StartAt"))
            if typ == "Task" and mid not in sent:
                out.add("unsent-task-request")
    # a Task event that sat, pushed but not handled, in the dying client's prefetch buffer is in the same position:
    # it comes back flagged redelivered although its request was never sent
    for qname, m in getattr(sim.broker, "prefetched_marked", []):
        try:
            ev = json.loads(m.body)
            st = ev["context"].get("State") or {}       # (a start event published by a client names no state)
            arn = (ev["context"].get("Execution") or {}).get("Id") or ev["context"]["StateMachine"]["Id"]
            d = res.scenario["machines"][arn.split(":")[6]]["definition"]
        except (ValueError, KeyError, TypeError, AttributeError, IndexError):
            continue
        if find_type_deep(d, st.get("Name") or d.get("StartAt")) in ("Task", "Task:child"):
            out.add("unsent-task-request")      # (for a child-launching Task: the child's start event is what is unsent)
    if se is not None:
        for arn, bm in se.branch_metadata.items():
            for r in bm.results.values():
                if any(x is not None for x in r["results"]):
                    out.add("branch-result-in-memory")
    return sorted(out)


def find_type_deep(machine, name):
    """Type of the named state; a Task that launches a child execution is reported as "Task:child" (its 'request' is
    the child's start event, which a redelivered launching event re-attaches to: nothing is left unsent)."""
    for n, st in (machine.get("States") or {}).items():
        if n == name:
            if st.get("Type") == "Task" and re.search(r":(states|sfn):start", str(st.get("Resource"))):
                return "Task:child"
            return st.get("Type")
        subs = list(st.get("Branches") or []) + [st[k] for k in ("ItemProcessor", "Iterator") if isinstance(st.get(k), dict)]
        for sub in subs:
            t = find_type_deep(sub, name)
            if t:
                return t
    return None


def signature(state, out):
    """The recorded in-memory situations all end the same way: the request / result that existed only in the dead
    process is waited for until a time-out fails the execution.  Any other end at such a crash point is something else
    and must not hide behind the recorded witness."""
    if (state.get("situation") or state.get("situations")) and not (out[0] == "FAILED" and out[2] == "States.Timeout"):
        return ":ends-" + str(out[2] or out[0])
    return ""


def classify_witness(rule, point, state, res):
    """Fingerprint class of a crash point: idle or mid-handling, plus what was held only in memory."""
    return ("idle" if state["idle"] else "mid-handling") + "".join(":" + x for x in state.get("situation") or [])


def run_one(item, extra):
    name, kind, cfgname = item[0], item[1], item[2]
    if kind == "corpus":
        scn = corpus.scenario(name)
        seed = 11
        if cfgname and cfgname != "canonical":
            # (the same enumeration under a non-FIFO schedule: after the restart the redelivered events of a parent and
            # of its child are handled in either order)
            scn["config"] = dict(scn["config"], policy=cfgname)
            scn["machines"]["m"]["family"] = "corpus:%s/%s" % (name, cfgname)
    else:
        seed = common.run_seed(name)
        rng = random.Random(seed)
        prog = E.gen_program(rng, rng.choice(["sequential", "fanout_ok"]), extra["tier"])
        strip_timeouts(prog["definition"])
        scn = E.scenario_of(prog, {"policy": "canonical", "latency": "zero", "execution_ttl": 300}, 1, "STANDARD")
        scn["machines"]["m"]["family"] = "generated"
        mo = E.model_for(scn)
        if E.classify(mo, allow_single_failure=False, definition=prog["definition"]):
            return {"evaluations": 1, "probes": {"skipped-generated": 1}, "findings": [], "distinct": []}
    ref, info = reference(scn, seed)
    arn = ref.exec_arns.get("e1")
    ref_out = outcome(ref, arn)
    total = {"evaluations": 0, "sim_seconds": 0.0, "steps": 0, "broker_ops": 0, "interleavings": [], "distinct": [],
             "faults": {}, "probes": {}, "findings": [], "sample": None}
    if ref_out is None:
        total["findings"].append({"property": PROP, "rule": "reference-run-not-terminal", "witness": None,
                                  "detail": "crash-free run of %s did not terminate" % name, "scenario": scn, "seed": seed})
        total["evaluations"] = 1
        return total
    rng = random.Random(seed * 7 + 1)
    # crash points: after every step from the StartExecution call on, and after every engine broker op
    first = min([s for s, idle, t in info["steps"] if s > 0] or [0])
    start_step = [rec for ex, rec in ref.start_calls if rec is not None][0]["step0"]     # (API call or raw start event)
    points = [("step", s) for s, idle, t in info["steps"] if s >= start_step]
    points += [("op", j) for j in range(1, len([o for o in info["ops"] if o[0] >= start_step]) +
                                        len([o for o in info["ops"] if o[0] < start_step]) + 1)
               if j > len([o for o in info["ops"] if o[0] < start_step])]
    psteps = [("pstep", s) for k, (kind_, s) in enumerate(points) if kind_ == "step"]
    points += psteps if extra["tier"] != "quick" else psteps[::2]
    if extra.get("sample_points") and len(points) > extra["sample_points"]:
        points = rng.sample(points, extra["sample_points"])
    shuffled = kind == "corpus" and cfgname and cfgname != "canonical"
    runs = []
    for p in points:
        if shuffled:
            if p[0] != "step":
                continue
            # a long down-time (every timer of the dead process is overdue at the restart) under three schedules
            runs += [(p, 6.0, seed + 1000 * j) for j in range(3)]
        else:
            runs.append((p, rng.choice(DOWNTIMES), seed))
    for p, dt, pseed in runs:
        res, state, findings = check_point(scn, pseed, p, dt, ref_out, arn, request_counts(ref))
        total["evaluations"] += 1
        total["sim_seconds"] += res.sim.now - res.sim.epoch
        total["steps"] += res.sim.steps
        total["broker_ops"] += len(res.sim.broker.oplog)
        if state["crashed_at"] is not None:
            total["faults"]["crash"] = total["faults"].get("crash", 0) + 1
            total["faults"]["restart"] = total["faults"].get("restart", 0) + res.sim.stats.get("restart", 0)
            k = "crash-while-idle" if state["idle"] else "crash-mid-handling"
            total["probes"][k] = total["probes"].get(k, 0) + 1
            total["probes"]["crash-point:" + p[0]] = total["probes"].get("crash-point:" + p[0], 0) + 1
            if state.get("prefetched"):
                total["probes"]["crash-with-prefetched-unhandled-messages"] = total["probes"].get(
                    "crash-with-prefetched-unhandled-messages", 0) + 1
                total["faults"]["prefetched-unhandled"] = total["faults"].get("prefetched-unhandled", 0) + state["prefetched"]
            redel = sum(1 for o in res.sim.broker.oplog if o[2] == "deliver" and o[4].get("redelivered"))
            total["probes"]["redeliveries"] = total["probes"].get("redeliveries", 0) + redel
            if res.info.get("continued-to-backstop"):
                total["probes"]["ended-only-by-the-periodic-backstop"] = total["probes"].get(
                    "ended-only-by-the-periodic-backstop", 0) + 1
            total["distinct"].append(common.sha([name, p, dt]))
            total["interleavings"].append(res.sim.order_hash.hexdigest()[:16])
        for f in findings:
            f.setdefault("seed", pseed)
            f.setdefault("scenario", scn)
            f["crash_point"] = list(p)
            f["downtime"] = dt
            total["findings"].append(f)
    total["sample"] = {"scenario": name if kind == "corpus" else "generated", "crash_points": len(points),
                       "reference_outcome": ref_out[0], "reference_steps": ref.sim.steps}
    # keep the findings list small: one per (rule, witness)
    seen = set()
    keep = []
    for f in total["findings"]:
        k = (f["rule"], f.get("witness"))
        if k not in seen:
            seen.add(k)
            keep.append(f)
    total["findings"] = keep
    return total


# ------------------------------------------------------------------------------------------
# sampled slice: repeated crashes, crash during recovery, Redis / blocking / two instances / non-canonical schedules
# ------------------------------------------------------------------------------------------
MULTI_POLICIES = ["canonical", "shuffle", "latency-small", "ties", "pct"]


def multi_case(i, tier):
    """Seeded case: scenario (+ a second, later execution), deployment, and a crash plan of 2-4 crashes."""
    seed = common.run_seed(4000000 + i)
    rng = random.Random(seed)
    if rng.random() < 0.6:
        name = rng.choice(sorted(corpus.CORPUS))
        scn = corpus.scenario(name)
        fam = "corpus:" + name
    else:
        prog = E.gen_program(rng, rng.choice(["sequential", "fanout_ok", "retry"]), tier)
        strip_timeouts(prog["definition"])
        scn = E.scenario_of(prog, {"execution_ttl": 120}, 1, "STANDARD")
        scn["machines"]["m"]["family"] = fam = "generated"
        mo = E.model_for(scn)
        if E.classify(mo, allow_single_failure=True, definition=prog["definition"]):
            return None, seed
    cfg = E.policy_cfg(rng.choice(MULTI_POLICIES))
    cfg["execution_ttl"] = rng.choice([120, 300])
    cfg["store"] = rng.choice(["file", "file", "redis"])
    cfg["transport"] = rng.choice(["asyncio", "asyncio", "blocking"])
    cfg["nodes"] = 2 if (cfg["store"] == "redis" and rng.random() < 0.4) else 1
    cfg["queue_type"] = rng.choice(["classic", "quorum"])
    scn["config"] = cfg
    # a second execution of the same machine shares the worker functions: only where every function answers the same
    # way on every call (otherwise which execution gets which scripted outcome would depend on the schedule)
    if rng.random() < 0.5 and all(len(v) == 1 for v in scn["script"].values()):
        ex = dict(scn["executions"][0])
        ex["name"] = "e2"
        ex["at"] = rng.choice([0.0, 0.5, 1.0, 2.5])
        ex["node"] = rng.randint(0, 1)
        scn["executions"].append(ex)
    n = rng.choice([2, 2, 3, 4])
    plan = []
    for k in range(n):
        kind = rng.choice(["step", "op", "op", "recover-op", "recover-step"])
        if kind in ("step", "op"):
            plan.append((kind, rng.randint(1, 60)))       # counted from the previous crash (or the first start call)
        else:
            plan.append((kind, rng.randint(1, 8)))        # counted from the restart: lands inside the recovery
    downs = [rng.choice(DOWNTIMES) for _ in plan]
    cfg["crash_prefetch"] = rng.choice([0.0, 0.0, 0.5, 1.0])     # (drawn last: the cases themselves stay as they were)
    if cfg["transport"] == "asyncio" and rng.random() < 0.3:
        # a loggingConfiguration (only the asyncio front end takes one): what is logged about an execution whose record
        # was re-created after a restart must not change how it ends
        from checks import c11
        for m in scn["machines"].values():
            m["logging"] = json.loads(json.dumps(rng.choice(c11.LOGGING)))
    return {"scn": scn, "plan": plan, "downs": downs, "family": fam}, seed


def run_multi_case(case, seed):
    scn, plan, downs = case["scn"], [tuple(p) for p in case["plan"]], case["downs"]
    state = {"k": 0, "ops": 0, "steps": 0, "armed": False, "crashes": 0, "restarts": 0, "recovering": False,
             "crash_idle": [], "in_recovery": 0}

    def before(res):
        sim = res.sim
        node = res.world.nodes[0]

        def restart():
            if node.dead:
                node.restart()
                sim.count("restart")
                state["restarts"] += 1
                state["ops"] = state["steps"] = 0
                state["recovering"] = True

        def do_crash(idle):
            state["crash_idle"].append(idle)
            if state["recovering"] and plan[state["k"]][0].startswith("recover"):
                state["in_recovery"] += 1
            node.crash("injected")
            state.setdefault("situations", set()).update(situation(res, node))
            sim.call_later(downs[state["k"]], restart, None, kind="fault", label="restart")
            state["k"] += 1
            state["crashes"] += 1
            state["ops"] = state["steps"] = 0

        def due(kind):
            if state["k"] >= len(plan) or node.dead or not state["armed"]:
                return False
            pk, pn = plan[state["k"]]
            if pk.startswith("recover"):
                if state["restarts"] == 0:      # nothing to recover from yet: behaves like a plain point
                    pk = pk[len("recover-"):]
                elif state["restarts"] < state["crashes"]:
                    return False
                else:
                    pk = pk[len("recover-"):]
            return pk == kind and (state["ops"] if kind == "op" else state["steps"]) >= pn

        def after():
            if not state["armed"]:
                if any(rec is not None for ex, rec in res.start_calls):
                    state["armed"] = True
                return
            if node.dead:
                return
            state["steps"] += 1
            if due("step"):
                do_crash(node_idle(sim))
                node.teardown()
        sim.after_step.append(after)

        def hook(name, nd):
            if nd != NODE or name not in OPS or not state["armed"] or node.dead:
                return
            state["ops"] += 1
            if due("op"):
                do_crash(False)
                raise SimCrash()
        sim.broker.fault_hook = hook

        def on_publish(ch, exchange, routing_key, body, props, queues, uid):
            if routing_key.startswith("asl_workflow_events"):
                try:
                    state.setdefault("published", set()).add(json.loads(body)["context"]["Execution"]["Id"])
                except (ValueError, KeyError, TypeError):
                    pass
        sim.broker.publish_hooks.append(on_publish)
        sim.broker.publish_hooks.append(reentry_counter(state))
    mon = NotifyMonitor("C04", check_shape=False)
    ttl = scn["config"].get("execution_ttl", 120)
    bm = BrokerMonitor(drain=False, carrier=False)
    res = run_scenario(scn, seed, monitors=[mon, bm], before_run=before, horizon=ttl + 900 + 10 * len(plan),
                       settle=ttl + 70, settle_if=lambda r: unfinished(r, mon))
    res.info["map_reentered_twice"] = bool(state.get("reentered_twice"))
    return res, state, mon


def check_multi(case, seed):
    res, state, mon = run_multi_case(case, seed)
    scn = case["scn"]
    cfg = scn["config"]
    ctx = "%s store=%s transport=%s nodes=%d policy=%s/%s plan=%s" % (
        case["family"], cfg["store"], cfg["transport"], cfg["nodes"], cfg["policy"], cfg["latency"], case["plan"])
    findings = []
    for f in mon.findings:
        if f["property"] != "C04" or f["rule"] in ("running-twice", "terminal-twice", "running-after-terminal",
                                                    "terminal-before-running"):
            continue
        f = dict(f)
        f["detail"] = ctx + ": " + f["detail"]
        f["witness"] = None
        if f["rule"] == "never-terminal" and cfg["transport"] == "blocking":
            arn = f["detail"].split(": ")[-1].split(" ")[0]
            if arn not in state.get("published", ()) and arn not in mon.seq:
                # the Flask front end hands the start event to the connection thread (add_callback_threadsafe) and
                # answers 200 at once: the engine died before that callback ran (recorded finding)
                f["witness"] = "blocking-frontend:start-acknowledged-before-publish"
        findings.append(f)
    seen = {}
    for r in res.world.workers.requests:
        seen[r["cid"]] = seen.get(r["cid"], 0) + 1
    dup = [c for c, n in seen.items() if n > 1]
    if dup:
        findings.append({"property": PROP, "rule": "task-requested-again", "witness": None,
                         "detail": "%s: correlation id %s was requested %d times" % (ctx, dup[0], seen[dup[0]])})
    findings += never_acked(res, ctx, None)
    node = res.world.nodes[0]
    state["armed"] = False      # the crash plan is over: nothing below may trigger another crash
    state["k"] = len(case["plan"])
    all_idle = bool(state["crash_idle"]) and all(state["crash_idle"])
    state["all_idle"] = all_idle
    if not findings and all_idle:
        # every crash fell between two event handlings: same outcome as the crash-free run of the same case, and the
        # record the API serves afterwards tells the same end as the terminal notification
        ref = run_scenario(scn, seed, horizon=cfg.get("execution_ttl", 120) + 900)
        sits = set(state.get("situations") or ())
        for o in res.sim.broker.oplog:
            if o[2] == "deliver" and o[4].get("redelivered") and o[3] not in (NODE, None) and \
                    str(o[4].get("queue", "")).startswith("asl_workflow_events") and "-inst" not in str(o[4].get("queue")):
                # the dead instance held an event taken from the SHARED queue (e.g. the start event while the first
                # Task is in flight): the broker hands it to another instance, the reply still goes to the dead one's
                sits.add("shared-queue-event-moved-to-other-instance")
        wit = "idle" + "".join(":" + x for x in sorted(sits))
        findings += requested_again(res, request_counts(ref), scn, ctx, wit)
        for ename, arn in sorted(res.exec_arns.items()):
            out, ref_out = outcome(res, arn), outcome(ref, ref.exec_arns.get(ename))
            if out is not None and ref_out is not None and out != ref_out:
                findings.append({"property": PROP, "rule": "outcome-changed",
                                 "witness": "idle:map-batch-re-entered" if res.info.get("map_reentered_twice") else
                                 wit + (signature({"situation": sits}, out) if sits else ""),
                                 "detail": "%s (engine idle at every crash): %s crash-free %r, with crashes %r" % (
                                     ctx, ename, ref_out, out)})
        t_end = res.sim.now - res.sim.epoch
        if not findings and not node.dead and (cfg["store"] == "file" or t_end < cfg["execution_ttl"] - 1):
            for ename, arn in sorted(res.exec_arns.items()):
                out = outcome(res, arn)
                if out is None or arn is None:
                    continue
                rec = res.world.describe(arn, node)
                if rec["status"] != 200 or not isinstance(rec["json"], dict):
                    # with the file-backed configuration records live in memory and are re-created only when an event
                    # of the execution is handled after the restart; an execution that ended before is unknown
                    if cfg["store"] == "redis":
                        findings.append({"property": PROP, "rule": "record-lost-after-restart", "witness": None,
                                         "detail": "%s: DescribeExecution(%s) -> %s %s although the records are in "
                                                   "Redis" % (ctx, ename, rec["status"], str(rec["body"])[:120])})
                    continue
                if rec["json"].get("status") != out[0]:
                    findings.append({"property": PROP, "rule": "record-disagrees-after-restart", "witness": None,
                                     "detail": "%s: DescribeExecution(%s) says %s, terminal notification %s" % (
                                         ctx, ename, rec["json"].get("status"), out[0])})
    if res.sim.errors and not findings:
        findings.append({"property": PROP, "rule": "engine-exception-after-restart",
                         "witness": res.sim.errors[0][2].split("(")[0],
                         "detail": "%s: %r" % (ctx, res.sim.errors[0][:3])})
    return res, state, findings


def run_multi(item, extra):
    case, seed = multi_case(item, extra["tier"])
    if case is None:
        return {"evaluations": 1, "probes": {"skipped-generated": 1}, "findings": [], "distinct": []}
    res, state, findings = check_multi(case, seed)
    scn = case["scn"]
    redel = sum(1 for o in res.sim.broker.oplog if o[2] == "deliver" and o[4].get("redelivered"))
    probes = {"multi:runs": 1, "multi:crashes=%d" % min(state["crashes"], 4): 1, "multi:redeliveries": redel,
              "multi:crash-inside-recovery": state["in_recovery"],
              "multi:store=" + scn["config"]["store"]: 1, "multi:transport=" + scn["config"]["transport"]: 1,
              "multi:nodes=%d" % scn["config"]["nodes"]: 1, "multi:policy=" + scn["config"]["policy"]: 1,
              "multi:all-crashes-idle(outcome+record compared)": 1 if state.get("all_idle") else 0,
              "multi:ended-only-by-the-periodic-backstop": 1 if res.info.get("continued-to-backstop") else 0,
              "multi:crash-while-idle": sum(1 for x in state["crash_idle"] if x),
              "multi:crash-mid-handling": sum(1 for x in state["crash_idle"] if not x)}
    for f in findings:
        f.setdefault("seed", seed)
        f["multi_case"] = case
    return {"evaluations": 1, "sim_seconds": res.sim.now - res.sim.epoch, "steps": res.sim.steps,
            "broker_ops": len(res.sim.broker.oplog), "interleavings": [res.sim.order_hash.hexdigest()[:16]],
            "distinct": [common.sha([scn["machines"], case["plan"], res.sim.order_hash.hexdigest()])] if state["crashes"] else [],
            "faults": {"crash": state["crashes"], "restart": state["restarts"],
                       "prefetched-unhandled": res.sim.stats.get("prefetched-unhandled", 0)}, "probes": probes,
            "findings": findings, "sample": None}


# ------------------------------------------------------------------------------------------
# task-token callbacks around a restart
# ------------------------------------------------------------------------------------------
def token_case(i):
    """A .waitForTaskToken Task whose worker also sends an ordinary (ignorable) reply, a client that presents the token
    with SendTaskSuccess (and keeps retrying once a second while the API does not answer 200), and 1-2 engine crashes
    placed around those messages: a callback the API accepted completes its task."""
    seed = common.run_seed(4700000 + i)
    rng = random.Random(seed)
    F = E.GM.FN_ARN
    task = {"Type": "Task", "Resource": "arn:aws:states:local::rpcmessage:invoke.waitForTaskToken",
            "Parameters": {"FunctionName": F + "cb", "Payload": {"token.$": "$$.Task.Token", "k.$": "$.k"}},
            "ResultPath": "$.cb", "Next": "Z"}
    d = {"StartAt": "T", "States": {"T": task, "Z": {"Type": "Pass", "End": True}}}
    reply = rng.choice([[{"noreply": True}], [{"ok": {"op": "const", "value": {"ordinary": "reply"}}, "delay": rng.choice([0.5, 1.5, 2.5])}]])
    cfg = E.policy_cfg(rng.choice(["canonical", "shuffle", "latency-small"]))
    cfg.update(execution_ttl=120, transport="asyncio")      # (the blocking front end has no SendTaskSuccess action)
    scn = {"machines": {"m": {"definition": d, "type": "STANDARD", "family": "token"}},
           "executions": [{"machine": "m", "input": {"k": 3}, "name": "e1"}], "script": {"cb": reply},
           "functions": ["cb"], "config": cfg}
    t_cb = rng.choice([1.0, 2.0, 3.0])
    crashes = sorted(rng.sample([0.3, 0.8, 1.2, 1.8, 2.2, 2.8, 3.3, 4.0], rng.choice([1, 1, 2])))
    downs = [rng.choice([0.2, 0.7, 1.5]) for _ in crashes]     # (restart instants often fall on a callback instant)
    if rng.random() < 0.5:
        # the client's call reaches the restarted front end a few milliseconds after it is up - with message latency
        # that is before the broker has redelivered the task's event
        k = rng.randrange(len(crashes))
        t_cb = round(crashes[k] + downs[k] + rng.choice([0.002, 0.005, 0.02]), 3)
        cfg.update(E.policy_cfg(rng.choice(["latency-small", "latency-small", "shuffle"])))
    if rng.random() < 0.25:
        # the client's first calls meet a dead engine; a retry reaches the restarted one at the very instant it dies
        # again - the callback may have been published although the call was never answered, and the client sends it
        # once more after the second restart: two callback messages for one task
        base = rng.choice([1.0, 2.0, 3.0])
        t_cb = base
        crashes = [round(base - 0.2, 1), base + 2.0]
        downs = [1.5, rng.choice([0.2, 0.7])]
    return seed, {"scn": scn, "t_cb": t_cb, "crashes": crashes, "downs": downs}


def check_token(case, seed):
    scn = case["scn"]
    state = {"accepted": None, "attempts": 0, "crashes": 0, "idle": []}

    def before(res):
        sim, w = res.sim, res.world
        node = w.nodes[0]
        t0 = sim.now

        def callback():
            if state["accepted"] is not None or state["attempts"] > 40:
                return
            toks = [r["payload"]["token"] for r in w.workers.requests if isinstance(r["payload"], dict) and "token" in r["payload"]]
            state["attempts"] += 1
            if toks and not node.dead:
                rec = w.api.call(node, "SendTaskSuccess", {"taskToken": toks[-1], "output": json.dumps({"answer": 42})})

                def look(rec=rec):
                    if rec.get("done") and rec.get("status") == 200 and state["accepted"] is None:
                        state["accepted"] = sim.now
                    elif state["accepted"] is None:
                        if rec.get("done") and isinstance(rec.get("status"), int) and 400 <= rec["status"] < 500:
                            # the token is the one the task received: a live front end has no reason to refuse it,
                            # whether or not the restarted engine has got round to the task's redelivered event yet
                            state.setdefault("refused", []).append((sim.now, rec["status"], (rec.get("body") or "")[:80]))
                        sim.call_later(1.0, callback, None, kind="client", label="cb-retry")
                sim.call_later(0.45, look, None, kind="client", label="cb-look")
            else:
                sim.call_later(1.0, callback, None, kind="client", label="cb-retry")
        sim.call_at(t0 + case["t_cb"], callback, None, kind="client", label="cb")
        for at, down in zip(case["crashes"], case["downs"]):
            def crash(down=down):
                if node.dead:
                    return
                state["idle"].append(node_idle(sim))
                state["crashes"] += 1
                node.crash("injected")
                node.teardown()
                sim.call_later(down, lambda: (node.restart(), sim.count("restart")) if node.dead else None, None,
                               kind="fault", label="restart")
            sim.call_at(t0 + at, crash, None, kind="fault", label="crash")
    mon = NotifyMonitor("C04", check_shape=False)
    bm = BrokerMonitor(drain=False, carrier=False)
    res = run_scenario(scn, seed, monitors=[mon, bm], before_run=before, horizon=1200, settle=200,
                       settle_if=lambda r: unfinished(r, mon))
    ctx = "token callback at %.1fs, crashes at %s (down %s), reply %s" % (case["t_cb"], case["crashes"], case["downs"],
                                                                          "none" if scn["script"]["cb"][0].get("noreply") else "ordinary")
    findings = []
    arn = res.exec_arns.get("e1")
    out = outcome(res, arn) if arn else None
    requested = any(isinstance(r["payload"], dict) and "token" in r["payload"] for r in res.world.workers.requests)
    if state["accepted"] is not None:
        ok = out is not None and out[0] == "SUCCEEDED" and (json.loads(out[1]) or {}).get("cb") == {"answer": 42}
        if not ok:
            findings.append({"property": PROP, "rule": "accepted-callback-did-not-complete-task", "witness":
                             "idle" if all(state["idle"]) else "mid-handling",
                             "detail": "%s: SendTaskSuccess answered 200 at t=%.2f, the execution ended %r" % (
                                 ctx, state["accepted"] - res.sim.epoch, out and out[:1] + out[2:])})
    if state.get("refused"):
        t, st, body = state["refused"][0]
        findings.append({"property": PROP, "rule": "valid-token-refused-around-restart", "witness": None,
                         "detail": "%s: SendTaskSuccess with the task's own token answered %s %s at t=%.2f" % (
                             ctx, st, body, t - res.sim.epoch)})
    if out is None and arn in mon.seq:
        findings.append({"property": PROP, "rule": "never-terminal", "witness": None, "detail": ctx})
    findings += never_acked(res, ctx, None)
    if res.sim.errors and not findings:
        findings.append({"property": PROP, "rule": "engine-exception-after-restart", "witness": res.sim.errors[0][2].split("(")[0],
                         "detail": "%s: %r" % (ctx, res.sim.errors[0][:3])})
    return res, state, findings


def run_token(item, extra):
    seed, case = token_case(item)
    res, state, findings = check_token(case, seed)
    for f in findings:
        f.setdefault("seed", seed)
        f["token_case"] = case
    probes = {"token:runs": 1, "token:callback-accepted": 1 if state["accepted"] is not None else 0,
              "token:crashes": state["crashes"], "token:callback-attempts": state["attempts"]}
    return {"evaluations": 1, "sim_seconds": res.sim.now - res.sim.epoch, "steps": res.sim.steps,
            "broker_ops": len(res.sim.broker.oplog), "interleavings": [res.sim.order_hash.hexdigest()[:16]],
            "distinct": [common.sha(["token", case["t_cb"], case["crashes"], case["downs"], res.sim.order_hash.hexdigest()])],
            "faults": {"crash": state["crashes"], "restart": res.sim.stats.get("restart", 0)}, "probes": probes,
            "findings": findings, "sample": None}


def main(argv):
    if len(argv) > 1 and argv[0] == "--replay":
        with open(argv[1]) as f:
            rec = json.load(f)
        if rec.get("token_case"):
            res, state, findings = check_token(rec["token_case"], rec["seed"])
            same = [f for f in findings if f["rule"] == rec["rule"]]
            print("replay %s: %s" % (argv[1], "REPRODUCED rule=%s%s" % (rec["rule"], common.digest_note(rec, same)) if same else "not reproduced"))
            return 1 if same else 0
        if rec.get("multi_case"):
            res, state, findings = check_multi(rec["multi_case"], rec["seed"])
            same = [f for f in findings if f["rule"] == rec["rule"]]
            print("replay %s: %s" % (argv[1], "REPRODUCED rule=%s%s" % (rec["rule"], common.digest_note(rec, same)) if same else "not reproduced"))
            return 1 if same else 0
        scn = rec["scenario"]
        ref, info = reference(scn, rec["seed"])
        arn = ref.exec_arns.get("e1")
        res, state, findings = check_point(scn, rec["seed"], tuple(rec["crash_point"]), rec["downtime"],
                                           outcome(ref, arn), arn, request_counts(ref))
        same = [f for f in findings if f["rule"] == rec["rule"]]
        print("replay %s: %s" % (argv[1], "REPRODUCED rule=%s%s" % (rec["rule"], common.digest_note(rec, same)) if same else "not reproduced"))
        return 1 if same else 0
    tier = common.tier()
    names = corpus.QUICK if tier == "quick" else sorted(corpus.CORPUS)
    items = [(n, "corpus", "canonical") for n in names]
    items += [(n, "corpus", "shuffle") for n in ("sync-child-between-tasks", "sync2-child-between-tasks")]
    extra = {"tier": tier}
    if tier == "thorough":
        items += [(i, "generated", "canonical") for i in range(600)]
    rep = common.Report(PROP, level="fault_enumeration")
    for r in common.run_batch("checks.c04", "run_one", items, extra, chunk=1):
        rep.absorb(r)
    n_multi = 1500 if tier == "quick" else 60000
    for r in common.run_batch("checks.c04", "run_multi", range(n_multi), extra):
        rep.absorb(r)
    for r in common.run_batch("checks.c04", "run_token", range(400 if tier == "quick" else 16000), extra):
        rep.absorb(r)
    rep.exhaustive = True
    return rep.finish(
        rule="for each scenario of the corpus (%d scenarios: sequential, retry, catch, time-out, Parallel, Map, "
             "MaxConcurrency, failing branch) the crash-free run is recorded and then ONE engine crash is injected at "
             "every scheduler step after StartExecution and after every single basic_publish/basic_ack the engine "
             "issues (complete enumeration per scenario; 'exhaustive' refers to this crash-point set, not to "
             "schedules), restart after a seeded down-time in %s s with broker redelivery; durable: broker queues and "
             "the JSON store file; volatile: everything in the engine. Oracles: exactly one terminal notification per "
             "started execution, no correlation id requested twice, crash-free outcome preserved when the engine was "
             "idle at the crash, no (function, payload) requested more often than in the crash-free run (idle crashes), no reply left "
             "unacknowledged by the restarted engine; a further sampled slice places 1-2 crashes around a task-token callback "
             "(SendTaskSuccess retried until answered 200, with and without an ordinary worker reply): an accepted callback "
             "completes its task; distinct = distinct (scenario, crash point, down-time)" % (len(names), DOWNTIMES),
        assumptions=["enumerated slice: single engine instance, file-backed ASL store (the sampled multi-crash slice adds Redis, the blocking transport and a second instance)", "workers keep running and reply while the engine is down",
                     "one crash per run at quick tier"])


if __name__ == "__main__":
    sys.exit(main(sys.argv[1:]))
