"""
C07 - Retry and Catch follow the States Language error-handling policy.

Generated retrier/catcher lists x scripted error sequences on Task, Map and
Parallel states, run on the virtual clock: under the zero-latency schedule the
instant of every task request and of the terminal event must equal the
reference error-handling model's (k-th delay = IntervalSeconds x BackoffRate^k);
under latency schedules they must never be earlier.  A publish monitor checks
that RetryCount never travels into the event of a state other than the one
being retried.
"""
import json
import random
import sys

from checks import common
from checks import engine as E
from checks import timing
from lsfsim.core import EPOCH
from lsfsim.runner import run_scenario
from monitors.basic import Monitor

PROP = "C07"
FAMILY_MIX = ["retry"] * 3 + ["retry_fanout1"] * 2 + ["sequential"] + ["retry_map_batches", "retry_fanout_siblings"]
POLICIES = ["canonical", "canonical", "latency-small", "latency-heavy"]


class RetryCountMonitor(Monitor):
    """RetryCount may only appear in the event of a state that has a Retry field (or its fan-out branch frames)."""

    def attach(self, res):
        Monitor.attach(self, res)
        res.sim.broker.publish_hooks.append(self.on_publish)
        self.seen = 0

    def find_state(self, machine, name):
        for n, st in (machine.get("States") or {}).items():
            if n == name:
                return st
            for sub in list(st.get("Branches") or []) + [st[k] for k in ("ItemProcessor", "Iterator") if
                                                          isinstance(st.get(k), dict)]:
                r = self.find_state(sub, name)
                if r is not None:
                    return r
        return None

    def on_publish(self, ch, exchange, routing_key, body, props, queues, uid):
        if exchange != "" or not routing_key.startswith("asl_workflow_events"):
            return
        try:
            ev = json.loads(body.decode("utf8") if isinstance(body, bytes) else body)
            st = ev["context"]["State"]
            arn = ev["context"]["Execution"]["Id"]
        except (ValueError, KeyError, TypeError):
            return
        if "RetryCount" in st or "RetryTimeout" in st:
            self.seen += 1
            m = self.res.scenario["machines"].get(arn.split(":")[6])
            if m is None:
                return
            s = self.find_state(m["definition"], st.get("Name"))
            if s is None or not s.get("Retry"):
                w = None
                if s is not None and s.get("Type") in ("Map", "Parallel"):
                    # the counter of a retried Task inside a branch travelling in the event that re-enters / joins
                    # its enclosing fan-out state: the recorded RetryCount leak (see probe)
                    w = "into-enclosing-fanout-state"
                self.add(PROP, "retry-counter-leaked", "event for state %r of %s carries RetryCount=%r RetryTimeout=%r "
                                                        "but that state has no Retry" % (
                    st.get("Name"), arn, st.get("RetryCount"), st.get("RetryTimeout")), witness=w)


F = E.GM.FN_ARN


def handlers(rng, errs, allow_all=True):
    """Retry / Catch fields for a fan-out state: retriers and catchers over the error names that can occur."""
    out = {}
    if rng.random() < 0.8:
        rs = []
        for k in range(rng.randint(1, 2)):
            eq = ["States.ALL"] if (allow_all and rng.random() < 0.4) else [rng.choice(errs + ["E.Never"])]
            r = {"ErrorEquals": eq, "IntervalSeconds": rng.choice([1, 2, 3]), "MaxAttempts": rng.choice([0, 1, 2, 3]),
                 "BackoffRate": rng.choice([1.0, 1.5, 2.0])}
            rs.append(r)
            if eq == ["States.ALL"]:
                break
        # one retrier at most may match what happens (the shared RetryCount is a recorded finding)
        hit = [r for r in rs if r["ErrorEquals"] == ["States.ALL"] or r["ErrorEquals"][0] in errs]
        if len(hit) > 1:
            rs = [hit[0]]
        out["Retry"] = rs
    if rng.random() < 0.7:
        out["Catch"] = [{"ErrorEquals": [rng.choice(["States.ALL", "States.ALL"] + errs)],
                         "ResultPath": rng.choice(["$.caught", "$.err"]), "Next": "H"}]
    return out


def gen_batches(rng):
    """Map with MaxConcurrency 1-2 over 2-4 items (several batches) whose failing item sits in any batch; Retry/Catch
    on the Map state itself: the retry progress of the Map has to survive the re-entries for later batches."""
    n = rng.randint(2, 4)
    bad_at = rng.randrange(n)
    mc = rng.choice([1, 1, 2]) if n > 2 else 1
    err = rng.choice(["E.Alpha", "E.Beta"])
    fails = rng.choice([1, 2, 3, 4, 99])
    items = [{"i": k, "bad": k == bad_at} for k in range(n)]
    it = {"StartAt": "C", "States": {
        "C": {"Type": "Choice", "Choices": [{"Variable": "$.bad", "BooleanEquals": True, "Next": "B"}], "Default": "G"},
        "G": {"Type": "Task", "Resource": F + "good", "End": True},
        "B": {"Type": "Task", "Resource": F + "bad", "End": True}}}
    m = {"Type": "Map", "ItemsPath": "$.items", "MaxConcurrency": mc, "ResultPath": "$.out", "Next": "Z",
         rng.choice(["ItemProcessor", "Iterator"]): it}
    m.update(handlers(rng, [err]))
    d = {"StartAt": "M", "States": {"M": m, "Z": {"Type": "Pass", "End": True},
                                    "H": {"Type": "Pass", "Result": "handled", "ResultPath": "$.h", "End": True}}}
    # with MaxConcurrency 2 the failing item's batch sibling is a quick task that has finished before the failure
    script = {"good": [{"ok": {"op": "tag"}, "delay": 0.0}],
              "bad": [{"err": err, "msg": "no", "delay": 1.0}] * min(fails, 12) + ([{"ok": {"op": "tag"}, "delay": 1.0}] if fails < 99 else [])}
    return {"definition": d, "input": {"items": items}, "script": script, "functions": ["bad", "good"]}


def gen_siblings(rng):
    """Parallel / Map whose failing branch has siblings still waiting (a Wait, a slow Task - none with a Retry of its
    own); Retry/Catch on the fan-out state: the cancelled siblings' Task.Terminated must not be retried or caught."""
    err = rng.choice(["E.Alpha", "E.Beta"])
    fails = rng.choice([1, 2, 3, 99])
    t_fail = rng.choice([0.0, 1.0, 2.0])
    sib = []
    for k in range(rng.randint(1, 2)):
        if rng.random() < 0.5:
            sib.append({"StartAt": "W%d" % k, "States": {"W%d" % k: {"Type": "Wait", "Seconds": rng.choice([3, 5, 8]), "End": True}}})
        else:
            sib.append({"StartAt": "S%d" % k, "States": {"S%d" % k: {"Type": "Task", "Resource": F + "slow%d" % k, "End": True}}})
    branches = sib[:]
    branches.insert(rng.randrange(len(sib) + 1), {"StartAt": "B", "States": {"B": {"Type": "Task", "Resource": F + "bad", "End": True}}})
    p = {"Type": "Parallel", "Branches": branches, "ResultPath": "$.out", "Next": "Z"}
    p.update(handlers(rng, [err]))
    d = {"StartAt": "P", "States": {"P": p, "Z": {"Type": "Pass", "End": True},
                                    "H": {"Type": "Pass", "Result": "handled", "ResultPath": "$.h", "End": True}}}
    script = {"bad": [{"err": err, "msg": "no", "delay": t_fail}] * min(fails, 12) + ([{"ok": {"op": "tag"}, "delay": t_fail}] if fails < 99 else []),
              "slow0": [{"ok": {"op": "tag"}, "delay": rng.choice([4.0, 6.0])}], "slow1": [{"ok": {"op": "wrap"}, "delay": rng.choice([3.5, 7.0])}]}
    return {"definition": d, "input": {"k": 1}, "script": script, "functions": sorted(script)}


HAND = {"retry_map_batches": gen_batches, "retry_fanout_siblings": gen_siblings}


def gen(i, tier):
    seed = common.run_seed(i)
    rng = random.Random(seed)
    fam = rng.choice(FAMILY_MIX)
    if fam in HAND:
        prog = HAND[fam](rng)
        cfg = E.swarm_config(rng, ["canonical"], ttls=(600, 3600))
        scn = E.scenario_of(prog, cfg, 1, rng.choice(["STANDARD", "STANDARD", "EXPRESS"]))
        scn["machines"]["m"]["family"] = fam
        mo = E.model_for(scn)
        why = E.flags_block(mo) or mo.unsupported
        return (seed, scn, mo, fam) if not why else (seed, None, None, fam)
    sizes = dict(E.GM.SIZES[tier])
    prof = dict(E.GM.PROFILES[E.FAMILIES[fam]["profile"]])
    prof.update(E.FAMILIES[fam]["over"])
    if fam == "retry_fanout1":
        sizes.update(depth=1, fan=1, items=1)
    elif "fail_levels" in E.FAMILIES[fam]["over"]:
        sizes["depth"] = 1
    for _ in range(30):
        prog = E.GM.generate(rng, prof, sizes, with_timeout=0.15)
        if fam == "retry_fanout1":
            prog["input"]["items"] = prog["input"]["items"][:1]
        cfg = E.swarm_config(rng, POLICIES, ttls=(600, 3600))
        scn = E.scenario_of(prog, cfg, 1, rng.choice(["STANDARD", "STANDARD", "EXPRESS"]))
        scn["machines"]["m"]["family"] = fam
        mo = E.model_for(scn)
        why = E.classify(mo, allow_handled=True, definition=prog["definition"])
        if why is None and (fam != "retry_fanout1" or not has_siblings(prog["definition"], prog["input"])):
            return seed, scn, mo, fam
    return seed, None, None, fam


def has_siblings(defn, inp):
    """retry_fanout1 keeps fan-outs to one branch / one item so that no sibling is in flight at a failure."""
    for st in defn["States"].values():
        if st.get("Type") == "Parallel" and len(st.get("Branches", [])) > 1:
            return True
    return False


def run_one(item, extra):
    if isinstance(item, tuple) and item[0] == "probe":
        return run_probe(item[1])
    seed, scn, mo, fam = gen(item, extra["tier"])
    if scn is None:
        return {"evaluations": 1, "probes": {"no-acceptable-program": 1}, "findings": [], "distinct": []}
    lr = random.Random(seed ^ 0x10907)
    if lr.random() < 0.25 and scn["config"].get("transport", "asyncio") == "asyncio":
        # what a loggingConfiguration sends to the log about a failed attempt must not touch the error handling
        from checks import c11
        scn["machines"]["m"]["logging"] = json.loads(json.dumps(lr.choice(c11.LOGGING)))
    return check(scn, seed, mo, fam)


def check(scn, seed, mo=None, fam="replay"):
    if mo is None:
        mo = E.model_for(scn)
    if mo.unsupported or mo.status is None or (fam != "probe" and E.flags_block(mo)):
        # (a shrunk scenario may leave what the reference model supports: nothing can be judged then)
        return {"evaluations": 1, "probes": {"skipped:unsupported": 1}, "findings": [], "distinct": []}
    mon = RetryCountMonitor()
    res = run_scenario(scn, seed, monitors=[mon], horizon=scn["config"].get("execution_ttl", 600) + 800)
    arn = res.exec_arns.get("e1")
    term = res.terminal(arn) if arn else None
    findings = [f for f in res.findings if f["property"] == PROP]
    probes = {"family:" + fam: 1, "policy:" + scn["config"]["policy"]: 1, "events-with-retrycount": mon.seen}
    exact = scn["config"].get("latency", "zero") == "zero"
    retries = sum(1 for x in mo.transitions if x[1] == "retry")
    catches = sum(1 for x in mo.transitions if x[1] == "caught")
    probes["model-retries"] = retries
    probes["model-catches"] = catches
    if any(x[1] == "retry" for x in mo.transitions) and not any(True for _ in ()):
        pass
    if mo.flags.fanout_handled:
        probes["fanout-state-retried-or-caught"] = 1
    timing_sensitive = not exact and "TimeoutSeconds" in json.dumps(scn["machines"]["m"]["definition"])
    if timing_sensitive:
        probes["compare-skipped:latency-with-timeouts"] = 1
    else:
        diff = E.compare_outcome(mo, term)
        if diff:
            findings.append({"property": PROP, "rule": "outcome-mismatch", "witness": None, "detail": diff})
        else:
            t0 = timing.start_time(res, "e1")
            # with a failing fan-out which sibling requests were still issued depends on the schedule
            # (under the zero-latency schedule the model knows which sibling requests still went out: those before the
            # failure; requests that coincide with the failure are left open)
            decided = exact and not mo.flags.tie and not mo.flags.cancel_tie
            for rule, detail in timing.compare_instants(mo, res, arn, t0, exact,
                                                        requests=not mo.flags.fanout_failures or decided):
                findings.append({"property": PROP, "rule": rule, "witness": None, "detail": detail})
    if res.sim.errors:
        findings.append({"property": PROP, "rule": "engine-exception", "witness": None,
                         "detail": repr(res.sim.errors[0][:3])})
    E.attach_replay(findings, scn, seed, res)
    sample = {"family": fam, "retries": retries, "catches": catches, "requests": [
        (round(r["t_pub"] - EPOCH, 3), r["fn"]) for r in res.world.workers.requests][:10], "model": mo.status}
    return common.summarize_run(res, PROP, findings, retries + catches > 0, sample, probes,
                                common.sha([scn["machines"], scn["script"], scn["executions"]]))


PROBES = {
    "one-retry-counter-shared-by-all-retriers": dict(
        d={"StartAt": "T", "States": {"T": {"Type": "Task", "Resource": E.GM.FN_ARN + "f", "Retry": [
            {"ErrorEquals": ["E.A"], "IntervalSeconds": 1, "MaxAttempts": 2, "BackoffRate": 1.0},
            {"ErrorEquals": ["E.B"], "IntervalSeconds": 1, "MaxAttempts": 2, "BackoffRate": 1.0}], "End": True}}},
        inp={}, script={"f": [{"err": "E.A"}, {"err": "E.A"}, {"err": "E.B"}, {"err": "E.B"}, {"ok": {"op": "echo"}}]},
        expect=("outcome-mismatch", "request-count")),
    "retrycount-leaks-from-branch-task-into-its-map": dict(
        d={"StartAt": "M", "States": {"M": {"Type": "Map", "ItemsPath": "$.items", "Iterator": {"StartAt": "T", "States": {
            "T": {"Type": "Task", "Resource": E.GM.FN_ARN + "f", "Retry": [
                {"ErrorEquals": ["E.B"], "MaxAttempts": 2, "IntervalSeconds": 1, "BackoffRate": 1.0}], "End": True}}},
            "Retry": [{"ErrorEquals": ["E.B"], "MaxAttempts": 2, "IntervalSeconds": 1, "BackoffRate": 1.0}], "End": True}}},
        inp={"items": [1]}, script={"f": [{"err": "E.B"}, {"err": "E.B"}, {"err": "E.B"}, {"ok": {"op": "echo"}}]},
        expect=("outcome-mismatch", "request-count")),
    "states-taskfailed-matches-every-error": dict(
        d={"StartAt": "T", "States": {"T": {"Type": "Task", "Resource": E.GM.FN_ARN + "f", "TimeoutSeconds": 1, "Catch": [
            {"ErrorEquals": ["States.TaskFailed"], "ResultPath": "$.e", "Next": "H"}], "End": True},
            "H": {"Type": "Pass", "Result": 1, "ResultPath": "$.h", "End": True}}},
        inp={}, script={"f": [{"noreply": True}]}, expect=("outcome-mismatch",)),
}


def run_probe(name):
    p = PROBES[name]
    scn = {"machines": {"m": {"definition": p["d"], "type": "STANDARD", "family": "probe"}},
           "executions": [{"machine": "m", "input": p["inp"], "name": "e1"}], "script": p["script"],
           "functions": sorted(p["script"]), "config": {"policy": "canonical", "latency": "zero", "execution_ttl": 600}}
    r = check(scn, 1, None, "probe")
    hit = [f for f in r["findings"] if f["rule"] in p["expect"]]
    out = []
    if hit:
        f = dict(hit[0])
        f["rule"] = "policy-mismatch"
        f["witness"] = "probe:" + name
        out.append(f)
    for f in r["findings"]:
        if f["rule"] not in p["expect"]:
            f = dict(f)
            f["detail"] = "probe %s: %s" % (name, f["detail"])
            out.append(f)
    r["findings"] = out
    r["distinct"] = []
    r["probes"] = {"probe:" + name: 1}
    return r


def main(argv):
    if len(argv) > 1 and argv[0] == "--replay":
        with open(argv[1]) as f:
            rec = json.load(f)
        r = check(rec["scenario"], rec["seed"])
        same = [f for f in r["findings"] if f["rule"] == rec["rule"]]
        print("replay %s: %s" % (argv[1], "REPRODUCED rule=%s%s" % (rec["rule"], common.digest_note(rec, same)) if same else "not reproduced"))
        return 1 if same else 0
    tier = common.tier()
    n = 3000 if tier == "quick" else 150000
    rep = common.Report(PROP)
    from checks import minimise as _MIN
    rep.minimiser = lambda f: _MIN.scenario(f, lambda scn, seed: check(scn, seed)) if f.get('kind', 'generated') == 'generated' else f
    items = [("probe", k) for k in sorted(PROBES)] + list(range(n))
    for r in common.run_batch("checks.c07", "run_one", items, {"tier": tier}):
        rep.absorb(r)
    return rep.finish(
        rule="generated retrier/catcher lists (0-3 each; ErrorEquals over custom names, States.Timeout, States.ALL; "
             "IntervalSeconds 1-3, MaxAttempts 0-4, BackoffRate 1.0-3.0; catcher ResultPath) x scripted error sequences "
             "(1-4 errors then success or not, time-outs) on Task states and on single-branch/single-item Parallel/Map "
             "states, plus two hand-shaped families: a Map with MaxConcurrency batches whose failing item sits in any "
             "batch (the Map's retry progress has to survive the re-entries), and a Parallel whose failing branch has "
             "siblings still waiting (their Task.Terminated must not be retried or caught), run on the virtual clock; zero-latency runs: every task request instant and the terminal instant "
             "equal the reference model's within 2 ms; latency runs: never earlier; final status/output/error equal "
             "the model's; RetryCount never published in the event of a state without Retry; non-trivial = the model "
             "performs at least one retry or catch; distinct = distinct (program, script) hashes",
        assumptions=["reference error-handling model: per-retrier attempt counters as in the specification's example",
                     "States.TaskFailed in ErrorEquals is generated only where every reading agrees (see probe)"])


if __name__ == "__main__":
    sys.exit(main(sys.argv[1:]))
