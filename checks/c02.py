"""
C02 - every execution ends exactly once and its terminal record never changes.

Sequential machines, concurrent machines whose branches succeed, and concurrent
machines with a single unhandled branch failure, 1-4 executions at a time,
under seeded non-canonical schedules; notification-sequence monitor, record
invariants polled after every scheduler step, bounded liveness once the run is
quiescent (no faults are injected here; C04 owns crashes).
"""
import json
import random
import sys

from checks import common
from checks import engine as E
from lsfsim.runner import run_scenario
from monitors.basic import NotifyMonitor, RecordMonitor

PROP = "C02"
FAMILIES = ["sequential", "sequential", "fanout_ok", "fanout_ok", "fanout_fail", "general"]
POLICIES = ["shuffle", "pct", "latency-small", "latency-heavy", "ties", "canonical"]


def make(i, tier):
    seed = common.run_seed(i)
    rng = random.Random(seed)
    cfg = E.swarm_config(rng, POLICIES, ttls=(600, 3600), max_nodes=2, stores=("file", "file", "redis"),
                         transports=("asyncio", "asyncio", "blocking"))
    if cfg["store"] == "file":
        cfg["nodes"] = 1      # the file-backed configuration is a single-instance one (records live in memory)
    scn, models, skipped = E.gen_multi(rng, FAMILIES, tier, 4, cfg)
    for ex in scn["executions"]:
        # some executions are started the "low-level" way: a client publishes the start event to the shared queue,
        # with or without an AMQP message id of its own
        r = rng.random()
        if r < 0.2:
            ex["via"] = "raw" if r < 0.1 else "raw-noid"
    if scn["executions"] and rng.random() < 0.08:
        # two byte-identical anonymous start events (same machine, same input, no name, no message id) at one instant
        ex = dict(scn["executions"][0], via="raw-anon", name=None)
        twin = dict(ex)
        scn["executions"][0] = ex
        scn["executions"].append(twin)
    from checks import c11
    c11.add_logging(random.Random(seed ^ 0x102), scn, 0.3)     # (what is logged must not get in the way of the end)
    return seed, scn, models, skipped


F = "arn:aws:rpcmessage:local::function:"


def make_long(i):
    """Executions that last about as long as, or longer than, execution_ttl (the TTL of the stored record and the
    default execution time-out): the end must still come exactly once, whatever has expired meanwhile."""
    seed = common.run_seed(7000000 + i)
    rng = random.Random(seed)
    ttl = rng.choice([5, 20, 60])
    d = rng.choice([ttl - 1, ttl, ttl + 1, 2 * ttl, 3 * ttl + 2])
    shape = rng.choice(["wait", "task", "parallel", "map", "two-waits"])
    after = {"Type": "Pass", "Result": "done", "ResultPath": "$.after", "End": True}
    if shape == "wait":
        states = {"A": {"Type": "Wait", "Seconds": d, "Next": "Z"}, "Z": after}
    elif shape == "two-waits":
        states = {"A": {"Type": "Wait", "Seconds": d // 2 + 1, "Next": "B"}, "B": {"Type": "Wait", "Seconds": d // 2 + 1, "Next": "Z"},
                  "Z": after}
    elif shape == "task":
        states = {"A": {"Type": "Task", "Resource": F + "slow", "ResultPath": "$.r", "Next": "Z"}, "Z": after}
    elif shape == "parallel":
        states = {"A": {"Type": "Parallel", "ResultPath": "$.r", "Next": "Z", "Branches": [
            {"StartAt": "W", "States": {"W": {"Type": "Wait", "Seconds": d, "End": True}}},
            {"StartAt": "T", "States": {"T": {"Type": "Task", "Resource": F + "quick", "End": True}}}]}, "Z": after}
    else:
        states = {"A": {"Type": "Map", "ItemsPath": "$.items", "MaxConcurrency": rng.choice([0, 1]), "ResultPath": "$.r",
                        "Next": "Z", "ItemProcessor": {"StartAt": "T", "States": {
                            "T": {"Type": "Task", "Resource": F + "slow", "End": True}}}}, "Z": after}
    definition = {"StartAt": "A", "States": states}
    limit = rng.choice([None, None, 4 * ttl + 10, d + 1, d])
    if limit is not None:
        definition["TimeoutSeconds"] = limit
    if rng.random() < 0.3:
        states["Z"] = {"Type": "Fail", "Error": "E.End", "Cause": "the end"}
    cfg = E.policy_cfg(rng.choice(["canonical", "shuffle", "latency-small", "ties"]))
    cfg.update(store=rng.choice(["redis", "redis", "file"]), transport=rng.choice(["asyncio", "blocking"]),
               execution_ttl=ttl, nodes=1, tz=rng.choice(["UTC0", "SIM-05:30"]))
    if cfg["store"] == "redis" and rng.random() < 0.4:
        cfg["nodes"] = 2
    n = rng.choice([1, 1, 2])
    scn = {"machines": {"m": {"definition": definition, "type": rng.choice(["STANDARD", "STANDARD", "EXPRESS"])}},
           "executions": [{"machine": "m", "input": {"items": [1, 2], "k": k}, "name": "e%d" % k, "at": 0.5 * k,
                           "node": rng.randint(0, 1)} for k in range(n)],
           "script": {"slow": [{"ok": {"op": "wrap"}, "delay": float(d if shape != "map" else max(1, d // 2))}],
                      "quick": [{"ok": {"op": "tag"}, "delay": 1.0}]},
           "functions": ["quick", "slow"], "config": cfg}
    if rng.random() < 0.12:
        # a synchronous (StartSyncExecution) EXPRESS execution that outlasts the front end's own waiting limit of half an
        # hour: the caller is answered at the limit, the execution still ends once, when it ends
        d = rng.choice([1795, 1800, 1801, 2400])
        cfg.update(execution_ttl=3600, transport="asyncio", nodes=1)
        definition = {"StartAt": "A", "States": {"A": {"Type": "Wait", "Seconds": d, "Next": "Z"}, "Z": after}}
        scn = {"machines": {"m": {"definition": definition, "type": "EXPRESS"}},
               "executions": [{"machine": "m", "input": {"k": 0}, "name": "s0", "at": 0.0, "via": "sync"}],
               "script": {}, "functions": [], "config": cfg}
    return seed, scn


def make_child(i):
    """Parent executions that launch child executions (every launch form) whose own deadline, failure or slowness
    ends them while the parent waits, times out first, or catches: parent and child must each end exactly once."""
    from checks import c15 as C15
    seed = common.run_seed(9000000 + i)
    rng = random.Random(seed)
    d = rng.choice([2, 3, 5])
    ckind = rng.choice(["deadline-wait", "deadline-task", "deadline-parallel", "deadline-map", "ok", "fail", "slow"])
    if ckind in C15.CHILDREN:
        cdef = json.loads(json.dumps(C15.CHILDREN[ckind][0]))
    elif ckind == "deadline-wait":
        cdef = {"StartAt": "W", "States": {"W": {"Type": "Wait", "Seconds": d + rng.choice([0, 1, 4]), "Next": "P"},
                                           "P": {"Type": "Pass", "End": True}}}
    elif ckind == "deadline-task":
        cdef = {"StartAt": "T", "States": {"T": {"Type": "Task", "Resource": F + "cslow", "End": True}}}
    elif ckind == "deadline-parallel":
        cdef = {"StartAt": "A", "States": {"A": {"Type": "Parallel", "End": True, "Branches": [
            {"StartAt": "W", "States": {"W": {"Type": "Wait", "Seconds": d + 2, "End": True}}},
            {"StartAt": "T", "States": {"T": {"Type": "Task", "Resource": F + "cwork", "End": True}}}]}}}
    else:
        cdef = {"StartAt": "A", "States": {"A": {"Type": "Map", "ItemsPath": "$.items", "MaxConcurrency": rng.choice([0, 1]),
                                                 "End": True, "ItemProcessor": {"StartAt": "W", "States": {
                                                     "W": {"Type": "Wait", "Seconds": d - 1, "Next": "T"},
                                                     "T": {"Type": "Task", "Resource": F + "cwork", "End": True}}}}}}
    if ckind.startswith("deadline") or rng.random() < 0.3:
        cdef["TimeoutSeconds"] = d
    form = rng.choice(["async", "sync", "sync", "sync2", "sync2", "sdk"])
    placement = rng.choice(["top", "top", "parallel", "map"])
    ctype = "EXPRESS" if form == "sdk" else rng.choice(["STANDARD", "STANDARD", "EXPRESS"])
    ptype = "STANDARD" if form in ("sync", "sync2") else rng.choice(["STANDARD", "EXPRESS"])
    ptimeout = rng.choice([None, None, d - 1, d, d + 2]) if form != "async" else None
    pdef = C15.parent_machine(form, placement, ptimeout, rng.random() < 0.5)
    if ckind == "deadline-map":
        for st in _all_states(pdef):
            if isinstance(st.get("Parameters"), dict) and "StateMachineArn" in st["Parameters"]:
                st["Parameters"]["Input"] = {"k.$": "$.k", "items": [1, 2, 3]}
    cfg = E.policy_cfg(rng.choice(["canonical", "shuffle", "pct", "latency-small", "ties"]))
    cfg.update(store=rng.choice(["file", "file", "redis"]), transport=rng.choice(["asyncio", "asyncio", "blocking"]),
               execution_ttl=rng.choice([60, 600]), nodes=1, tz=rng.choice(["UTC0", "SIM-05:30"]))
    if cfg["store"] == "redis" and rng.random() < 0.4:
        cfg["nodes"] = 2
    inp = {"k": 7, "items": [1, 2]} if placement == "map" else {"k": 7}
    script = {"cwork": [{"ok": {"op": "wrap"}, "delay": rng.choice([0.5, 2.0])}], "cwork2": [{"ok": {"op": "tag"}, "delay": 1.0}],
              "cslow": [{"ok": {"op": "wrap"}, "delay": float(d + rng.choice([-1, 0, 1, 3]))}]}
    n = rng.choice([1, 1, 2])
    scn = {"machines": {"child": {"definition": cdef, "type": ctype}, "parent": {"definition": pdef, "type": ptype}},
           "executions": [{"machine": "parent", "input": inp, "name": "p%d" % k, "at": 0.5 * k, "node": rng.randint(0, 1)}
                          for k in range(n)],
           "script": script, "functions": sorted(script), "config": cfg}
    return seed, scn, "%s/%s/%s" % (form, ckind, placement)


def _all_states(machine):
    for st in (machine.get("States") or {}).values():
        yield st
        for sub in list(st.get("Branches") or []) + [st[k] for k in ("ItemProcessor", "Iterator") if isinstance(st.get(k), dict)]:
            for x in _all_states(sub):
                yield x


def run_child(i, extra):
    seed, scn, label = make_child(i)
    r = check(scn, seed)
    r.setdefault("probes", {})["child-launch:runs"] = 1
    r["probes"]["child-launch:" + label.split("/")[0]] = 1
    r["probes"]["child-kind:" + label.split("/")[1]] = 1
    return r


def run_jump(i, extra):
    """The host's wall clock is stepped forwards or backwards (once or twice) while executions run: deadlines computed
    afterwards move with it, so an execution may time out or wait longer - but each still ends exactly once."""
    seed = common.run_seed(9300000 + i)
    rng = random.Random(seed)
    cfg = E.swarm_config(rng, POLICIES, ttls=(600, 3600), max_nodes=1, stores=("file", "file", "redis"),
                         transports=("asyncio", "asyncio", "blocking"))
    scn, models, skipped = E.gen_multi(rng, ["sequential", "fanout_ok", "general", "timing", "timing_fanout"], extra["tier"], 3, cfg)
    scn["faults"] = [{"kind": "clock-jump", "at": rng.choice([0.2, 0.7, 1.1, 1.6, 2.4, 3.5]),
                      "delta": rng.choice([-40.0, -7.5, -2.0, -0.5, 0.5, 2.0, 7.5, 40.0, 700.0])}
                     for _ in range(rng.choice([1, 1, 2]))]
    if rng.random() < 0.3:
        # a Map with MaxConcurrency batches (at top level, in a Parallel branch, in an outer Map) whose later batches
        # are launched after the clock was stepped past the execution deadline
        inner = {"Type": "Map", "ItemsPath": "$.items", "MaxConcurrency": rng.choice([1, 2]), "End": True,
                 "ItemProcessor": {"StartAt": "W", "States": {"W": {"Type": "Wait", "Seconds": rng.choice([1, 2]), "End": True}}}}
        place = rng.choice(["top", "parallel", "map", "deep", "deep"])
        if place == "deep":
            # fan-outs nested three deep whose innermost Waits all expire at one instant after the clock was stepped
            # past the deadline: several events two and more levels below the state that fails first are in flight
            leaf = {"StartAt": "W", "States": {"W": {"Type": "Wait", "Seconds": 2, "Next": "X"},
                                               "X": {"Type": "Pass", "End": True}}}
            q = rng.choice([{"Type": "Parallel", "End": True, "Branches": [leaf, leaf]},
                            {"Type": "Map", "ItemsPath": "$.items", "End": True, "ItemProcessor": leaf}])
            mid = {"Type": "Parallel", "End": True, "Branches": [{"StartAt": "Q", "States": {"Q": q}},
                                                                 {"StartAt": "Q2", "States": {"Q2": q}}]}
            d = {"StartAt": "O", "States": {"O": {"Type": "Map", "ItemsPath": "$.groups", "End": True, "ItemProcessor": {
                "StartAt": "P", "States": {"P": mid}}}}}
        elif place == "top":
            d = {"StartAt": "M", "States": {"M": inner}}
        elif place == "parallel":
            d = {"StartAt": "P", "States": {"P": {"Type": "Parallel", "End": True, "Branches": [
                {"StartAt": "M", "States": {"M": inner}},
                {"StartAt": "T", "States": {"T": {"Type": "Task", "Resource": F + "slow", "End": True}}}]}}}
        else:
            d = {"StartAt": "O", "States": {"O": {"Type": "Map", "ItemsPath": "$.groups", "End": True, "ItemProcessor": {
                "StartAt": "M", "States": {"M": inner}}}}}
        scn = {"machines": {"jm": {"definition": d, "type": rng.choice(["STANDARD", "EXPRESS"])}},
               "executions": [{"machine": "jm", "input": {"items": [1, 2, 3, 4], "groups": [{"items": [1, 2, 3]}, {"items": [4, 5]}]},
                               "name": "j1", "at": 0.0}],
               "script": {"slow": [{"noreply": True}]}, "functions": ["slow"], "config": cfg,
               "faults": [{"kind": "clock-jump", "at": rng.choice([0.5, 1.5, 2.5, 3.5]), "delta": float(cfg["execution_ttl"] + 100)}]}
        skipped = None
    r = check(scn, seed, None, skipped)
    r.setdefault("probes", {})["clock-jump:runs"] = 1
    return r


def run_long(i, extra):
    seed, scn = make_long(i)
    r = check(scn, seed)
    r.setdefault("probes", {})["outlives-ttl:runs"] = 1
    r["probes"]["outlives-ttl:store=" + scn["config"]["store"]] = 1
    return r


def run_one(i, extra):
    seed, scn, models, skipped = make(i, extra["tier"])
    return check(scn, seed, models, skipped)


def check(scn, seed, models=None, skipped=None):
    probes = {}
    for k, v in (skipped or {}).items():
        probes["regenerated:" + k] = v
    if not scn["executions"]:
        return {"evaluations": 1, "probes": {"empty": 1}, "findings": [], "distinct": []}
    mons = [NotifyMonitor("C02"), RecordMonitor("C02")]
    ttl = scn["config"].get("execution_ttl", 86400)
    res = run_scenario(scn, seed, monitors=mons, horizon=ttl + 800)
    # C11-tagged findings of these monitors belong to C11's check
    findings = [f for f in res.findings if f["property"] == PROP]
    for name, mo in (models or {}).items():
        probes["model:" + (mo.status or "?")] = probes.get("model:" + (mo.status or "?"), 0) + 1
        if mo.flags.fanout_failures:
            probes["single-branch-failure"] = probes.get("single-branch-failure", 0) + 1
    probes["executions"] = len(scn["executions"])
    probes["record-polls"] = mons[1].polls
    probes["policy:" + scn["config"]["policy"] + "/" + str(scn["config"]["latency"])] = 1
    if res.sim.errors:
        findings.append({"property": PROP, "rule": "engine-exception", "witness": None,
                         "detail": repr(res.sim.errors[0][:3]), "step": None, "t": None})
    E.attach_replay(findings, scn, seed, res)
    sample = {"executions": len(scn["executions"]), "policy": scn["config"]["policy"],
              "notifications": [(round(e["t"] - res.sim.epoch, 3), e["body"]["detail"]["name"],
                                 e["body"]["detail"]["status"]) for e in res.world.subscriber.events][:12]}
    return common.summarize_run(res, PROP, findings, True, sample, probes, E.nontrivial_hash(scn, res))


def main(argv):
    if len(argv) > 1 and argv[0] == "--replay":
        return replay(argv[1])
    tier = common.tier()
    n = 2500 if tier == "quick" else 100000
    rep = common.Report(PROP)
    from checks import minimise as _MIN
    rep.minimiser = lambda f: _MIN.scenario(f, lambda scn, seed: check(scn, seed))
    for r in common.run_batch("checks.c02", "run_one", range(n), {"tier": tier}):
        rep.absorb(r)
    for r in common.run_batch("checks.c02", "run_long", range(600 if tier == "quick" else 20000), {"tier": tier}):
        rep.absorb(r)
    for r in common.run_batch("checks.c02", "run_child", range(600 if tier == "quick" else 20000), {"tier": tier}):
        rep.absorb(r)
    for r in common.run_batch("checks.c02", "run_jump", range(400 if tier == "quick" else 16000), {"tier": tier}):
        rep.absorb(r)
    return rep.finish(
        rule="1-4 concurrent executions of independently generated machines (families %s) per simulated run, started "
             "through the real StartExecution handler on 1-2 engine instances, under a seeded schedule policy "
             "(%s); per execution the notification sequence must be RUNNING then exactly one terminal, the record "
             "invariants are polled after every scheduler step, and every started execution must be terminal when the "
             "run is quiescent; a second slice runs executions that last about as long as or longer than execution_ttl "
             "(Wait / slow Task / Parallel / Map, machine TimeoutSeconds below, at or above the duration; file and "
             "Redis stores, where the stored record expires under the running execution); a third slice starts parents that launch child executions in every launch form (async, .sync, .sync:2, aws-sdk startSyncExecution; top level, in a Parallel branch, in a Map iterator) whose children end by their own TimeoutSeconds inside a Wait / slow Task / Parallel / Map, fail, or outlive the parent's Task time-out - parent and child alike must end exactly once; a fourth slice steps the host's wall clock forwards/backwards once or twice during the run (exactly-once end and liveness only); executions the reference model places in C06's families (several or handled branch "
             "failures, nested failures) are regenerated; distinct = distinct (scenario, interleaving) hashes" % (
                 sorted(set(FAMILIES)), ", ".join(POLICIES)),
        assumptions=["no crash/restart faults (C04); one slice steps the wall clock (+-0.5 .. 40 s, +700 s) while executions run", "file store with one instance, Redis store with 1-2 instances, both transports", "legal schedules only: per-queue FIFO, timers never early"])


def replay(path):
    with open(path) as f:
        rec = json.load(f)
    r = check(rec["scenario"], rec["seed"])
    same = [f for f in r["findings"] if f["rule"] == rec["rule"]]
    print("replay %s: %s" % (path, "REPRODUCED rule=%s%s" % (rec["rule"], common.digest_note(rec, same)) if same else "not reproduced"))
    return 1 if same else 0


if __name__ == "__main__":
    sys.exit(main(sys.argv[1:]))
