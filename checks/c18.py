"""
C18 - validator-accepted machines run; uninterpretable ones hurt only themselves.

Well-formed machines (corpus + generated) are mutated (drop / rename / retarget
/ retag fields and states, wrong JSON types, names duplicated across nesting
levels) or replaced by arbitrary JSON values.  Each mutant is (1) given to the
bundled validator, which must return a list of problems and never raise, and
(2) stored and started beside a healthy execution under a seeded schedule,
together with arbitrary bytes / JSON values published as events on the shared
queue.  No problems reported => the execution never fails for being an
"Illegal State Machine"; in every case a mutant that reported RUNNING reaches a
terminal status, every poison event is acknowledged, the engine keeps serving,
the healthy execution produces the reference model's output and a third
execution started afterwards completes.
"""
import copy
import json
import random
import sys

from checks import common
from checks import engine as E
from gen import corpus
from lsfsim.core import EPOCH
from lsfsim.peers import NativeChannel, Props
from lsfsim.runner import run_scenario
from monitors.basic import NotifyMonitor

PROP = "C18"
F = "arn:aws:rpcmessage:local::function:"
HEALTHY = {"StartAt": "A", "States": {"A": {"Type": "Task", "Resource": F + "hf1", "ResultPath": "$.a", "Next": "W"},
                                      "W": {"Type": "Wait", "Seconds": 2, "Next": "B"},
                                      "B": {"Type": "Task", "Resource": F + "hf2", "ResultPath": "$.b", "End": True}}}
HEALTHY_SCRIPT = {"hf1": [{"ok": {"op": "tag"}, "delay": 1.0}], "hf2": [{"ok": {"op": "tag"}, "delay": 1.0}]}
GARBAGE_VALUES = [5, "x", [], {}, None, True, [1, 2], {"States": 3}, {"StartAt": "A"}, {"StartAt": "A", "States": {}},
                  {"StartAt": "A", "States": {"A": 1}}, {"StartAt": 7, "States": {"A": {"Type": "Pass", "End": True}}},
                  {"StartAt": "A", "States": {"A": {"Type": "Pass"}}}, {"StartAt": "A", "States": {"A": {"End": True}}},
                  {"StartAt": "A", "States": {"A": {"Type": "Parallel", "Branches": [], "End": True}}},
                  {"StartAt": "A", "States": {"A": {"Type": "Map", "End": True}}}]
POISON_BODIES = [b"", b"not json", b"\xff\xfe\x00", b"5", b'"str"', b"[]", b"{}", b'{"context": 5}',
                 b'{"data": {}, "context": {}}', b'{"data": {}, "context": {"StateMachine": {}}}',
                 b'{"data": {}, "context": {"StateMachine": {"Id": "arn:aws:states:local:0123456789:stateMachine:nonexistent"}}}',
                 b'{"data": {}, "context": {"StateMachine": {"Id": "not an arn"}}}',
                 b'{"data": 1, "context": {"StateMachine": {"Id": "arn:aws:states:local:0123456789:stateMachine:healthy"}, "State": {"Name": "NoSuchState"}, "Execution": {"Id": "arn:aws:states:local:0123456789:execution:healthy:ghost", "Name": "ghost", "StartTime": "2023-11-14T22:13:20+00:00", "Input": {}}}}',
                 b'{"data": {}, "context": {"StateMachine": {"Id": "arn:aws:states:local:0123456789:stateMachine:healthy"}, "State": {"Name": "A", "EnteredTime": "garbage"}, "Execution": {"Id": "arn:aws:states:local:0123456789:execution:healthy:ghost2", "Name": "ghost2", "StartTime": "garbage", "Input": {}}}}']


def paths(node, path=()):
    out = [(path, node)]
    if isinstance(node, dict):
        for k, v in node.items():
            out.extend(paths(v, path + (k,)))
    elif isinstance(node, list):
        for i, v in enumerate(node):
            out.extend(paths(v, path + (i,)))
    return out


def get(root, path):
    for p in path:
        root = root[p]
    return root


def state_names(d):
    return [p[-1] for p, v in paths(d) if len(p) >= 2 and p[-2] == "States" and isinstance(v, dict)]


def rename_state(mach, old_nm, nm):
    """Rename a state of one (sub) machine and everything in that machine that refers to it."""
    tgt = mach["States"]
    tgt[nm] = tgt.pop(old_nm)
    if mach.get("StartAt") == old_nm:
        mach["StartAt"] = nm
    for st in tgt.values():
        if isinstance(st, dict):
            for k in ("Next", "Default"):
                if st.get(k) == old_nm:
                    st[k] = nm
            for c in (st.get("Choices") or []) + (st.get("Catch") or []):
                if isinstance(c, dict) and c.get("Next") == old_nm:
                    c["Next"] = nm


FIELD_NAMES = ["Result", "Parameters", "ItemSelector", "ResultSelector", "Next", "Default", "Branches", "Iterator",
               "ItemProcessor", "Catch", "Retry", "Choices", "End", "InputPath", "ResultPath", "OutputPath", "Resource",
               "Comment", "StartAt"]
ODD_NAMES = ["a.b", "x[0]", "*", "n.m.o", "$.x", "..", "a b", "it's", "Say \"hi\"", "?(@)", "[*]", "Type", "Result", "States",
             "é", "0"]


def mutate(rng, d):
    d = copy.deepcopy(d)
    kind = rng.choice(["drop", "drop", "rename-state", "retarget", "retag", "wrong-type", "dup-name", "dup-name", "dup-name", "odd-name", "odd-name", "unreachable",
                       "empty-branches", "swap-end-next", "field-named-dangling", "field-named-dangling", "odd-string", "odd-string"])
    ps = paths(d)
    try:
        if kind == "drop":
            cand = [p for p, v in ps if p and isinstance(get(d, p[:-1]), dict)]
            p = rng.choice(cand)
            del get(d, p[:-1])[p[-1]]
        elif kind == "rename-state":
            cand = [p for p, v in ps if len(p) >= 2 and p[-2] == "States"]
            p = rng.choice(cand)
            par = get(d, p[:-1])
            par[p[-1] + "_renamed"] = par.pop(p[-1])
        elif kind == "retarget":
            cand = [p for p, v in ps if p and p[-1] in ("Next", "Default", "StartAt")]
            p = rng.choice(cand)
            get(d, p[:-1])[p[-1]] = rng.choice(state_names(d) + ["Nowhere", "", 5])
        elif kind == "retag":
            cand = [p for p, v in ps if p and p[-1] == "Type"]
            p = rng.choice(cand)
            get(d, p[:-1])["Type"] = rng.choice(["Pass", "Task", "Choice", "Wait", "Succeed", "Fail", "Parallel", "Map",
                                                  "Bogus", "pass", 3])
        elif kind == "wrong-type":
            cand = [p for p, v in ps if p]
            p = rng.choice(cand)
            par = get(d, p[:-1])
            par[p[-1]] = rng.choice([5, "str", [], {}, None, True, [1], {"a": 1}])
        elif kind == "dup-name":
            names = state_names(d)
            subs = [p for p, v in ps if p and p[-1] == "States" and len(p) > 1]
            if not subs:
                raise IndexError
            p = rng.choice(subs)
            if len(subs) >= 2 and rng.random() < 0.6:
                # a state of one nested machine takes the name of a state of ANOTHER nested machine (sibling branches,
                # a branch and an iterator elsewhere, ...): the renamed state stays reachable, its references follow
                q = rng.choice([x for x in subs if x != p])
                nm = rng.choice(sorted(get(d, q).keys()))
                tgt = get(d, p)
                old_nm = rng.choice(sorted(tgt.keys()))
                if nm not in tgt:
                    tgt[nm] = tgt.pop(old_nm)
                    mach = get(d, p[:-1])
                    if mach.get("StartAt") == old_nm:
                        mach["StartAt"] = nm
                    for st in tgt.values():
                        if isinstance(st, dict):
                            for k in ("Next", "Default"):
                                if st.get(k) == old_nm:
                                    st[k] = nm
                            for c in (st.get("Choices") or []) + (st.get("Catch") or []):
                                if isinstance(c, dict) and c.get("Next") == old_nm:
                                    c["Next"] = nm
                    kind = "dup-name+sibling"
            else:
                nm = rng.choice([n for n in d["States"].keys()])
                get(d, p)[nm] = {"Type": "Pass", "End": True}
        elif kind == "odd-name":
            # legal state names that are awkward for anything that builds queries or keys out of them; still unique and
            # still reachable, so the machine stays as valid as it was. Sometimes a payload gets a key of that name too.
            conts = [p for p, v in ps if p and p[-1] == "States" and isinstance(v, dict) and v] + [("States",)]
            p = rng.choice(conts)
            mach = get(d, p[:-1]) if len(p) > 1 else d
            old_nm = rng.choice(sorted(mach["States"].keys()))
            nm = rng.choice(ODD_NAMES)
            if nm in state_names(d):
                raise IndexError
            rename_state(mach, old_nm, nm)
            if rng.random() < 0.3:
                d["States"]["Xtra"] = {"Type": "Pass", "Result": {nm: {"Type": "Pass"}}, "ResultPath": "$.xtra", "Next": d["StartAt"]}
                d["StartAt"] = "Xtra"
        elif kind == "field-named-dangling":
            # a state that bears the name of a FIELD of the language (legal: state names are free text) and whose own
            # transition dangles: the name must not make the validator look away
            conts = [p for p, v in ps if p and p[-1] == "States" and isinstance(v, dict) and v] + [("States",)]
            p = rng.choice(conts)
            mach = get(d, p[:-1]) if len(p) > 1 else d
            cand = [n for n, st in mach["States"].items() if isinstance(st, dict) and ("Next" in st or "Default" in st)]
            old_nm = rng.choice(sorted(cand))
            nm = rng.choice(FIELD_NAMES)
            if nm in state_names(d):
                raise IndexError
            rename_state(mach, old_nm, nm)
            st = mach["States"][nm]
            st["Next" if "Next" in st else "Default"] = "Nowhere"
        elif kind == "odd-string":
            # string-valued fields with strings their grammar does not allow (empty, malformed timestamps / paths / ARNs)
            cand = [p for p, v in ps if p and isinstance(v, str) and p[-1] not in ("Type", "Comment")]
            p = rng.choice(cand)
            get(d, p[:-1])[p[-1]] = rng.choice(["", " ", "2023-13-45T99:99:99Z", "T", "$", "$.", "$$", "arn:", "\u0000", "Z", "-"])
        elif kind == "unreachable":
            d["States"]["Orphan"] = {"Type": "Pass", "End": True}
        elif kind == "empty-branches":
            cand = [p for p, v in ps if p and p[-1] == "Branches"]
            p = rng.choice(cand)
            get(d, p[:-1])["Branches"] = []
        else:
            cand = [p for p, v in ps if isinstance(v, dict) and ("End" in v or "Next" in v) and "Type" in v]
            p = rng.choice(cand)
            st = get(d, p)
            if "End" in st:
                del st["End"]
            else:
                st["End"] = True
    except (IndexError, KeyError, TypeError, AttributeError, ValueError):
        kind = "none"      # (the mutation does not apply to this - possibly already mutated - definition)
    return kind, d


def validate(defn):
    from lsfsim import patches
    from lsfsim.world import REPO_PY
    patches.install(REPO_PY)
    from statelint.statelint import StateLint
    if not hasattr(validate, "lint"):
        validate.lint = StateLint()
    try:
        pr = validate.lint.validate(copy.deepcopy(defn))
    except Exception as e:
        return None, "%s: %s" % (type(e).__name__, e)
    if not isinstance(pr, list):
        return None, "returned %r" % (type(pr).__name__,)
    return pr, None


PROBES = {
    # Hand-written rejected definitions whose top-level shape is fine but which the engine cannot interpret further.
    # Each entry: definition, worker script, input.  The first eight were left RUNNING for ever before the repairs
    # recorded in known_findings.json ("fixed"); they must now end FAILED.  The last two are the recorded findings that
    # remain: the exception is raised in notify() outside the handlers' try blocks (the dispatcher can only drop the
    # event) or in a reply callback, outside every handler that could fail the execution.
    "state-is-not-an-object": ({"StartAt": "A", "States": {"A": 1}}, {}, {}),
    "state-without-type": ({"StartAt": "A", "States": {"A": {"End": True}}}, {}, {}),
    "type-not-a-string": ({"StartAt": "A", "States": {"A": {"Type": 5, "End": True}}}, {}, {}),
    "next-not-a-string": ({"StartAt": "A", "States": {"A": {"Type": "Pass", "Next": {"a": 1}},
                                                      "B": {"Type": "Pass", "End": True}}}, {}, {}),
    "parallel-parameters-unparsable": ({"StartAt": "P", "States": {"P": {
        "Type": "Parallel", "Parameters": {"x.$": "Z"}, "End": True,
        "Branches": [{"StartAt": "B", "States": {"B": {"Type": "Pass", "End": True}}}]}}}, {}, {}),
    "definition-without-states": ({"StartAt": "A"}, {}, {}),
    "definition-without-startat": ({"States": {"A": {"Type": "Pass", "End": True}}}, {}, {}),
    "definition-startat-not-a-string": ({"StartAt": 5, "States": {"5": {"Type": "Pass", "End": True}}}, {}, {}),
    "timeoutseconds-not-a-number": ({"StartAt": "A", "States": {"A": {"Type": "Pass", "End": True}}, "TimeoutSeconds": [1]},
                                    {}, {}),
    "retrier-without-errorequals": ({"StartAt": "A", "States": {"A": {
        "Type": "Task", "Resource": "arn:aws:rpcmessage:local::function:f1", "Retry": [{"IntervalSeconds": 2}],
        "End": True}}}, {"f1": [{"err": "E.X"}]}, {}),
}


def escape_site(res):
    """Where the exception that left a rejected definition's execution RUNNING got out: the outermost engine
    function of the traceback of an exception that escaped from a timer / reply callback, or the dispatcher's
    catch-all (which can only acknowledge the event)."""
    import re
    for e in res.sim.errors:
        tb = str(e[3]) if len(e) > 3 else ""
        m = re.search(r'asl_workflow_engine/state_engine\.py", line \d+, in (\w+)', tb) or \
            re.search(r'asl_workflow_engine/(\w+)\.py", line \d+, in (\w+)', tb)
        if m:
            return "callback:" + m.group(m.lastindex)
        return "callback:?"
    return "dropped-by-dispatcher"


TS_BASE = {"StartAt": "C", "States": {
    "C": {"Type": "Choice", "Choices": [
        {"Variable": "$.when", "TimestampLessThan": "2030-01-01T00:00:00Z", "Next": "W"},
        {"Not": {"Variable": "$.when", "TimestampEquals": "2023-11-14T22:13:20+05:30"}, "Next": "W"},
        {"And": [{"Variable": "$.when", "TimestampGreaterThanEquals": "2001-01-01T00:00:00.5Z"},
                 {"Variable": "$.when", "IsTimestamp": True}], "Next": "P"}], "Default": "P"},
    "W": {"Type": "Wait", "Timestamp": "2023-11-14T22:13:22Z", "Next": "P"},
    "P": {"Type": "Pass", "End": True}}}
TS_STRINGS = ["", " ", "Z", "T", "2023", "2023-11-14", "2023-11-14T22:13:20", "2023-13-45T99:99:99Z", "2023-11-14T22:13:20+5:30",
              "2023-11-14t22:13:20z", "2023-11-14T22:13:20.Z", "now", "\u0000"]


def ts_cases():
    """Every timestamp-typed field of TS_BASE x every string of TS_STRINGS (and a few non-strings)."""
    fields = [p for p, v in paths(TS_BASE) if p and isinstance(v, str) and (str(p[-1]).startswith("Timestamp"))]
    return [("ts", fi, vi) for fi in range(len(fields)) for vi in range(len(TS_STRINGS) + 3)]


TYPED_BASE = {"StartAt": "T", "TimeoutSeconds": 600, "Comment": "c", "Version": "1.0", "States": {
    "T": {"Type": "Task", "Resource": "arn:aws:rpcmessage:local::function:f", "TimeoutSeconds": 5, "HeartbeatSeconds": 2,
          "InputPath": "$", "OutputPath": "$", "ResultPath": "$.r", "Parameters": {"a.$": "$.x"}, "ResultSelector": {"b.$": "$"},
          "Retry": [{"ErrorEquals": ["E.A"], "IntervalSeconds": 2, "MaxAttempts": 3, "BackoffRate": 1.5}],
          "Catch": [{"ErrorEquals": ["States.ALL"], "ResultPath": "$.e", "Next": "M"}], "Next": "M"},
    "M": {"Type": "Map", "ItemsPath": "$.items", "MaxConcurrency": 2, "ItemSelector": {"v.$": "$$.Map.Item.Value"},
          "ItemProcessor": {"StartAt": "W", "States": {"W": {"Type": "Wait", "Seconds": 1, "End": True}}},
          "Retry": [{"ErrorEquals": ["States.ALL"], "MaxAttempts": 1}], "Next": "P"},
    "P": {"Type": "Parallel", "Branches": [{"StartAt": "X", "States": {"X": {"Type": "Pass", "Result": 1, "End": True}}}],
          "Next": "C"},
    "C": {"Type": "Choice", "Choices": [{"Variable": "$.n", "NumericEquals": 1, "Next": "S"}], "Default": "F"},
    "S": {"Type": "Succeed"}, "F": {"Type": "Fail", "Error": "E", "Cause": "c"}}}
TYPED_VALUES = ["text", "", None, [1], [], {"a": 1}, {}, True, 1.5, -1, 0]


# shapes the validator once let through (repaired): it has to report a problem for each
MUST_REJECT = [(("States", "T"), []), (("States", "T"), {}), (("States", "M", "MaxConcurrency"), -1),
               (("States", "M", "MaxConcurrency"), 1.5), (("States", "T", "Retry", 0), {}), (("States", "T", "Catch", 0), {}),
               (("States", "P", "Branches", 0), {}), (("States", "C", "Choices", 0), {}), (("States", "P", "Branches", 0), [])]


MUST_REJECT_DEFS = [{"StartAt": "", "States": {}}, {"StartAt": "A", "States": {}}, {"StartAt": "", "States": {"A": {"Type": "Succeed"}}}]


def run_typed(k, extra):
    """The validator alone: every field of a machine that uses every state type (and Retry / Catch) x every JSON type
    in its place - it must report problems (return a list), never raise."""
    fields = [p for p, v in paths(TYPED_BASE) if p]
    findings = []
    n = 0
    for p in fields[k::8]:
        for v in TYPED_VALUES:
            m = copy.deepcopy(TYPED_BASE)
            get(m, p[:-1])[p[-1]] = v
            n += 1
            problems, crash = validate(m)
            if crash:
                findings.append({"property": PROP, "rule": "validator-raised", "witness": crash.split(":")[0],
                                 "detail": "StateLint.validate raised/returned %s for %s = %r" % (crash, "/".join(map(str, p)), v),
                                 "seed": k, "typed": [list(p), v]})
                break
    if k == 0:
        for bad in MUST_REJECT_DEFS:
            n += 1
            problems, crash = validate(copy.deepcopy(bad))
            if not crash and not problems:
                findings.append({"property": PROP, "rule": "validator-accepts-malformed", "witness": "whole-definition",
                                 "detail": "StateLint.validate reports no problem for %s" % json.dumps(bad), "seed": k,
                                 "typed_def": bad})
        for p, v in MUST_REJECT:
            m = copy.deepcopy(TYPED_BASE)
            get(m, p[:-1])[p[-1]] = v
            n += 1
            problems, crash = validate(m)
            if not crash and not problems:
                findings.append({"property": PROP, "rule": "validator-accepts-malformed", "witness": "/".join(map(str, p[1:])),
                                 "detail": "StateLint.validate reports no problem for %s = %r" % ("/".join(map(str, p)), v),
                                 "seed": k, "typed": [list(p), v]})
    return {"evaluations": n, "probes": {"validator-only:typed-wrong-fields": n}, "findings": findings[:3],
            "distinct": [common.sha(["typed", k])]}


def run_one(i, extra):
    if isinstance(i, tuple) and i[0] == "typed":
        return run_typed(i[1], extra)
    probe = None
    forced = None
    whole = None
    if isinstance(i, tuple) and i[0] == "corpus":
        # every corpus machine as it is: the validator accepts it and it runs without "Illegal State Machine"
        whole = i[1]
        i = 6000 + sorted(corpus.CORPUS).index(whole)
    if isinstance(i, tuple) and i[0] == "probe":
        probe = i[1]
        i = 0
    ts_item = None
    if isinstance(i, tuple) and i[0] == "ts":
        ts_item = [i[1], i[2]]
        fields = [p for p, v in paths(TS_BASE) if p and isinstance(v, str) and (str(p[-1]).startswith("Timestamp"))]
        forced = copy.deepcopy(TS_BASE)
        val = (TS_STRINGS + [5, None, ["2023-11-14T22:13:20Z"]])[i[2]]
        get(forced, fields[i[1]][:-1])[fields[i[1]][-1]] = val
        i = 7000 + i[1] * 100 + i[2]
    seed = common.run_seed(i)
    rng = random.Random(seed)
    findings = []
    probes = {}
    r = rng.random()
    if forced is not None:
        mutant = forced
        kind = "timestamp-field"
        script, functions, inp = {}, [], {"when": "2023-11-14T22:13:20Z"}
    elif whole is not None:
        c = corpus.CORPUS[whole]
        mutant, script, inp = copy.deepcopy(c["definition"]), dict(c["script"]), c["input"]
        kind = "none"
        functions = sorted(script)
        probes["corpus-machine-unmutated"] = 1
    elif probe is not None:
        mutant, script, inp = copy.deepcopy(PROBES[probe])
        kind = "probe"
        functions = sorted(script)
        probes["probe:" + probe] = 1
    elif r < 0.2:
        mutant = copy.deepcopy(rng.choice(GARBAGE_VALUES))
        kind = "garbage-value"
        script, functions, inp = {}, [], {}
    else:
        r2 = rng.random()
        if r2 < 0.12:
            # timestamp-typed fields (Wait Timestamp, Choice Timestamp* rules, also under Not/And)
            base = {"StartAt": "C", "States": {
                "C": {"Type": "Choice", "Choices": [
                    {"Variable": "$.when", "TimestampLessThan": "2030-01-01T00:00:00Z", "Next": "W"},
                    {"Not": {"Variable": "$.when", "TimestampEquals": "2023-11-14T22:13:20+05:30"}, "Next": "W"},
                    {"And": [{"Variable": "$.when", "TimestampGreaterThanEquals": "2001-01-01T00:00:00.5Z"},
                             {"Variable": "$.when", "IsTimestamp": True}], "Next": "P"}], "Default": "P"},
                "W": {"Type": "Wait", "Timestamp": "2023-11-14T22:13:22Z", "Next": "P"},
                "P": {"Type": "Pass", "End": True}}}
            script, inp = {}, {"when": "2023-11-14T22:13:20Z"}
        elif r2 < 0.5:
            c = corpus.CORPUS[rng.choice(sorted(corpus.CORPUS))]
            base, script, inp = c["definition"], dict(c["script"]), c["input"]
        else:
            prog = E.gen_program(rng, rng.choice(["sequential", "fanout_ok", "general"]), "quick")
            base, script, inp = prog["definition"], dict(prog["script"]), prog["input"]
        kind, mutant = mutate(rng, base)
        for _ in range(rng.choice([0, 0, 1])):
            k2, mutant = mutate(rng, mutant)
            kind += "+" + k2
        functions = sorted(script)
    probes["mutation:" + (kind if kind == "dup-name+sibling" else kind.split("+")[0])] = 1
    problems, crash = validate(mutant)
    if crash:
        findings.append({"property": PROP, "rule": "validator-raised", "witness": crash.split(":")[0],
                         "detail": "StateLint.validate raised/returned %s for %s" % (crash, json.dumps(mutant)[:300])})
        problems = ["<crash>"]
    probes["validator:" + ("accepts" if not problems else "rejects")] = 1
    script.update(HEALTHY_SCRIPT)
    policy = rng.choice(["canonical", "shuffle", "pct", "latency-small"])
    cfg = E.policy_cfg(policy)
    cfg["execution_ttl"] = 120
    cfg["max_steps"] = 1500
    scn = {"machines": {"healthy": {"definition": HEALTHY, "type": "STANDARD"}},
           "executions": [{"machine": "healthy", "input": {"h": 1}, "name": "h1", "at": 0.0}],
           "script": script, "functions": sorted(set(functions) | set(HEALTHY_SCRIPT)), "config": cfg}
    poison = [rng.choice(POISON_BODIES) for _ in range(rng.choice([0, 1, 2]))]
    state = {}

    def before(res):
        w = res.world
        # store the mutant through the real API (validate_asl is off: the service stores whatever parses)
        rec = w.api_sync(w.nodes[0], "CreateStateMachine", {"name": "mutant", "roleArn": w.ROLE,
                                                             "definition": json.dumps(mutant)})
        state["stored"] = rec["status"] == 200
        state["create"] = (rec["status"], (rec["body"] or "")[:100])
        if rec["status"] >= 500:
            findings.append({"property": PROP, "rule": "internal-error", "witness": "CreateStateMachine",
                             "detail": "storing %s answered %s" % (json.dumps(mutant)[:200], rec["status"])})
        if state["stored"]:
            def go():
                w.api.call(w.nodes[0], "StartExecution", {"stateMachineArn": rec["json"]["stateMachineArn"], "name": "m1",
                                                          "input": json.dumps(inp)})
            res.sim.call_at(res.sim.now + rng.choice([0.0, 0.5, 1.5]), go, None, kind="client", label="start-mutant")
        ch = NativeChannel(res.sim, "poisoner")
        for k, body in enumerate(poison):
            def pub(body=body, k=k):
                # (a client need not set an AMQP message id: every other poison message comes without one)
                res.sim.broker.basic_publish(ch.rec, "", "asl_workflow_events", body,
                                             Props(content_type="application/json",
                                                   message_id="poison-%d" % k if k % 2 == 0 else None))
            res.sim.call_at(res.sim.now + rng.choice([0.0, 0.7, 2.2]), pub, None, kind="client", label="poison")

        def third():
            w.api.call(w.nodes[0], "StartExecution", {"stateMachineArn": res.sm_arns["healthy"], "name": "h2",
                                                      "input": json.dumps({"h": 2})})
        res.sim.call_at(res.sim.now + 6.0, third, None, kind="client", label="third")
    mon = NotifyMonitor("C18", check_shape=False, liveness=False)
    from lsfsim.core import HarnessError
    try:
        res = run_scenario(scn, seed, monitors=[mon], before_run=before, horizon=1000)
    except HarnessError as e:
        if "step cap" not in str(e):
            raise
        # the mutant loops for ever (a retargeted Next): legal for a state machine, nothing to judge
        return {"evaluations": 1, "probes": dict(probes, **{"skipped:mutant-loops-forever": 1}), "findings": findings,
                "distinct": []}
    w = res.world
    node = w.nodes[0]
    if res.sim.steps >= 1200:
        # the mutant spins at one virtual instant (events published without end): with zero-cost handlers virtual
        # time cannot advance past it, which says nothing about the other executions of a real, fair engine
        return {"evaluations": 1, "probes": dict(probes, **{"skipped:mutant-spins-at-one-instant": 1}), "findings": findings,
                "distinct": []}
    probes["stored"] = 1 if state.get("stored") else 0
    probes["poison-events"] = len(poison)
    if mon.seq.get(E.EX_ARN % ("mutant", "m1"), []).count("RUNNING") > 2:
        return {"evaluations": 1, "probes": dict(probes, **{"skipped:mutant-spins-at-one-instant": 1}), "findings": [],
                "distinct": []}
    # engine alive
    if node.dead or res.sim.stats.get("node_sys_exit"):
        findings.append({"property": PROP, "rule": "engine-died", "witness": None,
                         "detail": "engine stopped while handling mutant %s / poison %r" % (json.dumps(mutant)[:200], poison)})
    # healthy executions
    for name, want in (("h1", {"h": 1}), ("h2", {"h": 2})):
        arn = E.EX_ARN % ("healthy", name)
        evs = w.terminal_events().get(arn, [])
        ok = evs and evs[0]["body"]["detail"]["status"] == "SUCCEEDED" and \
            json.loads(evs[0]["body"]["detail"]["output"]) == dict(want, a={"by": "hf1"}, b={"by": "hf2"})
        if not ok:
            findings.append({"property": PROP, "rule": "healthy-execution-disturbed", "witness": name,
                             "detail": "healthy execution %s: %s" % (name, evs[0]["body"]["detail"] if evs else "never ended")})
    # the mutant
    marn = E.EX_ARN % ("mutant", "m1")
    zombie = False
    seq = mon.seq.get(marn, [])
    if seq.count("RUNNING") > 2:
        # a rejected definition that restarts itself over and over at one virtual instant (e.g. a branch without
        # StartAt): virtual time cannot advance past the spin, nothing about other executions can be judged
        return {"evaluations": 1, "probes": dict(probes, **{"skipped:mutant-spins-at-one-instant": 1}), "findings": [],
                "distinct": []}
    if "RUNNING" in seq:
        probes["mutant-ran"] = 1
        term = [x for x in seq if x != "RUNNING"]
        evs = w.terminal_events().get(marn, [])
        if not term and problems:
            # rejected by the validator and left RUNNING for ever: the witness is the place the exception escaped at
            # (the recorded finding lists the reply-callback sites that remain; anything else is reported)
            probes["rejected-mutant-left-running"] = 1
            zombie = True
            site = escape_site(res)
            probes["left-running:" + site] = 1
            findings.append({"property": PROP, "rule": "rejected-definition-left-running",
                             "witness": ("probe:" + probe) if probe is not None else site,
                             "detail": "the validator rejects %s; its execution was announced RUNNING and was never "
                                       "failed or ended (%s)" % (json.dumps(mutant)[:600], site)})
        elif not term:
            findings.append({"property": PROP, "rule": "accepted-mutant-never-terminal", "witness": None,
                             "detail": "the validator reported no problem for %s but its execution reported RUNNING and "
                                       "never ended" % json.dumps(mutant)[:400]})
        elif not problems:
            d = evs[0]["body"]["detail"]
            cause = d.get("cause") or ""
            if "Illegal State Machine" in cause:
                findings.append({"property": PROP, "rule": "accepted-machine-illegal-at-runtime", "witness": kind.split("+")[0],
                                 "detail": "the validator reported no problem for %s but the execution failed with %r: %s" % (
                                     json.dumps(mutant)[:400], d.get("error"), cause[-200:])})
    for f in mon.findings:
        if f["rule"] in ("terminal-twice", "running-twice") and (":healthy:h1" in f["detail"] or ":healthy:h2" in f["detail"]):
            findings.append(dict(f, property=PROP))
    # every poison event acknowledged, nothing left behind
    if not node.dead and node.event_dispatcher is not None:
        left = sum(1 for (ch, tag, qn, m, c) in res.sim.broker.all_unacked() if ch.node == node.name)
        q = [qn for qn, qq in res.sim.broker.queues.items() if qn.startswith("asl_workflow_events") and qq.msgs]
        if (left or q) and res.end_reason == "quiescent" and not zombie and not (problems and res.sim.errors) and \
                "accepted-mutant-never-terminal" not in [f["rule"] for f in findings]:
            findings.append({"property": PROP, "rule": "poison-not-acknowledged", "witness": None,
                             "detail": "%d unacknowledged messages, non-empty queues %s after mutant %s / poison %r" % (
                                 left, q, json.dumps(mutant)[:200], poison)})
    if res.sim.errors:
        if problems:
            # an exception escaping a timer callback while interpreting a definition the validator rejected leaves
            # that execution's event unacknowledged: part of the recorded 'rejected definition is not failed cleanly'
            # finding (see probes); counted, not judged, here
            probes["exception-while-running-rejected-mutant"] = 1
        else:
            findings.append({"property": PROP, "rule": "engine-exception", "witness": res.sim.errors[0][2].split("(")[0],
                             "detail": "%r with validator-accepted mutant %s poison %r" % (
                                 res.sim.errors[0][:3], json.dumps(mutant)[:300], poison)})
    for f in findings:
        f.setdefault("seed", seed)
        f["mutant"] = mutant
        if whole is not None:
            f["whole"] = whole
        if probe is not None:
            f["probe"] = probe
        if ts_item is not None:
            f["ts"] = ts_item
        f["poison"] = [p.decode("latin1") for p in poison]
    return common.summarize_run(res, PROP, findings, True,
                                {"mutation": kind, "validator_problems": len(problems or []), "mutant_status": seq,
                                 "stored": state.get("create")}, probes, common.sha([mutant, [p.decode("latin1") for p in poison], policy]))


def main(argv):
    if len(argv) > 1 and argv[0] == "--replay":
        with open(argv[1]) as f:
            rec = json.load(f)
        i = rec["seed"] - common.base_seed() * 1000003
        if rec.get("typed_def") is not None:
            problems, crash = validate(copy.deepcopy(rec["typed_def"]))
            hit = not crash and not problems
            print("replay %s: %s" % (argv[1], "REPRODUCED" if hit else "not reproduced"))
            return 1 if hit else 0
        if rec.get("typed"):
            m = copy.deepcopy(TYPED_BASE)
            get(m, rec["typed"][0][:-1])[rec["typed"][0][-1]] = rec["typed"][1]
            problems, crash = validate(m)
            hit = bool(crash) if rec["rule"] == "validator-raised" else (not crash and not problems)
            print("replay %s: %s" % (argv[1], "REPRODUCED" if hit else "not reproduced"))
            return 1 if hit else 0
        if rec.get("whole"):
            i = ("corpus", rec["whole"])
        elif rec.get("probe"):
            i = ("probe", rec["probe"])
        elif rec.get("ts"):
            i = ("ts", rec["ts"][0], rec["ts"][1])
        r = run_one(i, {})
        same = [f for f in r["findings"] if f["rule"] == rec["rule"]]
        print("replay %s: %s" % (argv[1], "REPRODUCED" if same else "not reproduced (set VERIF_SEED to the base seed used)"))
        return 1 if same else 0
    tier = common.tier()
    n = 1500 if tier == "quick" else 60000
    rep = common.Report(PROP)
    items = [("probe", k) for k in sorted(PROBES)] + [("typed", k) for k in range(8)] + ts_cases() + \
        [("corpus", nm) for nm in sorted(corpus.CORPUS) if not corpus.CORPUS[nm].get("machines")] + list(range(n))
    for r in common.run_batch("checks.c18", "run_one", items, {}):
        rep.absorb(r)
    return rep.finish(
        rule="corpus and generated machines mutated once or twice (drop key, rename state, retarget Next/Default/StartAt, "
             "retag Type, wrong JSON type, name duplicated across nesting levels, unreachable state, empty Branches, "
             "End/Next swapped) or replaced by arbitrary JSON values; each mutant goes to StateLint.validate (must return "
             "a list) and is stored through CreateStateMachine and started beside a healthy execution, with 0-2 garbage "
             "messages published on the shared event queue, under a seeded schedule policy; distinct = distinct "
             "(mutant, poison, policy)",
        assumptions=["validate_asl is off when storing (the default), so that rejected definitions reach the engine too"])


if __name__ == "__main__":
    sys.exit(main(sys.argv[1:]))
