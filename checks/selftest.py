"""
Determinism self-test (run by setup_cmd): the same seed must give the same
complete event-log digest when run twice in one process, in another process,
with a different worker count and under a different PYTHONHASHSEED in a fresh
interpreter.  Any mismatch is a harness error (exit 2).
"""
import hashlib
import json
import os
import random
import subprocess
import sys

from checks import common
from checks import engine as E


def digest_one(i, extra):
    seed = 424242 + i
    rng = random.Random(seed)
    fam = rng.choice(["sequential", "fanout_ok", "general", "fanout_fail"])
    prog = E.gen_program(rng, fam, "quick")
    cfg = E.swarm_config(rng, E.POLICIES, ttls=(600,))
    scn = E.scenario_of(prog, cfg, rng.randint(1, 2), rng.choice(["STANDARD", "EXPRESS"]), rng, stagger=(0.0, 1.0))
    from lsfsim.runner import run_scenario
    if i % 3 == 1:
        # the Redis-backed configurations (shared store, invalidation deliveries, one or two instances, both front ends)
        cfg["store"] = "redis"
        cfg["nodes"] = rng.choice([1, 2])
        cfg["transport"] = rng.choice(["asyncio", "blocking"])
        for ex in scn["executions"]:
            ex["node"] = rng.randrange(cfg["nodes"])
        from monitors.surfaces import SurfaceMonitor
        res = run_scenario(scn, seed, monitors=[SurfaceMonitor()], horizon=500)
        srv = res.world.redis_server
        return [i, res.sim.hexdigest(), res.sim.steps, srv.stats["commands"], srv.stats["invalidations_delivered"]]
    if i % 3 == 2 and i % 2:
        # a store-level operation sequence of the C20 harness
        from checks import c20
        kind = c20.KINDS[(i // 6) % 4]
        h = c20.run_sequence(c20.gen_sequence(seed, kind), seed)
        return [i, common.sha([h.probes, [f["detail"] for f in h.findings], h.server.stats,
                               sorted(h.server.data.keys()), h.sim.disk.files]), len(h.findings)]
    if i % 6 == 0:
        # the crash / restart / prefetched-unhandled faults: a multi-crash case of the C04 harness
        from checks import c04
        case, cseed = c04.multi_case(i, "quick")
        if case is not None:
            res, state, mon = c04.run_multi_case(case, cseed)
            return [i, res.sim.hexdigest(), res.sim.steps, state["crashes"], res.sim.stats.get("prefetched-unhandled", 0)]
    res = run_scenario(scn, seed)
    return [i, res.sim.hexdigest(), res.sim.steps]


def batch(n, procs):
    out = common.run_batch("checks.selftest", "digest_one", range(n), None, procs=procs)
    bad = [r for r in out if isinstance(r, dict)]
    if bad:
        print("HARNESS-ERROR in selftest:", bad[0], file=sys.stderr)
        sys.exit(2)
    return hashlib.sha256(json.dumps(sorted(out)).encode()).hexdigest()


def main(argv):
    if argv and argv[0] == "--digest":
        n, procs = int(argv[1]), int(argv[2])
        print(batch(n, procs))
        return 0
    n = int(os.environ.get("VERIF_SELFTEST_N", "200"))
    a = batch(n, 16)
    b = batch(n, 3)
    twice = [digest_one(i, None) for i in range(10)] == [digest_one(i, None) for i in range(10)]
    env = dict(os.environ)
    env["PYTHONHASHSEED"] = "12345"
    c = subprocess.run([sys.executable, "-m", "checks.selftest", "--digest", str(n), "7"], env=env, cwd=common.VERIF,
                       capture_output=True, text=True, timeout=1500)
    cd = c.stdout.strip().splitlines()[-1] if c.stdout.strip() else "?" + c.stderr[-500:]
    ok = a == b == cd and twice
    print("selftest: %d seeds; 16 procs %s; 3 procs %s; fresh interpreter PYTHONHASHSEED=12345 7 procs %s; in-process "
          "repeat %s -> %s" % (n, a[:12], b[:12], cd[:12], twice, "deterministic" if ok else "MISMATCH"))
    return 0 if ok else 2


if __name__ == "__main__":
    sys.exit(main(sys.argv[1:]))
