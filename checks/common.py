"""
Shared machinery of the checks: seeded batch execution over worker processes,
evidence files, replay files, known findings, command-line handling.

Exit codes: 0 property held on everything explored (KNOWN-FINDING lines allowed),
1 violation (a `VIOLATION property=<id> replay=<path>` line is printed),
2 harness error (never reported as a violation).
"""
import concurrent.futures as cf
import faulthandler
import hashlib
import json
import multiprocessing
import os
import sys
import time
import traceback

VERIF = os.path.dirname(os.path.dirname(os.path.abspath(__file__)))
EVIDENCE_DIR = os.environ.get("VERIF_EVIDENCE_DIR") or os.path.join(VERIF, "evidence")
REPLAY_DIR = os.environ.get("VERIF_REPLAY_DIR") or os.path.join(VERIF, "replays")
KNOWN = os.path.join(VERIF, "known_findings.json")

COMPONENTS_REAL = [
    "asl_workflow_engine/state_engine.py", "asl_workflow_engine/task_dispatcher.py",
    "asl_workflow_engine/event_dispatcher.py", "asl_workflow_engine/state_engine_paths.py",
    "asl_workflow_engine/arn.py", "asl_workflow_engine/store.py",
    "asl_workflow_engine/amqp_0_9_1_messaging_asyncio.py", "asl_workflow_engine/amqp_0_9_1_messaging.py",
    "asl_workflow_engine/rest_api_asyncio.py (Quart test client)", "asl_workflow_engine/rest_api.py (Flask test client)",
    "statelint/*",
]
COMPONENTS_STUB = [
    "pika client + RabbitMQ broker (fakes/pika + lsfsim/broker.py)", "task workers (lsfsim/peers.Workers)",
    "notification subscriber (lsfsim/peers.Subscriber)", "API clients (lsfsim/peers.ApiClient)",
    "asyncio event loop (lsfsim/loop.SimLoop, virtual time)", "wall clock / uuid4 / TZ (lsfsim/patches.py)",
    "disk under store.open (lsfsim/disk.py)", "redis-py + Redis server + pottery (fakes/redis, fakes/pottery)",
    "hypercorn/werkzeug sockets (not run)",
]


def tier():
    t = os.environ.get("VERIF_TIER", "quick")
    return t if t in ("quick", "thorough") else "quick"


def base_seed():
    try:
        return int(os.environ.get("VERIF_SEED", "0"))
    except ValueError:
        return 0


def run_seed(i):
    return base_seed() * 1000003 + i


def nproc():
    try:
        n = int(os.environ.get("VERIF_PROCS", "0"))
    except ValueError:
        n = 0
    return n or min(16, os.cpu_count() or 1)


def sha(x):
    return hashlib.sha256(json.dumps(x, sort_keys=True, default=str).encode()).hexdigest()[:16]


# ---------------------------------------------------------------------------------------
# known findings
# ---------------------------------------------------------------------------------------
def load_known():
    try:
        with open(KNOWN) as f:
            return json.load(f)
    except (IOError, ValueError):
        return {"findings": [], "fixed": []}


def match_known(known, prop, rule, witness):
    for k in known.get("findings", []):
        if k["property"] == prop and k["rule"] == rule and k.get("witness") == witness:
            return k
    return None


# ---------------------------------------------------------------------------------------
# batch execution
# ---------------------------------------------------------------------------------------
def _worker(args):
    modname, fname, chunk, extra = args
    faulthandler.enable()
    faulthandler.dump_traceback_later(600, exit=True)
    sys.setrecursionlimit(10000)
    mod = __import__(modname, fromlist=[fname])
    fn = getattr(mod, fname)
    out = []
    for item in chunk:
        try:
            out.append(fn(item, extra))
        except BaseException as e:  # harness error, keep going
            out.append({"harness_error": "%s: %s" % (type(e).__name__, e), "item": repr(item)[:300],
                        "tb": traceback.format_exc()[-3000:]})
    faulthandler.cancel_dump_traceback_later()
    return out


def run_batch(modname, fname, items, extra=None, chunk=None, procs=None, wall_limit=None):
    """Run fn(item, extra) for every item across processes; returns list of results in order."""
    procs = procs or nproc()
    items = list(items)
    if not items:
        return []
    if chunk is None:
        chunk = max(1, min(50, len(items) // (procs * 4) or 1))
    chunks = [items[i:i + chunk] for i in range(0, len(items), chunk)]
    t0 = time.perf_counter()
    results = []
    if procs == 1:
        for c in chunks:
            results.extend(_worker((modname, fname, c, extra)))
            if wall_limit and time.perf_counter() - t0 > wall_limit:
                break
        return results
    if wall_limit is None:
        wall_limit = wall_budget()
    ctx = multiprocessing.get_context("fork")
    with cf.ProcessPoolExecutor(max_workers=procs, mp_context=ctx) as ex:
        futs = [ex.submit(_worker, (modname, fname, c, extra)) for c in chunks]
        skipped = 0
        if wall_limit:
            # when the batch's wall-clock budget is used up, chunks that have not started are left out (and counted)
            pending = set(futs)
            while pending:
                left = t0 + wall_limit - time.perf_counter()
                if left <= 0:
                    for f in pending:
                        f.cancel()
                    break
                done, pending = cf.wait(pending, timeout=left, return_when=cf.FIRST_COMPLETED)
        for f, c in zip(futs, chunks):
            if f.cancelled():
                skipped += len(c)
                continue
            try:
                results.extend(f.result(timeout=1800))
            except Exception as e:
                results.extend([{"harness_error": "worker died: %r" % (e,), "item": repr(it)[:200]} for it in c])
        if skipped:
            results.append({"evaluations": 0, "probes": {"items-left-out-by-wall-budget": skipped}, "findings": [],
                            "distinct": []})
            print("note: %d of %d items left out, wall-clock budget of %ds for this batch used up" % (
                skipped, len(items), wall_limit))
    return results


def wall_budget():
    """Wall-clock budget of one batch in seconds (VERIF_WALL_S; default: none for quick, 1200 for thorough)."""
    try:
        v = int(os.environ.get("VERIF_WALL_S", "0"))
    except ValueError:
        v = 0
    if v > 0:
        return v
    return 1200 if tier() == "thorough" else None


# ---------------------------------------------------------------------------------------
# evidence / replay / reporting
# ---------------------------------------------------------------------------------------
class Report(object):
    def __init__(self, prop, level="exploration"):
        self.prop = prop
        self.level = level
        self.t0 = time.perf_counter()
        self.evaluations = 0
        self.distinct = set()
        self.samples = []
        self.violations = []      # dicts with rule, detail, witness, replay
        self.known_hits = {}      # key -> count
        self.harness_errors = []
        self.sim_seconds = 0.0
        self.steps = 0
        self.broker_ops = 0
        self.faults = {}
        self.probes = {}
        self.interleavings = set()
        self.extra = {}
        self.rule = ""
        self.assumptions = []
        self.exhaustive = None
        self.minimiser = None     # callable(finding) -> smaller finding, applied to the one written as replay file
        self.known = load_known()

    def add_counts(self, d, into=None):
        into = self.probes if into is None else into
        for k, v in (d or {}).items():
            into[k] = into.get(k, 0) + v

    def absorb(self, r):
        """Fold one run summary (dict) produced by a check's worker function."""
        if r is None:
            return
        if "harness_error" in r:
            self.harness_errors.append(r)
            return
        self.evaluations += r.get("evaluations", 1)
        for h in r.get("distinct", []):
            self.distinct.add(h)
        for h in r.get("interleavings", []):
            self.interleavings.add(h)
        self.sim_seconds += r.get("sim_seconds", 0.0)
        self.steps += r.get("steps", 0)
        self.broker_ops += r.get("broker_ops", 0)
        self.add_counts(r.get("faults"), self.faults)
        self.add_counts(r.get("probes"))
        if r.get("sample") is not None and len(self.samples) < 3:
            self.samples.append(r["sample"])
        for f in r.get("findings", []):
            k = match_known(self.known, f["property"], f["rule"], f.get("witness"))
            if k is not None:
                key = (f["property"], f["rule"], f.get("witness"))
                self.known_hits[key] = self.known_hits.get(key, 0) + 1
            else:
                self.violations.append(f)

    def write_replay(self, finding, tag=""):
        os.makedirs(REPLAY_DIR, exist_ok=True)
        name = "%s-%s-%s%s.json" % (self.prop, finding.get("seed", "x"), sha(finding)[:8], tag)
        path = os.path.join(REPLAY_DIR, name)
        with open(path, "w") as f:
            json.dump(finding, f, indent=1, sort_keys=True, default=str)
        return path

    def finish(self, rule=None, assumptions=None, extra_cov=None):
        wall = time.perf_counter() - self.t0
        if rule:
            self.rule = rule
        cov = {
            "evaluations": self.evaluations,
            "distinct_nontrivial": len(self.distinct),
            "rule": self.rule,
            "samples": self.samples[:3] or ["(no sample recorded)"],
            "runs_per_hour": int(self.evaluations / wall * 3600) if wall > 0 else 0,
            "simulated_seconds": round(self.sim_seconds, 3),
            "scheduler_steps": self.steps,
            "broker_operations_checked": self.broker_ops,
            "faults_fired": self.faults,
            "probes": self.probes,
            "distinct_interleavings": len(self.interleavings),
            "interleaving_measure": "distinct sha256 of the ordered sequence of scheduler picks "
                                    "(source kind + queue/timer label) of a run",
            "components": {"real": COMPONENTS_REAL, "stub": COMPONENTS_STUB},
            "known_findings_reproduced": [{"property": k[0], "rule": k[1], "witness": k[2], "runs": v}
                                          for k, v in sorted(self.known_hits.items(), key=repr)],
            "harness_errors": len(self.harness_errors),
        }
        if self.exhaustive is not None:
            cov["exhaustive"] = self.exhaustive
        cov.update(self.extra)
        if extra_cov:
            cov.update(extra_cov)
        ev = {
            "property_id": self.prop,
            "tier": tier(),
            "seed": base_seed(),
            "level": self.level,
            "coverage": cov,
            "assumptions": assumptions or self.assumptions,
            "wall_s": round(wall, 3),
            "violations": len(self.violations),
        }
        os.makedirs(EVIDENCE_DIR, exist_ok=True)
        with open(os.path.join(EVIDENCE_DIR, "%s.json" % self.prop), "w") as f:
            json.dump(ev, f, indent=1, sort_keys=True, default=str)
        # report
        for k, v in sorted(self.known_hits.items(), key=repr):
            kf = match_known(self.known, k[0], k[1], k[2])
            print("KNOWN-FINDING: property=%s %s [%s/%s] (%d runs)" % (k[0], kf.get("what", ""), k[1], k[2], v))
        code = 0
        if self.violations:
            # group by (rule, witness); write one replay per group (the smallest one)
            groups = {}
            for f in self.violations:
                groups.setdefault((f["property"], f["rule"], f.get("witness")), []).append(f)
            for key, fs in sorted(groups.items(), key=repr):
                fs.sort(key=lambda f: len(json.dumps(f, default=str)))
                f0 = fs[0]
                if self.minimiser is not None and len(groups) <= 12:
                    try:
                        f0 = self.minimiser(f0)
                    except Exception as e:   # the unminimised case is still a valid replay
                        f0 = dict(f0)
                        f0["minimised"] = {"note": "minimiser failed: %r" % (e,)}
                path = self.write_replay(f0)
                print("VIOLATION property=%s replay=%s" % (key[0], path))
                print("  rule=%s witness=%s runs=%d detail=%s" % (key[1], key[2], len(fs),
                                                                  str(f0.get("detail"))[:600]))
                if f0.get("minimised"):
                    print("  minimised: %s" % json.dumps(f0["minimised"]))
                print("  replay in a fresh process: %s" % confirm_replay(self.prop, path))
            code = 1
        if self.harness_errors:
            for h in self.harness_errors[:5]:
                print("HARNESS-ERROR: %s item=%s" % (h.get("harness_error"), h.get("item")), file=sys.stderr)
                if h.get("tb"):
                    print(h["tb"], file=sys.stderr)
            if code == 0:
                code = 2
        print("%s %s: %d evaluations, %d distinct non-trivial, %d violations, %d known-finding hits, %.1fs" % (
            self.prop, tier(), self.evaluations, len(self.distinct), len(self.violations),
            sum(self.known_hits.values()), wall))
        return code


def digest_note(rec, same):
    """Text saying whether the replayed run's event-log digest equals the one recorded in the replay file."""
    want = rec.get("digest")
    got = [f.get("digest") for f in same if f.get("digest")]
    if not want or not got:
        return ""
    return " (event-log digest %s)" % ("identical" if want in got else "DIFFERS: recorded %s, replayed %s" % (want[:12], got[0][:12]))


def confirm_replay(prop, path):
    """Replays the file with the check's own --replay in a fresh interpreter: it must fail the same way (exit 1)."""
    import subprocess
    env = dict(os.environ)
    env["PYTHONPATH"] = VERIF
    env.setdefault("PYTHONHASHSEED", "0")
    try:
        p = subprocess.run([sys.executable, "-m", "checks.%s" % prop.lower(), "--replay", path], cwd=VERIF, env=env,
                           stdout=subprocess.PIPE, stderr=subprocess.STDOUT, timeout=600)
    except Exception as e:
        return "could not be run (%r)" % (e,)
    if p.returncode == 1:
        return "reproduced"
    return "NOT reproduced (exit %d): %s" % (p.returncode, p.stdout.decode("utf8", "replace")[-200:].strip())


def summarize_run(res, prop, findings, nontrivial=True, sample=None, extra_probes=None, scenario_hash=None):
    """Standard per-run summary from a runner.Result."""
    sim = res.sim
    oh = sim.order_hash.hexdigest()[:16]
    out = {
        "evaluations": 1,
        "sim_seconds": sim.now - sim.epoch,
        "steps": sim.steps,
        "broker_ops": len(sim.broker.oplog),
        "interleavings": [oh],
        "distinct": [sha([scenario_hash or "", oh])] if nontrivial else [],
        "faults": dict((k, v) for k, v in sim.stats.items() if k in ("crash", "restart", "stall", "node_sys_exit",
                                                                       "callback_exception", "poison-message", "clock-jump",
                                                                       "raw-start-event") or k.startswith("worker-")),
        "probes": dict(extra_probes or {}),
        "findings": findings,
        "sample": sample,
        "digest": sim.hexdigest(),
    }
    return out
