"""
Instant comparison helpers shared by C07 and C08: the engine's task request
instants and terminal instant (virtual clock) against the reference model's.
"""
from lsfsim.core import EPOCH

TOL = 2e-3   # timestamps travel through RFC 3339 strings (microseconds) and millisecond timers


def engine_request_times(res, prefix=""):
    out = {}
    for r in res.world.workers.requests:
        if r["fn"].startswith(prefix):
            out.setdefault(r["fn"], []).append(r["t_pub"])
    return out


def model_request_times(mo, t_start):
    out = {}
    for (t, fn, payload, name, attempt) in mo.requests:
        out.setdefault(fn, []).append(t_start + t)
    return out


def compare_instants(mo, res, arn, t_start, exact, fn_prefix="", requests=True):
    """Returns list of (rule, detail)."""
    bad = []
    eng = engine_request_times(res, fn_prefix) if requests else {}
    mod = model_request_times(mo, t_start) if requests else {}
    for fn in sorted(set(eng) | set(mod)):
        a = sorted(eng.get(fn, []))
        b = sorted(mod.get(fn, []))
        if len(a) != len(b):
            bad.append(("request-count", "%s requested %d times, model %d (engine at %s, model at %s)" % (
                fn, len(a), len(b), [round(x - EPOCH, 3) for x in a], [round(x - EPOCH, 3) for x in b])))
            continue
        for x, y in zip(a, b):
            if exact and abs(x - y) > TOL:
                bad.append(("request-instant", "%s requested at t=%.4f, model t=%.4f" % (fn, x - EPOCH, y - EPOCH)))
                break
            if not exact and x < y - TOL:
                bad.append(("request-early", "%s requested at t=%.4f, before the model's earliest t=%.4f" % (
                    fn, x - EPOCH, y - EPOCH)))
                break
    evs = res.world.terminal_events().get(arn, [])
    if evs and mo.t_end is not None:
        te = evs[0]["published_at"]
        tm = t_start + mo.t_end
        if exact and abs(te - tm) > TOL:
            bad.append(("terminal-instant", "execution ended at t=%.4f, model t=%.4f" % (te - EPOCH, tm - EPOCH)))
        if not exact and te < tm - TOL:
            bad.append(("terminal-early", "execution ended at t=%.4f, before the model's t=%.4f" % (te - EPOCH, tm - EPOCH)))
    return bad


def start_time(res, exname):
    """Virtual instant at which the execution's StartTime was taken (the StartExecution call)."""
    for ex, rec in res.start_calls:
        if ex.get("name") == exname and rec is not None:
            # the instant the handler took as StartTime (it answers with it as startDate): a stalled instance serves the
            # call only when the stall is over, and that - not the instant the client sent the request - is the start
            j = rec.get("json")
            if isinstance(j, dict) and isinstance(j.get("startDate"), (int, float)) and not isinstance(j.get("startDate"), bool):
                return float(j["startDate"])
            return rec["t0"]
    return None
