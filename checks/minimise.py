"""
Minimisation of a failing scenario before it is written as the replay file.

A scenario-level finding carries the whole case (machines, executions, worker
script, deployment configuration, faults, poison messages) and the seed.  The
minimiser re-runs the check's own `check(scenario, seed)` as the predicate
"the same rule (and witness) still fires" and greedily

  1. drops executions (and machines nothing starts any more),
  2. drops faults and poison messages one at a time,
  3. simplifies the deployment (canonical zero-latency schedule, one instance,
     file store, asyncio transport), one knob at a time,
  4. shrinks machines, inputs and worker scripts structurally (gen/shrink.py:
     delete sub-trees largest first, definition must stay acceptable to the
     repository's validator, unreachable states pruned, delays to 0),

under a wall-clock budget.  Everything is deterministic (no PRNG draw, no clock
read influences a decision other than the budget cut-off, after which the best
case so far is kept).
"""
import copy
import json
import time

from gen import shrink as S


def _size(x):
    return len(json.dumps(x, default=str))


def scenario(finding, rerun, budget_s=40.0, max_tries=400):
    """rerun(scn, seed) -> summary dict with "findings"; returns a (possibly smaller) copy of finding."""
    if "scenario" not in finding or "seed" not in finding:
        return finding
    seed = finding["seed"]
    rule, witness = finding["rule"], finding.get("witness")
    t_end = time.perf_counter() + budget_s
    state = {"tries": 0, "last": None}

    def pred(scn):
        if time.perf_counter() > t_end or state["tries"] >= max_tries:
            raise TimeoutError()
        state["tries"] += 1
        try:
            r = rerun(copy.deepcopy(scn), seed)
        except TimeoutError:
            raise
        except BaseException:
            return False
        hit = [g for g in r.get("findings", []) if g["rule"] == rule and g.get("witness") == witness]
        if hit:
            state["last"] = hit[0]
        return bool(hit)

    best = copy.deepcopy(finding["scenario"])
    size0 = _size(best)
    try:
        if not pred(best):
            out = dict(finding)
            out["minimised"] = {"note": "not reproduced by an in-process re-run; kept as found"}
            return out
        # 1. executions
        changed = True
        while changed and len(best.get("executions") or []) > 1:
            changed = False
            for i in range(len(best["executions"]) - 1, -1, -1):
                cand = copy.deepcopy(best)
                del cand["executions"][i]
                used = set(e["machine"] for e in cand["executions"])
                for m in list(cand.get("machines") or {}):
                    if m not in used and not _referenced(cand, m):
                        del cand["machines"][m]
                if pred(cand):
                    best = cand
                    changed = True
                    break
        # 2. faults / poison
        for key in ("faults", "poison"):
            i = 0
            while i < len(best.get(key) or []):
                cand = copy.deepcopy(best)
                del cand[key][i]
                if pred(cand):
                    best = cand
                else:
                    i += 1
        # 3. deployment
        for knob, val in (("policy", "canonical"), ("latency", "zero"), ("nodes", 1), ("store", "file"),
                          ("transport", "asyncio"), ("queue_type", "classic"), ("tz", "UTC0")):
            cfg = best.get("config") or {}
            if cfg.get(knob, val) != val:
                cand = copy.deepcopy(best)
                cand["config"][knob] = val
                if knob == "nodes":
                    for e in cand["executions"]:
                        e["node"] = 0
                if pred(cand):
                    best = cand
        # 4. structure
        best, _ = S.shrink(best, pred, keys=("machines", "script", "executions"), def_keys=("machines",),
                           budget=max(0, max_tries - state["tries"]))
    except TimeoutError:
        pass
    out = dict(finding)
    out["scenario"] = best
    if state["last"] is not None:
        out["detail"] = state["last"].get("detail", out.get("detail"))
        for k in ("digest", "steps", "step", "t"):
            if k in state["last"]:
                out[k] = state["last"][k]
            else:
                out.pop(k, None)
    out["minimised"] = {"size_before": size0, "size_after": _size(best), "reruns": state["tries"]}
    return out


def _referenced(scn, machine_name):
    """True if some definition launches the machine as a child execution."""
    needle = "stateMachine:%s\"" % machine_name
    return needle in json.dumps(scn.get("machines") or {})
