"""
Generic driver for the monitor-style properties (C05, C06, C09, ...): generated
multi-execution scenarios, a seeded schedule policy, the property's monitors,
optional comparison with the reference model.
"""
import itertools
import json
import random
import sys

from checks import common
from checks import engine as E
from lsfsim.runner import run_scenario
from monitors.basic import NotifyMonitor, RecordMonitor, BrokerMonitor
from monitors.fanout import JoinMonitor, SiblingMonitor
from monitors.history import HistoryMonitor

ALL_POLICIES = ["shuffle", "pct", "latency-small", "latency-heavy", "ties", "canonical"]


def accept_no_failure(mo, definition=None):
    return E.classify(mo, allow_single_failure=False, definition=definition)


def accept_single_failure_only(mo, definition=None):
    # one or several failing branches/iterations of non-nested fan-outs without Retry/Catch on the fan-out state
    why = E.classify(mo, allow_multi=True, definition=definition)
    if why:
        return why
    return None if mo.flags.fanout_failures >= 1 else "no-fanout-failure"


def accept_any_clean(mo, definition=None):
    return E.classify(mo, definition=definition)


def accept_clean_or_handled(mo, definition=None):
    # also fan-out failures that the fan-out state's own Retry/Catch handles (family retry_fanout1: no siblings in flight)
    return E.classify(mo, allow_handled=True, definition=definition)


SPECS = {
    "C05": dict(
        families=["fanout_ok", "fanout_ok", "general", "retry"], policies=ALL_POLICIES, max_exec=2, accept=accept_no_failure, compare=True,
        types=("STANDARD", "EXPRESS"),
        monitors=lambda models: [JoinMonitor()], relabel=("C05",), n_quick=2200, n_thorough=120000,
        rule="generated Parallel/Map programs (nesting to the tier's depth, item arrays of length 0..bound, every "
             "MaxConcurrency 0..len+1, Task/Wait/Pass iterators) whose branches all succeed, run under a seeded "
             "schedule policy plus the complete set of completion-order permutations for fan-out <= 4 (slice marked "
             "exhaustive) and a slice in which the same Parallel/Map state is entered 2-3 times by a counting loop with a "
             "different completion order in every pass, and a slice in which one iteration/branch fails into a Catch inside "
             "the iteration and sits in its fallback Task while the siblings (and, with MaxConcurrency, the rest of its "
             "batch) finish; the terminal output must equal the reference model's (position i = branch/item i), the "
             "multiset of task requests must equal the model's (each item processed once), the fan-out state may exit "
             "only after all of its branches ended, and iterations in flight never exceed MaxConcurrency; distinct = "
             "distinct (scenario, interleaving) hashes"),
    "C06": dict(
        families=["fanout_fail", "fanout_fail", "general"], policies=ALL_POLICIES, max_exec=2,
        accept=accept_single_failure_only, compare=True, types=("STANDARD", "STANDARD", "EXPRESS"),
        monitors=lambda models: [NotifyMonitor("C06", check_shape=False), BrokerMonitor(carrier=False), SiblingMonitor(),
                                 HistoryMonitor(api_check=False)],
        relabel=("C06", "C03", "C09", "C02"), n_quick=2200, n_thorough=120000,
        rule="generated non-nested Parallel/Map programs in which (by the reference model) one, several or all "
             "branches/iterations fail and the fan-out state itself has no Retry/Catch (branch-level Retry/Catch "
             "allowed), plus 6 hand-written nested fan-out failure scenarios under every schedule policy and a fixed probe for "
             "the recorded handled-failure finding, and a slice in which the branch fails shortly before the execution deadline "
             "while a sibling's next event is still in flight and arrives after it; failure instant placed by the seeded schedule relative to sibling events, "
             "replies and timers; oracles: the execution fails with the failing branch's error, exactly one terminal "
             "notification, no state of the failed fan-out is entered and no task request is issued for it after the "
             "failure, nothing is appended to the history after the terminal event, nothing stays unacknowledged and "
             "the engine's per-execution dictionaries are empty at quiescence; distinct = distinct (scenario, "
             "interleaving) hashes"),
    "C09": dict(
        families=["sequential", "fanout_ok", "general", "retry", "fanout_fail", "retry_fanout1"], policies=ALL_POLICIES, max_exec=2,
        accept=accept_clean_or_handled, compare=False, types=("STANDARD", "STANDARD", "EXPRESS"),
        monitors=lambda models: [HistoryMonitor(models)], relabel=("C09",), n_quick=2500, n_thorough=120000,
        rule="executions generated for C01/C05/C06/C07 (all state types, success and failure paths, retries, fan-out, Map/Parallel "
             "states retried or caught as a whole with batches and waiting siblings; some machines with a loggingConfiguration) "
             "under seeded schedule policies; after every scheduler step the newly appended history events are "
             "validated (ids 1..n, previousEventId, non-decreasing timestamps, ExecutionStarted first with the input, "
             "nothing after the terminal event); at the end the terminal event must agree with the record, "
             "StateEntered/StateExited pairing and order are compared with the reference model's transitions, "
             "GetExecutionHistory (both orders) must return the stored list, EXPRESS executions must have neither "
             "record nor history; distinct = distinct (scenario, interleaving) hashes"),
}


def requests_multiset(reqs):
    out = {}
    for r in reqs:
        k = (r["fn"], json.dumps(r["payload"], sort_keys=True))
        out[k] = out.get(k, 0) + 1
    return out


def check(prop, scn, seed, models=None, skipped=None, extra_probes=None, judge_all=False):
    spec = SPECS[prop]
    probes = dict(extra_probes or {})
    judged_all = judge_all or models is not None     # (goes into the replay file: a replay judges what the run judged)
    for k, v in (skipped or {}).items():
        probes["regenerated:" + k] = v
    if not scn["executions"]:
        return {"evaluations": 1, "probes": {"empty": 1}, "findings": [], "distinct": []}
    if models is None:
        models = {ex["name"]: E.model_for(scn, k) for k, ex in enumerate(scn["executions"])}
        if not judge_all:
            # a replayed or shrunk scenario: it is judged only while every execution stays inside the region this
            # property's generator accepts (a shrink may otherwise walk into a recorded finding of another property)
            for ex in scn["executions"]:
                why = spec["accept"](models[ex["name"]], definition=scn["machines"][ex["machine"]]["definition"])
                if why and why != "no-fanout-failure":
                    return {"evaluations": 1, "probes": {"skipped:" + str(why): 1}, "findings": [], "distinct": []}
    if any(mo is not None and getattr(mo.flags, "big_data", False) for mo in models.values()):
        # (whatever slice the scenario comes from: the reference model does not know the data quota)
        return {"evaluations": 1, "probes": {"skipped:data-near-quota": 1}, "findings": [], "distinct": []}
    timing_sensitive = scn["config"].get("latency", "zero") != "zero" and \
        "TimeoutSeconds" in json.dumps([m["definition"] for m in scn["machines"].values()])
    mons = spec["monitors"]({} if timing_sensitive else models)
    ttl = scn["config"].get("execution_ttl", 86400)
    res = run_scenario(scn, seed, monitors=mons, horizon=ttl + 800)
    findings = []
    for f in res.findings:
        if f["property"] in spec["relabel"]:
            f = dict(f)
            f["property"] = prop
            findings.append(f)
    for m in mons:
        for k, v in m.probes.items():
            probes[k] = probes.get(k, 0) + v
    if timing_sensitive:
        probes["compare-skipped:latency-with-timeouts"] = 1
    if spec["compare"] and not timing_sensitive:
        for ex in scn["executions"]:
            mo = models.get(ex["name"])
            if mo is None or mo.unsupported:
                continue
            arn = E.EX_ARN % (ex["machine"], ex["name"])
            evs = res.world.terminal_events().get(arn, [])
            term = evs[0]["body"]["detail"] if evs else None
            diff = E.compare_outcome(mo, term)
            if diff:
                findings.append({"property": prop, "rule": "outcome-mismatch", "witness": None,
                                 "detail": "%s: %s" % (ex["name"], diff)})
        if prop == "C05":
            from model.asl import has_placeholder
            want = {}
            loose = set()   # functions whose payload contains text the model does not predict: compare counts only
            for mo in models.values():
                for (t, fn, payload, name, attempt) in mo.requests:
                    if has_placeholder(payload):
                        loose.add(fn)
            for mo in models.values():
                for (t, fn, payload, name, attempt) in mo.requests:
                    k = (fn, "*" if fn in loose else json.dumps(payload, sort_keys=True))
                    want[k] = want.get(k, 0) + 1
            got = {}
            for r in res.world.workers.requests:
                k = (r["fn"], "*" if r["fn"] in loose else json.dumps(r["payload"], sort_keys=True))
                got[k] = got.get(k, 0) + 1
            if want != got:
                d = [(k, want.get(k, 0), got.get(k, 0)) for k in sorted(set(want) | set(got)) if want.get(k) != got.get(k)]
                findings.append({"property": prop, "rule": "task-requests-differ-from-model", "witness": None,
                                 "detail": "(fn, payload, model, engine): %r" % (d[:4],)})
    if prop == "C05" and spec["compare"] and not timing_sensitive and not findings:
        # The concurrency bound seen from the workers, at any nesting depth: with MaxConcurrency n the items of a later
        # batch cannot be requested before the batch before them is through.  The reference model is the zero-latency
        # run, a lower bound for every request instant (each instant is a max/plus expression of delays and latencies):
        # equal instants under the zero-latency schedules, never earlier under the others.  An iteration launched beyond
        # the bound shows as a request that comes too early.
        from checks import timing
        exact = scn["config"].get("latency", "zero") == "zero"
        for k, ex in enumerate(scn["executions"]):
            mo = models.get(ex["name"])
            if mo is None or mo.unsupported or mo.status is None or mo.flags.tie or mo.flags.cancel_tie or \
                    mo.flags.fanout_failures or mo.flags.deadline_tie or ex.get("via", "api") != "api":
                continue
            t0 = timing.start_time(res, ex["name"])
            fns = set(r[1] for r in mo.requests)
            prefix = "x%d" % k if fns and all(f.startswith("x%d" % k) for f in fns) else ""
            if t0 is None or (prefix == "" and len(scn["executions"]) > 1):
                continue
            arn = E.EX_ARN % (ex["machine"], ex["name"])
            probes["request-instants-compared"] = probes.get("request-instants-compared", 0) + 1
            for rule, detail in timing.compare_instants(mo, res, arn, t0, exact, fn_prefix=prefix):
                if rule in ("request-instant", "request-early", "request-count"):
                    findings.append({"property": prop, "rule": rule, "witness": None, "detail": "%s: %s" % (ex["name"], detail)})
    if prop == "C09" and not findings:
        findings.extend(history_api_check(prop, res, scn))
    if res.sim.errors:
        findings.append({"property": prop, "rule": "engine-exception", "witness": None,
                         "detail": repr(res.sim.errors[0][:3])})
    # A sibling branch's event that is in flight - published, not yet handled - at the very instant a fan-out failure is
    # handled by the fan-out's own Catch: once the handler has ended the execution the 'terminated' marker is gone with the
    # join state and the event carries on (recorded C06 finding, reached here through a tie that only the non-FIFO
    # schedules can order that way).  What such a run appends after the end is reported under that witness.
    if scn["config"].get("policy") != "canonical" and any(
            mo is not None and mo.flags.cancel_tie and mo.flags.fanout_handled for mo in models.values()):
        for f in findings:
            if f["rule"] in ("appended-after-end", "history-terminal-event"):
                f["witness"] = "sibling-event-in-flight-at-handled-failure"
    E.attach_replay(findings, scn, seed, res, extra={"judge_all": judged_all})
    probes["executions"] = len(scn["executions"])
    probes["policy:" + scn["config"]["policy"] + "/" + str(scn["config"]["latency"])] = 1
    for mo in models.values():
        probes["model:" + str(mo.status)] = probes.get("model:" + str(mo.status), 0) + 1
    sample = {"executions": [(e["name"], scn["machines"][e["machine"]].get("family"),
                              scn["machines"][e["machine"]].get("type")) for e in scn["executions"]],
              "policy": scn["config"]["policy"], "steps": res.sim.steps,
              "history_updates": sum(len(n.history_log) for n in res.world.nodes)}
    return common.summarize_run(res, prop, findings, True, sample, probes, E.nontrivial_hash(scn, res))


def history_api_check(prop, res, scn):
    out = []
    w = res.world
    n = w.nodes[0]
    if n.state_engine is None:
        return out
    for ex in scn["executions"]:
        arn = E.EX_ARN % (ex["machine"], ex["name"])
        typ = scn["machines"][ex["machine"]].get("type", "STANDARD")
        fwd = w.api_sync(n, "GetExecutionHistory", {"executionArn": arn})
        if typ == "EXPRESS":
            if fwd["status"] != 400 or (fwd["json"] or {}).get("__type") != "ExecutionDoesNotExist":
                out.append({"property": prop, "rule": "express-has-history", "witness": "api",
                            "detail": "GetExecutionHistory for EXPRESS %s answered %s %s" % (arn, fwd["status"], fwd["body"][:200])})
            d = w.api_sync(n, "DescribeExecution", {"executionArn": arn})
            if d["status"] != 400:
                out.append({"property": prop, "rule": "express-has-record", "witness": "api",
                            "detail": "DescribeExecution for EXPRESS %s answered %s" % (arn, d["status"])})
            continue
        rev = w.api_sync(n, "GetExecutionHistory", {"executionArn": arn, "reverseOrder": True})
        # reading is reading: whatever options a client reads the history with, the next reader gets the same events
        w.api_sync(n, "GetExecutionHistory", {"executionArn": arn, "includeExecutionData": False, "maxResults": 3})
        again = w.api_sync(n, "GetExecutionHistory", {"executionArn": arn})
        if fwd["status"] == 200 and (again["status"] != 200 or again["json"] != fwd["json"]):
            out.append({"property": prop, "rule": "history-api", "witness": "read-changed-history",
                        "detail": "GetExecutionHistory of %s answers differently after the history was read with other "
                                  "options (includeExecutionData false)" % arn})
        stored = n.state_engine.execution_history.get(arn)
        if fwd["status"] != 200 or rev["status"] != 200:
            out.append({"property": prop, "rule": "history-api", "witness": None,
                        "detail": "GetExecutionHistory %s -> %s / %s" % (arn, fwd["status"], rev["status"])})
            continue
        a = fwd["json"]["events"]
        b = rev["json"]["events"]
        if a != json.loads(json.dumps(stored)):
            out.append({"property": prop, "rule": "history-api", "witness": "forward",
                        "detail": "GetExecutionHistory differs from the stored history of %s" % arn})
        if b != list(reversed(a)):
            out.append({"property": prop, "rule": "history-api", "witness": "reverse",
                        "detail": "reverseOrder is not the exact reverse for %s" % arn})
    return out


# ------------------------------------------------------------------------------------------
def make(prop, i, tier):
    spec = SPECS[prop]
    seed = common.run_seed(i)
    rng = random.Random(seed)
    cfg = E.swarm_config(rng, spec["policies"], ttls=(600, 3600), max_nodes=1,
                         transports=("asyncio", "asyncio", "blocking"))
    scn, models, skipped = E.gen_multi(rng, spec["families"], tier, spec["max_exec"], cfg, types=spec["types"],
                                       accept=spec["accept"])
    if prop == "C09":
        # what a machine's loggingConfiguration sends to the log (and redacts there) must not touch the stored history
        from checks import c11
        before = dict((ex["name"], ex["input"]) for ex in scn["executions"])
        c11.add_logging(random.Random(seed ^ 0x109), scn, 0.3)
        for ex in scn["executions"]:
            if ex["input"] is not before[ex["name"]]:
                # (the larger payload given to some logged machines: the reference model is run again on it)
                one = {"machines": {ex["machine"]: scn["machines"][ex["machine"]]}, "executions": [ex],
                       "script": scn["script"], "config": cfg}
                mo = E.model_for(one)
                if spec["accept"](mo, definition=scn["machines"][ex["machine"]]["definition"]) is None:
                    models[ex["name"]] = mo
                else:
                    ex["input"] = before[ex["name"]]
    return seed, scn, models, skipped


def run_one(item, extra):
    prop = extra["prop"]
    if isinstance(item, tuple):
        kind = item[0]
        if kind == "perm":
            return run_perm(prop, item[1])
        if kind == "loop":
            return run_loop(prop, item[1])
        if kind == "hand":
            return run_hand(prop, item[1])
        if kind == "plain-input":
            return run_plain_input(prop, item[1])
        if kind == "wide":
            return run_wide(prop, item[1])
        if kind == "nested-batches":
            return run_nested_batches(prop, item[1])
        if kind == "caught":
            return run_caught(prop, item[1])
        if kind == "near-deadline":
            return run_near_deadline(prop, item[1])
        if kind == "nested":
            from gen import corpus
            cfg = E.policy_cfg(item[2])
            cfg["execution_ttl"] = 600
            return check(prop, corpus.nested_scenario(item[1], cfg), item[3], extra_probes={"nested-corpus": 1}, judge_all=True)
        if kind == "probe":
            mod = __import__("checks.%s" % prop.lower(), fromlist=["run_probe"])
            return mod.run_probe(item[1])
    seed, scn, models, skipped = make(prop, item, extra["tier"])
    return check(prop, scn, seed, models, skipped)


# -- C05: every completion order for small fan-out ----------------------------------------------
def perm_items(max_k):
    items = []
    for k in range(1, max_k + 1):
        for perm in itertools.permutations(range(k)):
            items.append(("perm", {"kind": "Parallel", "k": k, "perm": list(perm), "mc": 0}))
            for mc in range(0, k + 2):
                items.append(("perm", {"kind": "Map", "k": k, "perm": list(perm), "mc": mc}))
    return items


def perm_scenario(p):
    k, perm, kind, mc = p["k"], p["perm"], p["kind"], p["mc"]
    fn_arn = E.GM.FN_ARN
    # branch/item i finishes at time 1+perm[i]  (perm = completion rank)
    if kind == "Parallel":
        branches = []
        script = {}
        for i in range(k):
            fn = "w%d" % i
            script[fn] = [{"ok": {"op": "wrap"}, "delay": 1.0 + perm[i]}]
            branches.append({"StartAt": "T%d" % i, "States": {"T%d" % i: {"Type": "Task", "Resource": fn_arn + fn,
                                                                        "Parameters": {"b": i, "x.$": "$.x"}, "End": True}}})
        d = {"StartAt": "P", "States": {"P": {"Type": "Parallel", "Branches": branches, "ResultPath": "$.r", "Next": "A"},
                                        "A": {"Type": "Task", "Resource": fn_arn + "after", "End": True}}}
        inp = {"x": 7}
        script["after"] = [{"ok": {"op": "echo"}}]
    else:
        items = [{"i": i} for i in range(k)]
        dm = {}
        for i in range(k):
            dm[json.dumps({"i": i}, sort_keys=True, separators=(",", ":"))] = 1.0 + perm[i]
        script = {"w": [{"ok": {"op": "wrap"}, "delay_map": dm}], "after": [{"ok": {"op": "echo"}}]}
        m = {"Type": "Map", "ItemsPath": "$.items", "ItemProcessor": {"StartAt": "T", "States": {
            "T": {"Type": "Task", "Resource": fn_arn + "w", "End": True}}}, "ResultPath": "$.r", "Next": "A"}
        if mc is not None:
            m["MaxConcurrency"] = mc
        d = {"StartAt": "M", "States": {"M": m, "A": {"Type": "Task", "Resource": fn_arn + "after", "End": True}}}
        inp = {"items": items}
    return {"machines": {"m0": {"definition": d, "type": "STANDARD", "family": "perm"}},
            "executions": [{"machine": "m0", "input": inp, "name": "e0"}], "script": script,
            "functions": sorted(script.keys()), "config": {"policy": "canonical", "latency": "zero",
                                                            "execution_ttl": 600}}


def loop_scenario(i):
    """The same Parallel/Map state entered several times in one execution (a counting loop around it), the branches of
    every pass finishing in a different order: each entry is a join of its own."""
    seed = common.run_seed(8000000 + i)
    rng = random.Random(seed)
    fn_arn = E.GM.FN_ARN
    kind = rng.choice(["Parallel", "Map", "Map"])
    k = rng.randint(2, 4)
    passes = rng.choice([2, 2, 3])
    delays = [0.0, 0.5, 1.0, 2.0, 3.0]
    dm = {}
    for n in range(passes):
        for b in range(k):
            dm[json.dumps({"b": b, "n": n}, sort_keys=True, separators=(",", ":"))] = rng.choice(delays)
    script = {"w": [{"ok": {"op": rng.choice(["wrap", "tag"])}, "delay_map": dm}], "after": [{"ok": {"op": "echo"}}]}
    if kind == "Parallel":
        fan = {"Type": "Parallel", "ResultPath": "$.r", "Next": "Inc", "Branches": [
            {"StartAt": "T%d" % b, "States": {"T%d" % b: {"Type": "Task", "Resource": fn_arn + "w",
                                                          "Parameters": {"b": b, "n.$": "$.n"}, "End": True}}}
            for b in range(k)]}
    else:
        fan = {"Type": "Map", "ItemsPath": "$.items", "ResultPath": "$.r", "Next": "Inc",
               "ItemSelector": {"b.$": "$$.Map.Item.Value", "n.$": "$.n"},
               "ItemProcessor": {"StartAt": "T", "States": {"T": {"Type": "Task", "Resource": fn_arn + "w", "End": True}}}}
        if rng.random() < 0.6:
            fan["MaxConcurrency"] = rng.randint(0, k + 1)
    d = {"StartAt": "F", "States": {
        "F": fan,
        "Inc": {"Type": "Pass", "Parameters": {"n.$": "States.MathAdd($.n, 1)", "items.$": "$.items", "last.$": "$.r",
                                                 "all.$": "States.Array($.all, $.r)"}, "Next": "More"},
        "More": {"Type": "Choice", "Choices": [{"Variable": "$.n", "NumericLessThan": passes, "Next": "F"}], "Default": "A"},
        "A": {"Type": "Task", "Resource": fn_arn + "after", "End": True}}}
    cfg = E.policy_cfg(rng.choice(ALL_POLICIES))
    cfg["execution_ttl"] = 600
    scn = {"machines": {"m0": {"definition": d, "type": rng.choice(["STANDARD", "EXPRESS"]), "family": "loop"}},
           "executions": [{"machine": "m0", "input": {"n": 0, "items": list(range(k)), "all": []}, "name": "e0"}],
           "script": script, "functions": sorted(script.keys()), "config": cfg}
    return seed, scn


def caught_scenario(i):
    """A Map (MaxConcurrency batches) or Parallel one of whose iterations/branches fails into a Catch INSIDE the
    iteration and spends time in the fallback while its siblings finish: the slot of that iteration is not done until
    the fallback has ended - no early next batch, no early join."""
    seed = common.run_seed(8200000 + i)
    rng = random.Random(seed)
    fn_arn = E.GM.FN_ARN
    k = rng.randint(2, 5)
    bad = rng.randrange(k)
    via = rng.choice(["error", "timeout"])
    fb_delay = rng.choice([1.0, 2.0, 4.0])
    work = {"Type": "Task", "Resource": fn_arn + "work", "End": True,
            "Catch": [{"ErrorEquals": ["States.ALL"], "ResultPath": "$.err", "Next": "FB"}]}
    if via == "timeout":
        work["TimeoutSeconds"] = 1
    sub = {"StartAt": "C", "States": {
        "C": {"Type": "Choice", "Choices": [{"Variable": "$.bad", "BooleanEquals": True, "Next": "B"}], "Default": "G"},
        "G": {"Type": "Task", "Resource": fn_arn + "good", "End": True},
        "B": dict(work, Resource=fn_arn + "bad"),
        "FB": {"Type": "Task", "Resource": fn_arn + "fallback", "ResultPath": "$.fb", "End": True}}}
    dm = {}
    for b in range(k):
        dm[json.dumps({"b": b, "bad": b == bad}, sort_keys=True, separators=(",", ":"))] = rng.choice([0.0, 0.5, 1.0, 1.5])
    script = {"good": [{"ok": {"op": "tag"}, "delay_map": dm}],
              "bad": [{"err": "E.Alpha", "msg": "no", "delay": 0.5}] if via == "error" else [{"noreply": True}],
              "fallback": [{"ok": {"op": "const", "value": "recovered"}, "delay": fb_delay}], "after": [{"ok": {"op": "echo"}}]}
    if rng.random() < 0.7:
        fan = {"Type": "Map", "ItemsPath": "$.items", "ResultPath": "$.r", "Next": "A", "ItemProcessor": sub,
               "MaxConcurrency": rng.randint(1, k)}
    else:
        def branch(b):
            # the iterator above with state names of its own (names are unique across a machine), fed by a Pass
            txt = json.dumps(sub)
            for nm in ("C", "G", "B", "FB"):
                txt = txt.replace('"%s"' % nm, '"%s%d"' % (nm, b))
            m = json.loads(txt)
            m["States"]["S%d" % b] = {"Type": "Pass", "Parameters": {"b": b, "bad": b == bad}, "Next": "C%d" % b}
            m["StartAt"] = "S%d" % b
            return m
        fan = {"Type": "Parallel", "ResultPath": "$.r", "Next": "A", "Branches": [branch(b) for b in range(k)]}
    d = {"StartAt": "F", "States": {"F": fan, "A": {"Type": "Task", "Resource": fn_arn + "after", "End": True}}}
    cfg = E.policy_cfg(rng.choice(ALL_POLICIES))
    cfg["execution_ttl"] = 600
    inp = {"items": [{"b": b, "bad": b == bad} for b in range(k)], "one": [1]}
    scn = {"machines": {"m0": {"definition": d, "type": rng.choice(["STANDARD", "EXPRESS"]), "family": "caught-inside"}},
           "executions": [{"machine": "m0", "input": inp, "name": "e0"}],
           "script": script, "functions": sorted(script.keys()), "config": cfg}
    return seed, scn


def run_caught(prop, i):
    seed, scn = caught_scenario(i)
    return check(prop, scn, seed, extra_probes={"error-caught-inside-an-iteration": 1}, judge_all=True)


def near_deadline_scenario(i):
    """A branch fails shortly before the execution deadline while a sibling's next-state event is in flight and only
    arrives after the deadline (every hop takes 0.1 s): that event belongs to a terminated branch and must be dropped,
    not processed as an execution time-out of its own."""
    seed = common.run_seed(8400000 + i)
    rng = random.Random(seed)
    fn_arn = E.GM.FN_ARN
    T = rng.choice([3, 5])
    # every hop takes 0.1 s: the StartExecution answer fixes StartTime at 0.1, so the deadline is at T + 0.1; the sibling's
    # chain of Pass states is handled at T - 0.87 + phase + 0.1 k; the failure is handled at 0.4 + delay
    phase = rng.choice([0.0, 0.02, 0.03, 0.05, 0.07])
    w = round(T - 1.2 + phase, 3)
    n = rng.randint(10, 14)
    chain = {"W": {"Type": "Wait", "SecondsPath": "$.w", "Next": "P0"}}
    for k in range(n):
        chain["P%d" % k] = {"Type": "Pass", "Next": "P%d" % (k + 1)} if k < n - 1 else {"Type": "Pass", "End": True}
    sib = {"StartAt": "W", "States": chain}
    bad = {"StartAt": "B", "States": {"B": {"Type": "Task", "Resource": fn_arn + "bad", "End": True}}}
    fan = {"Type": "Parallel", "Branches": [bad, sib] if rng.random() < 0.5 else [sib, bad], "End": True}
    if rng.random() < 0.4:
        fan["Catch"] = [{"ErrorEquals": ["E.Alpha"], "ResultPath": "$.err", "Next": "H"}]
    d = {"TimeoutSeconds": T, "StartAt": "F", "States": {"F": fan, "H": {"Type": "Pass", "End": True}}}
    # failure a little after one of the chain's events around the deadline was published (so that event is in flight)
    fail_at = round(T + phase + rng.choice([-0.27, -0.17, -0.07, -0.06, 0.03, 0.04, 0.06]) + rng.choice([0.0, 0.005]), 3)
    script = {"bad": [{"err": "E.Alpha", "msg": "no", "delay": max(0.0, round(fail_at - 0.4, 3))}]}
    cfg = {"policy": "latency", "latency": {"pub": ("fixed", 0.1), "reply": ("fixed", 0.1)}, "execution_ttl": 600}
    scn = {"machines": {"m0": {"definition": d, "type": rng.choice(["STANDARD", "EXPRESS"]), "family": "near-deadline"}},
           "executions": [{"machine": "m0", "input": {"k": 1, "w": w}, "name": "e0"}],
           "script": script, "functions": ["bad"], "config": cfg}
    return seed, scn


def run_near_deadline(prop, i):
    seed, scn = near_deadline_scenario(i)
    return check(prop, scn, seed, extra_probes={"branch-failure-near-the-execution-deadline": 1}, judge_all=True)


def run_plain_input(prop, i):
    """Inputs that are not objects - arrays, scalars, and the ones that are falsy in Python ([] 0 false "") - through
    both front ends: the history begins with exactly that input and the states pass it on."""
    seed = common.run_seed(8600000 + i)
    rng = random.Random(seed)
    fn_arn = E.GM.FN_ARN
    inp = rng.choice([[], 0, False, "", [1, 2], "text", 5, 2.5, True, [[]], [0], {"a": None}, {}])
    d = {"StartAt": "P", "States": {"P": {"Type": "Pass", "Next": "T"},
                                    "T": {"Type": "Task", "Resource": fn_arn + "echo", "Next": "S"},
                                    "S": {"Type": "Succeed"}}}
    cfg = E.swarm_config(rng, ALL_POLICIES, ttls=(600,), max_nodes=1, transports=("asyncio", "blocking"))
    scn = {"machines": {"m0": {"definition": d, "type": "STANDARD", "family": "plain-input"}},
           "executions": [{"machine": "m0", "input": inp, "name": "e0"}],
           "script": {"echo": [{"ok": {"op": "echo"}, "delay": 0.5}]}, "functions": ["echo"], "config": cfg}
    return check(prop, scn, seed, extra_probes={"non-object-input": 1}, judge_all=True)


def run_nested_batches(prop, i):
    """Several instances of ONE Map state with MaxConcurrency batches in progress at once: it sits in the iterations of an
    (unbatched) outer Map or in the branches' shared... each instance has its own items, batches and join."""
    seed = common.run_seed(8700000 + i)
    rng = random.Random(seed)
    fn_arn = E.GM.FN_ARN
    g = rng.randint(2, 3)
    groups = []
    dm = {}
    n = 0
    for k in range(g):
        items = []
        for _ in range(rng.randint(2, 4)):
            n += 1
            items.append(n * 10 + k)
            dm[json.dumps(n * 10 + k)] = rng.choice([0.0, 0.5, 1.0, 1.5, 2.0])
        groups.append({"items": items})
    inner = {"Type": "Map", "ItemsPath": "$.items", "MaxConcurrency": rng.choice([1, 1, 2]), "End": True,
             rng.choice(["ItemProcessor", "Iterator"]): {"StartAt": "T", "States": {
                 "T": {"Type": "Task", "Resource": fn_arn + "w", "End": True}}}}
    outer = {"Type": "Map", "ItemsPath": "$.groups", "ResultPath": "$.r", "Next": "A",
             "ItemProcessor": {"StartAt": "I", "States": {"I": inner}}}
    d = {"StartAt": "O", "States": {"O": outer, "A": {"Type": "Task", "Resource": fn_arn + "after", "End": True}}}
    cfg = E.policy_cfg(rng.choice(ALL_POLICIES))
    cfg["execution_ttl"] = 600
    scn = {"machines": {"m0": {"definition": d, "type": rng.choice(["STANDARD", "EXPRESS"]), "family": "nested-batches"}},
           "executions": [{"machine": "m0", "input": {"groups": groups}, "name": "e0"}],
           "script": {"w": [{"ok": {"op": "wrap"}, "delay_map": dm}], "after": [{"ok": {"op": "echo"}}]},
           "functions": ["after", "w"], "config": cfg}
    return check(prop, scn, seed, extra_probes={"batched-map-instances-side-by-side": 1}, judge_all=True)


def run_wide(prop, i):
    """Item arrays well beyond the generator's sizes (41..100 items) under a MaxConcurrency around and above 40 - the AWS
    limit for inline Maps, a number an implementation may know - and under none."""
    seed = common.run_seed(8900000 + i)
    rng = random.Random(seed)
    fn_arn = E.GM.FN_ARN
    n = rng.choice([41, 48, 64, 100])
    mc = rng.choice([0, 39, 40, 41, 45, n - 1, n, n + 1])
    items = list(range(100, 100 + n))
    dm = dict((json.dumps(v), rng.choice([0.5, 1.0, 1.0, 2.0])) for v in items)
    d = {"StartAt": "M", "States": {
        "M": {"Type": "Map", "ItemsPath": "$.items", "MaxConcurrency": mc, "ResultPath": "$.r", "Next": "A",
              rng.choice(["ItemProcessor", "Iterator"]): {"StartAt": "T", "States": {
                  "T": {"Type": "Task", "Resource": fn_arn + "w", "End": True}}}},
        "A": {"Type": "Task", "Resource": fn_arn + "after", "InputPath": "$.r", "End": True}}}
    if mc == 0 and rng.random() < 0.5:
        del d["States"]["M"]["MaxConcurrency"]
    cfg = E.policy_cfg(rng.choice(ALL_POLICIES + ["canonical"] * 3))
    cfg["execution_ttl"] = 3600
    scn = {"machines": {"m0": {"definition": d, "type": rng.choice(["STANDARD", "EXPRESS"]), "family": "wide-map"}},
           "executions": [{"machine": "m0", "input": {"items": items}, "name": "e0"}],
           "script": {"w": [{"ok": {"op": "wrap"}, "delay_map": dm}], "after": [{"ok": {"op": "len"}}]},
           "functions": ["after", "w"], "config": cfg}
    return check(prop, scn, seed, extra_probes={"wide-map:%d-items" % n: 1}, judge_all=True)


def run_loop(prop, i):
    seed, scn = loop_scenario(i)
    return check(prop, scn, seed, extra_probes={"fan-out-re-entered-in-a-loop": 1}, judge_all=True)


def run_hand(prop, i):
    """C07's hand-shaped fan-out error-handling families (a Map with MaxConcurrency batches retried/caught as a whole, a
    Parallel whose failing branch has waiting siblings) under this property's monitors and any schedule policy."""
    from checks import c07
    seed = common.run_seed(8500000 + i)
    rng = random.Random(seed)
    fam = rng.choice(sorted(c07.HAND))
    prog = c07.HAND[fam](rng)
    cfg = E.swarm_config(rng, ALL_POLICIES + ["canonical"] * 5, ttls=(600, 3600))
    scn = E.scenario_of(prog, cfg, 1, rng.choice(["STANDARD", "STANDARD", "EXPRESS"]))
    scn["machines"]["m"]["family"] = fam
    mo = E.model_for(scn)
    if E.flags_block(mo) or mo.unsupported:
        return {"evaluations": 1, "probes": {"skipped:hand": 1}, "findings": [], "distinct": []}
    return check(prop, scn, seed, {"e1": mo}, extra_probes={"hand-shaped:" + fam: 1})


def run_perm(prop, p):
    scn = perm_scenario(p)
    r = check(prop, scn, 7, extra_probes={"permutation-slice": 1}, judge_all=True)
    # barrier on the worker side: the request of the state after the join comes after every branch reply
    return r


def main_for(prop, argv, extra_items=()):
    if len(argv) > 1 and argv[0] == "--replay":
        return replay(prop, argv[1])
    tier = common.tier()
    spec = SPECS[prop]
    n = spec["n_quick"] if tier == "quick" else spec["n_thorough"]
    rep = common.Report(prop)
    from checks import minimise as _MIN
    rep.minimiser = lambda f: _MIN.scenario(f, lambda scn, seed: check(prop, scn, seed, judge_all=bool(f.get("judge_all"))))
    items = list(extra_items) + list(range(n))
    if prop == "C06":
        from gen import corpus
        reps = 4 if tier == "quick" else 60
        items = [("nested", nm, pol, 100 + k) for nm in sorted(corpus.NESTED) for pol in ALL_POLICIES
                 for k in range(reps)] + [("near-deadline", j) for j in range(150 if tier == "quick" else 6000)] + items
    extra_cov = {}
    if prop == "C09":
        items = [("hand", j) for j in range(300 if tier == "quick" else 12000)] + \
            [("plain-input", j) for j in range(120 if tier == "quick" else 5000)] + items
    if prop == "C05":
        pi = perm_items(4)
        items = pi + [("loop", j) for j in range(200 if tier == "quick" else 8000)] + \
            [("caught", j) for j in range(250 if tier == "quick" else 10000)] + \
            [("nested-batches", j) for j in range(200 if tier == "quick" else 8000)] + \
            [("wide", j) for j in range(24 if tier == "quick" else 600)] + items
        extra_cov["permutation_slice"] = {"exhaustive": True, "cases": len(pi),
                                          "what": "every completion order of k<=4 branches/items x Parallel and Map "
                                                  "with every MaxConcurrency 0..k+1"}
    for r in common.run_batch("checks.monitored", "run_one", items, {"tier": tier, "prop": prop}):
        rep.absorb(r)
    return rep.finish(rule=spec["rule"],
                      assumptions=["no crash/restart faults (C04)", "legal schedules only: per-queue FIFO, timers never early",
                                   "the reference interpreter is a correct reading of the States Language"],
                      extra_cov=extra_cov)


def replay(prop, path):
    with open(path) as f:
        rec = json.load(f)
    r = check(prop, rec["scenario"], rec["seed"], judge_all=bool(rec.get("judge_all")))
    same = [f for f in r["findings"] if f["rule"] == rec["rule"]]
    print("replay %s: %s" % (path, "REPRODUCED rule=%s%s" % (rec["rule"], common.digest_note(rec, same)) if same else "not reproduced"))
    for f in same[:1]:
        print("  ", str(f["detail"])[:500])
    return 1 if same else 0
