"""
C15 - child executions and task-token callbacks complete exactly their launching task.

Parent/child machine pairs for every integration form (startExecution, .sync,
.sync:2, aws-sdk:sfn:startSyncExecution, .waitForTaskToken on rpcmessage and
on startExecution), children that succeed / fail / outlive the parent's
time-out, parents at top level or inside Parallel/Map, invalid combinations,
and streams of SendTaskSuccess/SendTaskFailure calls (valid, duplicate, late,
forged, truncated tokens; ordinary RPC reply before/after the callback) are
interleaved by the seeded scheduler.
"""
import base64
import json
import random
import sys

from checks import common
from checks import engine as E
from lsfsim.core import EPOCH
from lsfsim.runner import run_scenario
from monitors.basic import NotifyMonitor, BrokerMonitor

PROP = "C15"
F = "arn:aws:rpcmessage:local::function:"
SM = "arn:aws:states:local:0123456789:stateMachine:%s"
RESULT_KEYS = {"ExecutionArn", "Input", "Name", "Output", "StartDate", "StateMachineArn", "Status", "StopDate"}
FORMS = {"async": "arn:aws:states:local::states:startExecution",
         "sync": "arn:aws:states:local::states:startExecution.sync",
         "sync2": "arn:aws:states:local::states:startExecution.sync:2",
         "sdk": "arn:aws:states:local::aws-sdk:sfn:startSyncExecution"}
TOL = 2e-3

FALSY = [[], {}, 0, "", False, None]

CHILDREN = {
    "ok": ({"StartAt": "T", "States": {"T": {"Type": "Task", "Resource": F + "cwork", "ResultPath": "$.r", "Next": "P"},
                                       "P": {"Type": "Pass", "End": True}}}, "SUCCEEDED"),
    "fail": ({"StartAt": "T", "States": {"T": {"Type": "Task", "Resource": F + "cwork", "Next": "X"},
                                         "X": {"Type": "Fail", "Error": "E.Child", "Cause": "child failed"}}}, "FAILED"),
    # the child SUCCEEDS with an output that is falsy in Python ([] {} 0 "" false null): still an output
    "falsy": ({"StartAt": "P", "States": {"P": {"Type": "Pass", "Parameters": {"v.$": "$.k"}, "OutputPath": "$.v", "End": True}}},
              "SUCCEEDED"),
    # the child runs into its own execution time-out (TimeoutSeconds 2 inside a 6 s Wait): a failed child like any other
    "timeout": ({"StartAt": "W", "TimeoutSeconds": 2,
                 "States": {"W": {"Type": "Wait", "Seconds": 6, "Next": "T"},
                            "T": {"Type": "Task", "Resource": F + "cwork", "End": True}}}, "FAILED"),
    "slow": ({"StartAt": "W", "States": {"W": {"Type": "Wait", "Seconds": 6, "Next": "T"},
                                         "T": {"Type": "Task", "Resource": F + "cwork", "Next": "T2"},
                                         "T2": {"Type": "Task", "Resource": F + "cwork2", "End": True}}}, "SUCCEEDED"),
}


def parent_machine(form, placement, timeout=None, catch=False, child_name="child", name_param=None):
    params = {"StateMachineArn": SM % child_name, "Input": {"k.$": "$.k"}}
    if name_param:
        params["Name"] = name_param
    t = {"Type": "Task", "Resource": FORMS[form], "Parameters": params, "ResultPath": "$.child"}
    if timeout:
        t["TimeoutSeconds"] = timeout
    if catch:
        t["Catch"] = [{"ErrorEquals": ["States.ALL"], "ResultPath": "$.err", "Next": "H"}]
    if placement == "top":
        t["Next"] = "Z"
        states = {"L": t, "Z": {"Type": "Pass", "End": True}}
        if catch:
            states["H"] = {"Type": "Pass", "Result": "handled", "ResultPath": "$.h", "End": True}
        return {"StartAt": "L", "States": states}
    t["End"] = True
    inner = {"StartAt": "L", "States": {"L": t}}
    if catch:
        inner["States"]["H"] = {"Type": "Pass", "Result": "handled", "ResultPath": "$.h", "End": True}
    if placement == "parallel":
        return {"StartAt": "P", "States": {"P": {"Type": "Parallel", "Branches": [
            inner, {"StartAt": "S", "States": {"S": {"Type": "Wait", "Seconds": 1, "End": True}}}], "End": True}}}
    return {"StartAt": "M", "States": {"M": {"Type": "Map", "ItemsPath": "$.items", "ItemSelector": {
        "k.$": "$$.Map.Item.Value"}, "ItemProcessor": inner, "End": True}}}


def jl(text):
    """The JSON value of a notification's output field (which is JSON text; a field that is not text is reported by the
    shape rules, the value is used as it is so that the other rules can still be evaluated)."""
    if isinstance(text, str):
        try:
            return json.loads(text)
        except ValueError:
            return None
    return text


def find_child_results(out, acc=None):
    """All values stored under 'child' in the parent's output."""
    acc = [] if acc is None else acc
    if isinstance(out, dict):
        for k, v in out.items():
            if k == "child":
                acc.append(v)
            else:
                find_child_results(v, acc)
    elif isinstance(out, list):
        for v in out:
            find_child_results(v, acc)
    return acc


def add(findings, rule, detail, witness=None):
    findings.append({"property": PROP, "rule": rule, "witness": witness, "detail": detail})


# ------------------------------------------------------------------------------------------
def child_case(rng, seed):
    form = rng.choice(["async", "sync", "sync", "sync2", "sync2", "sdk"])
    kind = rng.choice(["ok", "ok", "fail", "slow", "falsy", "timeout"])
    placement = rng.choice(["top", "top", "parallel", "map"])
    if kind == "falsy" and placement == "map":
        placement = "top"
    ptype = rng.choice(["STANDARD", "STANDARD", "EXPRESS"])
    ctype = rng.choice(["STANDARD", "EXPRESS"])
    catch = rng.random() < 0.4
    timeout = rng.choice([None, None, 3]) if form != "async" else None
    unknown = rng.random() < 0.08
    policy = rng.choice(["canonical", "shuffle", "pct", "latency-small"])
    cfg = E.policy_cfg(policy)
    cfg["execution_ttl"] = 600
    cfg["store"] = rng.choice(["file", "file", "redis"])     # (what "no such state machine" looks like differs per store)
    cfg["tz"] = rng.choice(["UTC0", "SIM-05:30", "SIM+03:00", "SIM-12:45"])   # (children get time stamps of their own)
    cdef, cstatus = CHILDREN[kind]
    # the parent's own execution name may be as long as a name can be: the children it launches still get names (and
    # ARNs) of their own
    pname = rng.choice(["p1", "p1", "p1", "n" * 80, "order-2024-06-30T23.59.59Z_batch-0000017_retry-3_region-eu-west-1_customer-00042x"[:80]])
    inp = {"k": 7, "items": [1, 2]} if placement == "map" else {"k": 7}
    if kind == "falsy":
        inp["k"] = rng.choice(FALSY[:5])      # (null as a whole document is a recorded C01 finding)
    script = {"cwork": [{"ok": {"op": "wrap"}, "delay": 2.0}], "cwork2": [{"ok": {"op": "tag"}, "delay": 1.0}]}
    scn = {"machines": {"child": {"definition": cdef, "type": ctype},
                        "parent": {"definition": parent_machine(form, placement, timeout, catch,
                                                                "ghost" if unknown else "child"), "type": ptype}},
           "executions": [{"machine": "parent", "input": inp, "name": pname}], "script": script,
           "functions": sorted(script), "config": cfg}
    meta = dict(form=form, kind=kind, placement=placement, ptype=ptype, ctype=ctype, catch=catch, timeout=timeout,
                unknown=unknown, policy=policy, exact=cfg["latency"] == "zero", pname=pname)
    return scn, meta


def check_child(scn, meta, seed):
    findings = []
    mons = [NotifyMonitor(PROP, check_shape=False), BrokerMonitor(carrier=False)]
    res = run_scenario(scn, seed, monitors=mons, horizon=1500)
    for f in res.findings:
        if f["property"] in (PROP, "C03") and f["rule"] in ("terminal-twice", "running-twice", "never-terminal", "leak",
                                                            "never-acked", "ack-twice"):
            findings.append(dict(f, property=PROP))
    w = res.world
    parn = E.EX_ARN % ("parent", meta.get("pname", "p1"))
    pt = w.terminal_events().get(parn, [])
    if not pt:
        return res, findings
    pd = pt[0]["body"]["detail"]
    t_parent = pt[0]["published_at"]
    childs = {}
    for ev in w.subscriber.events:
        d = ev["body"]["detail"]
        if d["stateMachineArn"] == SM % "child":
            childs.setdefault(d["executionArn"], []).append((d["status"], ev["published_at"], d))
    form, kind = meta["form"], meta["kind"]
    n_expected = 2 if meta["placement"] == "map" else 1
    # invalid combinations: the task fails, no child is launched
    invalid = meta["unknown"] or (form in ("sync", "sync2") and meta["ptype"] == "EXPRESS") or \
        (form == "sdk" and meta["ctype"] != "EXPRESS")
    if invalid:
        if childs:
            add(findings, "invalid-combination-launched-child", "%r launched %s" % (meta, list(childs)))
        if meta["catch"]:
            if pd["status"] != "SUCCEEDED":
                add(findings, "invalid-combination-not-failed-task", "parent ended %s %s" % (pd["status"], pd.get("error")))
        elif pd["status"] != "FAILED":
            add(findings, "invalid-combination-not-failed-task", "parent ended %s for %r" % (pd["status"], meta))
        return res, findings
    if len(childs) != n_expected:
        add(findings, "child-count", "%d child executions, expected %d (%r)" % (len(childs), n_expected, meta))
        return res, findings
    out = jl(pd["output"]) if pd.get("output") else None
    cstatus = CHILDREN[kind][1]
    for carn, evs in childs.items():
        term = [e for e in evs if e[0] != "RUNNING"]
        if form == "async":
            # returns at once with the child's ARN; never waits
            if pd["status"] != "SUCCEEDED":
                add(findings, "async-parent-failed", "parent ended %s %r" % (pd["status"], pd.get("error")))
                continue
            rs = find_child_results(out)
            if not any(isinstance(r, dict) and r.get("executionArn") == carn for r in rs):
                add(findings, "async-result", "parent output %r does not carry the child's ARN %s" % (rs, carn))
            if term and kind == "slow" and meta["exact"] and not t_parent < term[0][1]:
                add(findings, "async-waited", "parent ended at %.3f, slow child at %.3f" % (t_parent - EPOCH, term[0][1] - EPOCH))
            continue
        # synchronous forms
        timed_out = meta["timeout"] is not None and kind == "slow"
        if timed_out:
            continue   # handled below
        if not term:
            add(findings, "child-never-terminal", "%s" % carn)
            continue
        cd = term[0][2]
        if cd["status"] != cstatus:
            add(findings, "child-status", "child ended %s, expected %s" % (cd["status"], cstatus))
        # a child is an execution like any other: its own first-state Wait (6 s in the "slow" child) takes its time,
        # whatever the host's time zone
        if kind == "slow" and evs and evs[0][0] == "RUNNING" and (term[0][1] - evs[0][1]) < 6.0 - TOL:
            add(findings, "child-wait-early", "the child's 6 s Wait: child announced at %.3f, ended %s at %.3f (TZ %s)" % (
                evs[0][1] - EPOCH, cd["status"], term[0][1] - EPOCH, scn["config"].get("tz")), witness=form)
        # handing the result to the parent must leave the child's own story alone: JSON text in its notifications
        for st_, t_, d_ in evs:
            if not isinstance(d_.get("input"), str) or (d_.get("output") is not None and not isinstance(d_.get("output"), str)):
                add(findings, "child-notification-rewritten", "%s notification of the child carries input %r output %r "
                                                                "(JSON text expected)" % (st_, d_.get("input"), d_.get("output")), witness=form)
                break
        if cstatus == "SUCCEEDED":
            rs = [r for r in find_child_results(out) if isinstance(r, dict) and r.get("ExecutionArn") == carn]
            if pd["status"] != "SUCCEEDED" or not rs:
                add(findings, "sync-result", "parent ended %s %r; results under $.child: %r" % (
                    pd["status"], pd.get("error"), [sorted(r.keys()) if isinstance(r, dict) else r for r in find_child_results(out)]),
                    witness=form)
                continue
            r = rs[0]
            if set(r.keys()) != RESULT_KEYS:
                add(findings, "sync-result-fields", "fields %s, documented %s" % (sorted(r.keys()), sorted(RESULT_KEYS)), witness=form)
            want_out = jl(cd["output"])
            if form == "sync2":
                if r.get("Output") != want_out or r.get("Input") != {"k": r.get("Input", {}).get("k")}:
                    add(findings, "sync-result-output", ".sync:2 Output %r, child's output %r" % (r.get("Output"), want_out), witness=form)
            else:
                if not isinstance(r.get("Output"), str) or json.loads(r["Output"]) != want_out:
                    add(findings, "sync-result-output", "%s Output %r is not the child's output text %r" % (form, r.get("Output"), cd["output"]), witness=form)
            if r.get("Status") != "SUCCEEDED" or r.get("Name") != cd["name"] or r.get("StateMachineArn") != SM % "child":
                add(findings, "sync-result-fields", "Status/Name/StateMachineArn %r" % {k: r.get(k) for k in ("Status", "Name", "StateMachineArn")}, witness=form)
        else:
            cerr = "States.Timeout" if kind == "timeout" else "E.Child"
            if meta["catch"]:
                ok = pd["status"] == "SUCCEEDED" and "States.TaskFailed" in json.dumps(out) and cerr in json.dumps(out)
            else:
                ok = pd["status"] == "FAILED" and pd.get("error") == "States.TaskFailed" and cerr in (pd.get("cause") or "")
            if not ok:
                add(findings, "sync-failure", "child failed with %s; parent ended %s error=%r cause=%r" % (
                    cerr, pd["status"], pd.get("error"), (pd.get("cause") or "")[:200]), witness=form)
    # completion instant for single synchronous child at top level
    if form != "async" and meta["placement"] == "top" and len(childs) == 1 and not (meta["timeout"] and kind == "slow"):
        term = [e for e in list(childs.values())[0] if e[0] != "RUNNING"]
        if term:
            tc = term[0][1]
            if meta["exact"] and abs(t_parent - tc) > TOL:
                add(findings, "sync-completion-instant", "child ended at %.3f, parent at %.3f" % (tc - EPOCH, t_parent - EPOCH))
            if t_parent < tc - TOL:
                add(findings, "sync-completed-before-child", "child ended at %.3f, parent at %.3f" % (tc - EPOCH, t_parent - EPOCH))
    # parent time-out: the child's pending work is cancelled
    if form != "async" and meta["timeout"] and kind == "slow":
        t0 = [c for c in w.api.calls if c["action"] == "StartExecution"][0]["t0"]
        deadline = t0 + meta["timeout"]
        late = [r for r in w.workers.requests if r["fn"] in ("cwork", "cwork2") and r["t_pub"] > deadline + 0.5]
        if late:
            add(findings, "child-progress-after-parent-timeout", "child requested %s at t=%.3f, parent task timed out at %.3f" % (
                late[0]["fn"], late[0]["t_pub"] - EPOCH, deadline - EPOCH))
        if meta["catch"]:
            if pd["status"] != "SUCCEEDED" or "States.Timeout" not in json.dumps(out):
                add(findings, "parent-timeout-outcome", "parent ended %s %r" % (pd["status"], pd.get("output")))
        elif meta["placement"] == "top" and (pd["status"] != "FAILED" or pd.get("error") != "States.Timeout"):
            add(findings, "parent-timeout-outcome", "parent ended %s %r" % (pd["status"], pd.get("error")))
    return res, findings


# ------------------------------------------------------------------------------------------
def token_case(rng, seed):
    flavour = rng.choice(["rpc", "rpc", "sfn"])
    stream = rng.choice(["valid", "valid", "duplicate", "late", "forged", "truncated", "failure", "reply-then-callback",
                         "error-reply", "other-token", "failure-no-cause", "failure-no-error", "failure-typed-wrong",
                         "duplicate-then-late-error-reply"])
    policy = rng.choice(["canonical", "shuffle", "latency-small"])
    cfg = E.policy_cfg(policy)
    cfg["execution_ttl"] = 600
    api_node = 0
    if rng.random() < 0.3:
        # two instances on one broker (shared Redis store): the callbacks are sent to the API of the instance that does
        # NOT run the execution - the token names the reply queue of the one that does
        cfg.update(store="redis", nodes=2)
        api_node = 1
        if rng.random() < 0.5:
            # instance ids with dashes in them, as the UUID of the shipped configuration or a host name have
            cfg["instance_ids"] = ["inst0-7c1e-4b", "inst1-9a2f-c0"]
    # the second task's own callback normally comes at t=5; with two instances it may instead arrive at the very instant
    # of the first task's (t=3), through the same front end, for a task that another instance may own
    t2_at = 3.0 if (api_node == 1 and stream in ("valid", "failure", "other-token") and rng.random() < 0.6) else 5.0
    if flavour == "rpc":
        task = {"Type": "Task", "Resource": "arn:aws:states:local::rpcmessage:invoke.waitForTaskToken",
                "Parameters": {"FunctionName": F + "cb", "Payload": {"token.$": "$$.Task.Token", "k.$": "$.k"}},
                "ResultPath": "$.cb", "TimeoutSeconds": 8, "Next": "Z"}
    else:
        task = {"Type": "Task", "Resource": "arn:aws:states:local::states:startExecution.waitForTaskToken",
                "Parameters": {"StateMachineArn": SM % "tokchild", "Input": {"token.$": "$$.Task.Token", "k.$": "$.k"}},
                "ResultPath": "$.cb", "TimeoutSeconds": 8, "Next": "Z"}
    d = {"StartAt": "T", "States": {"T": task, "Z": {"Type": "Pass", "End": True}}}
    tokchild = {"StartAt": "C", "States": {"C": {"Type": "Task", "Resource": F + "cb", "End": True}}}
    reply = [{"noreply": True}]
    if stream == "reply-then-callback":
        # the worker's ordinary RPC reply may be any JSON value: none of them completes a task that waits for its token
        reply = [{"ok": {"op": "const", "value": rng.choice([{"ordinary": "reply"}, {"ordinary": "reply"}, "plain text", [1, 2],
                                                            7, None, True, {}, []])}, "delay": 0.5}]
    if stream == "error-reply" and flavour == "rpc":
        reply = [{"err": "E.Worker", "msg": "worker said no", "delay": 0.5}]
    if stream == "duplicate-then-late-error-reply":
        flavour = "rpc"
        task = {"Type": "Task", "Resource": "arn:aws:states:local::rpcmessage:invoke.waitForTaskToken",
                "Parameters": {"FunctionName": F + "cb", "Payload": {"token.$": "$$.Task.Token", "k.$": "$.k"}},
                "ResultPath": "$.cb", "TimeoutSeconds": 8, "Next": "Z"}
        d = {"StartAt": "T", "States": {"T": task, "Z": {"Type": "Pass", "End": True}}}
        # the task is completed by its token at t=3; a duplicate callback (t=4) and then the worker's own late error
        # reply (about t=4.5-6) both find no pending request: two orphaned responses under one correlation id
        reply = [{"err": "E.Worker", "msg": "too late to matter", "delay": rng.choice([4.5, 5.0, 6.0])}]
    script = {"cb": reply}
    scn = {"machines": {"tok": {"definition": d, "type": "STANDARD"}, "tokchild": {"definition": tokchild, "type": "STANDARD"}},
           "executions": [{"machine": "tok", "input": {"k": 3}, "name": "t1"},
                          {"machine": "tok", "input": {"k": 4}, "name": "t2"}],
           "script": script, "functions": ["cb"], "config": cfg}
    if t2_at != 5.0:
        for k, ex in enumerate(scn["executions"]):
            ex["node"] = k          # started through different instances (the shared queue decides who runs them)
    meta = dict(flavour=flavour, stream=stream, policy=policy, exact=cfg["latency"] == "zero", api_node=api_node, t2_at=t2_at)
    return scn, meta


def check_token(scn, meta, seed):
    findings = []
    stream = meta["stream"]
    calls = []

    def before(res):
        sim = res.sim
        w = res.world

        def tokens():
            out = {}
            for r in w.workers.requests:
                p = r["payload"]
                if isinstance(p, dict) and "token" in p:
                    out[p.get("k")] = p["token"]
            return out

        def send(action, tok_of, params, label):
            def go():
                tk = tok_of(tokens())
                if tk is None:
                    return
                p = dict(params)
                p["taskToken"] = tk
                calls.append((label, w.api.call(w.nodes[meta.get("api_node", 0) % len(w.nodes)], action, p)))
            return go
        ok_out = json.dumps({"answer": 42})
        t0 = sim.now
        first = lambda t: t.get(3)
        second = lambda t: t.get(4)
        if stream in ("valid", "duplicate", "reply-then-callback", "other-token", "duplicate-then-late-error-reply"):
            sim.call_at(t0 + 3.0, send("SendTaskSuccess", first, {"output": ok_out}, "valid"), None, kind="client", label="cb")
        if stream in ("duplicate", "duplicate-then-late-error-reply"):
            sim.call_at(t0 + 4.0, send("SendTaskSuccess", first, {"output": json.dumps({"answer": "again"})}, "duplicate"),
                        None, kind="client", label="cb2")
        if stream == "late":
            sim.call_at(t0 + 12.0, send("SendTaskSuccess", first, {"output": ok_out}, "late"), None, kind="client", label="cb")
        if stream == "failure":
            sim.call_at(t0 + 3.0, send("SendTaskFailure", first, {"error": "E.Callback", "cause": "callback says no"}, "failure"),
                        None, kind="client", label="cb")
        if stream == "failure-no-cause":
            sim.call_at(t0 + 3.0, send("SendTaskFailure", first, {"error": "E.Callback"}, "failure"), None, kind="client", label="cb")
        if stream == "failure-no-error":
            sim.call_at(t0 + 3.0, send("SendTaskFailure", first, {"cause": "no error name given"}, "noerror"), None, kind="client", label="cb")
        if stream == "failure-typed-wrong":
            sim.call_at(t0 + 3.0, send("SendTaskFailure", first, {"error": ["E.Callback"], "cause": {"x": 1}}, "noerror"), None,
                        kind="client", label="cb")
        if stream == "forged":
            def forged(t):
                raw = "%s.waitForTaskToken:asl_workflow_reply_to-%s" % (
                    "12345678-1234-4234-8234-123456789abc", (scn["config"].get("instance_ids") or ["inst0"])[0])
                return base64.b64encode(raw.encode()).decode()
            sim.call_at(t0 + 3.0, send("SendTaskSuccess", forged, {"output": ok_out}, "forged"), None, kind="client", label="cb")
        if stream == "truncated":
            sim.call_at(t0 + 3.0, send("SendTaskSuccess", lambda t: (t.get(3) or "")[:10] or None, {"output": ok_out}, "truncated"),
                        None, kind="client", label="cb")
        # the second execution is always completed by its own valid token at t=5 (other tokens must not affect it)
        sim.call_at(t0 + meta.get("t2_at", 5.0), send("SendTaskSuccess", second, {"output": json.dumps({"answer": "second"})}, "valid2"),
                    None, kind="client", label="cbB")
    mons = [NotifyMonitor(PROP, check_shape=False), BrokerMonitor(carrier=False)]
    res = run_scenario(scn, seed, monitors=mons, before_run=before, horizon=1500)
    for f in res.findings:
        if f["property"] in (PROP, "C03") and f["rule"] in ("terminal-twice", "running-twice", "never-terminal", "ack-twice",
                                                            "never-acked", "leak"):
            # duplicate, late and superseded callbacks / replies are orphaned responses: they too are acknowledged
            findings.append(dict(f, property=PROP, witness=f.get("witness") or stream))
    w = res.world

    def term(name):
        evs = w.terminal_events().get(E.EX_ARN % ("tok", name), [])
        return (evs[0]["body"]["detail"], evs[0]["published_at"]) if evs else (None, None)
    d1, t1 = term("t1")
    d2, t2 = term("t2")
    t0 = [c for c in w.api.calls if c["action"] == "StartExecution"][0]["t0"]
    # the untouched second execution completes exactly through its own token
    if stream == "duplicate-then-late-error-reply":
        # (the worker's error reply for the second task arrives around its callback: either may win)
        if d2 is None or (d2["status"], d2.get("error")) not in (("SUCCEEDED", None), ("FAILED", "E.Worker")):
            add(findings, "token-affected-other-task", "second task ended %r" % (d2 and (d2["status"], d2.get("error")),), witness=stream)
    elif stream == "error-reply" and meta["flavour"] == "rpc":
        # the scripted worker answers every request with an error, so the second task fails by its own reply
        if d2 is None or d2["status"] != "FAILED" or d2.get("error") != "E.Worker":
            add(findings, "error-reply", "second task: %r" % (d2 and (d2["status"], d2.get("error")),), witness=stream)
    elif d2 is None or d2["status"] != "SUCCEEDED" or (jl(d2["output"]) or {}).get("cb") != {"answer": "second"}:
        add(findings, "token-affected-other-task", "second task (own valid token at t=5) ended %r" % (
            d2 and (d2["status"], d2.get("output"), d2.get("error")),), witness=stream)
    elif meta["exact"] and abs(t2 - (t0 + meta.get("t2_at", 5.0))) > TOL:
        add(findings, "callback-completion-instant", "second task completed at %.3f, callback at %.3f" % (
            t2 - t0, meta.get("t2_at", 5.0)), witness=stream)
    by = dict((lbl, rec) for lbl, rec in calls)
    if d1 is None:
        add(findings, "never-terminal", "first execution never ended (%s)" % stream, witness=stream)
        return res, findings
    out1 = jl(d1["output"]) if d1.get("output") else None
    if stream in ("valid", "duplicate", "reply-then-callback", "other-token", "duplicate-then-late-error-reply"):
        if d1["status"] != "SUCCEEDED" or out1.get("cb") != {"answer": 42}:
            add(findings, "callback-result", "valid token with output {'answer': 42}: execution ended %s %r %r" % (
                d1["status"], d1.get("output"), d1.get("error")), witness=stream)
        elif meta["exact"] and abs(t1 - (t0 + 3.0)) > TOL:
            add(findings, "callback-completion-instant", "completed at %.3f, callback at 3.000" % (t1 - t0), witness=stream)
        if by.get("valid") is not None and by["valid"]["status"] != 200:
            add(findings, "callback-api", "SendTaskSuccess with the valid token answered %s" % by["valid"]["status"], witness=stream)
    if stream == "failure":
        if d1["status"] != "FAILED" or d1.get("error") != "E.Callback" or "callback says no" not in (d1.get("cause") or ""):
            add(findings, "callback-result", "SendTaskFailure(E.Callback): execution ended %s %r %r" % (
                d1["status"], d1.get("error"), d1.get("cause")), witness=stream)
    if stream == "failure-no-cause":
        if d1["status"] != "FAILED" or d1.get("error") != "E.Callback":
            add(findings, "callback-result", "SendTaskFailure(E.Callback, no cause): execution ended %s %r" % (d1["status"], d1.get("error")),
                witness=stream)
    if stream in ("failure-no-error", "failure-typed-wrong"):
        rec = by.get("noerror")
        if rec is not None and (rec["status"] >= 500 or rec["status"] < 0):
            add(findings, "callback-api", "SendTaskFailure %s answered %s %s" % (
                "without an error name" if stream == "failure-no-error" else "with error/cause of the wrong JSON type",
                rec["status"], (rec["body"] or "")[:100]), witness=stream)
        # whatever the API answers, a failure report never completes the task successfully
        if d1["status"] == "SUCCEEDED":
            add(findings, "callback-result", "%s: the task SUCCEEDED with %r" % (stream, d1.get("output")), witness=stream)
    if stream in ("late", "forged", "truncated"):
        if d1["status"] != "FAILED" or d1.get("error") != "States.Timeout":
            add(findings, "token-completed-task", "no valid callback was sent in time, yet the execution ended %s %r %r" % (
                d1["status"], d1.get("output"), d1.get("error")), witness=stream)
    if stream == "error-reply" and meta["flavour"] == "rpc":
        if d1["status"] != "FAILED" or d1.get("error") != "E.Worker":
            add(findings, "error-reply", "the worker replied with an error; execution ended %s %r" % (d1["status"], d1.get("error")),
                witness=stream)
    if stream in ("forged", "truncated"):
        rec = by.get(stream)
        if rec is not None and not (rec["status"] == 400 and (rec["json"] or {}).get("__type") == "InvalidToken"):
            add(findings, "token-not-rejected", "%s token answered %s %s" % (stream, rec["status"], (rec["body"] or "")[:100]),
                witness=stream)
    return res, findings


def seq_case(rng, seed):
    """Several .waitForTaskToken requests in ONE execution: two callback Tasks in sequence, or a callback Task that is
    retried after SendTaskFailure - every request carries a token of its own, and only that token completes it."""
    shape = rng.choice(["two-in-sequence", "retried-after-failure", "two-in-parallel"])
    policy = rng.choice(["canonical", "shuffle", "latency-small"])
    cfg = E.policy_cfg(policy)
    cfg["execution_ttl"] = 600
    res = "arn:aws:states:local::rpcmessage:invoke.waitForTaskToken"

    def task(tag, nxt, retry=False):
        t = {"Type": "Task", "Resource": res, "ResultPath": "$." + tag, "TimeoutSeconds": 20,
             "Parameters": {"FunctionName": F + "cb", "Payload": {"token.$": "$$.Task.Token", "tag": tag}}}
        if retry:
            t["Retry"] = [{"ErrorEquals": ["E.Again"], "IntervalSeconds": 1, "MaxAttempts": 2, "BackoffRate": 1.0}]
        if nxt:
            t["Next"] = nxt
        else:
            t["End"] = True
        return t
    if shape == "two-in-sequence":
        d = {"StartAt": "A", "States": {"A": task("a", "B"), "B": task("b", None)}}
    elif shape == "retried-after-failure":
        d = {"StartAt": "A", "States": {"A": task("a", None, retry=True)}}
    else:
        d = {"StartAt": "P", "States": {"P": {"Type": "Parallel", "End": True, "Branches": [
            {"StartAt": "A", "States": {"A": task("a", None)}}, {"StartAt": "B", "States": {"B": task("b", None)}}]}}}
    scn = {"machines": {"tok": {"definition": d, "type": "STANDARD"}},
           "executions": [{"machine": "tok", "input": {"k": 1}, "name": "s1"}],
           "script": {"cb": [{"noreply": True}]}, "functions": ["cb"], "config": cfg}
    return scn, dict(shape=shape, policy=policy, exact=cfg["latency"] == "zero")


def check_seq(scn, meta, seed):
    findings = []
    shape = meta["shape"]
    calls = []

    def before(res):
        sim, w = res.sim, res.world

        def nth_token(tag, n):
            ts = [r["payload"]["token"] for r in w.workers.requests if isinstance(r["payload"], dict) and
                  r["payload"].get("tag") == tag]
            return ts[n] if len(ts) > n else None

        def send(action, tag, n, params, label):
            def go():
                tk = nth_token(tag, n)
                if tk is None:
                    calls.append((label, None))
                    return
                p = dict(params)
                p["taskToken"] = tk
                calls.append((label, w.api.call(w.nodes[0], action, p)))
            return go
        t0 = sim.now
        ok = lambda v: {"output": json.dumps({"answer": v})}
        if shape == "two-in-sequence":
            sim.call_at(t0 + 2.0, send("SendTaskSuccess", "a", 0, ok("first"), "a"), None, kind="client", label="cbA")
            sim.call_at(t0 + 5.0, send("SendTaskSuccess", "b", 0, ok("second"), "b"), None, kind="client", label="cbB")
        elif shape == "retried-after-failure":
            sim.call_at(t0 + 2.0, send("SendTaskFailure", "a", 0, {"error": "E.Again", "cause": "try again"}, "a-fail"),
                        None, kind="client", label="cbA")
            # the retried request (published at t=3) carries a new token; the old one must not complete it
            sim.call_at(t0 + 5.0, send("SendTaskSuccess", "a", 0, ok("stale"), "a-stale"), None, kind="client", label="cbS")
            sim.call_at(t0 + 7.0, send("SendTaskSuccess", "a", 1, ok("fresh"), "a-fresh"), None, kind="client", label="cbF")
        else:
            sim.call_at(t0 + 2.0, send("SendTaskSuccess", "b", 0, ok("second"), "b"), None, kind="client", label="cbB")
            sim.call_at(t0 + 4.0, send("SendTaskSuccess", "a", 0, ok("first"), "a"), None, kind="client", label="cbA")
    mons = [NotifyMonitor(PROP, check_shape=False), BrokerMonitor(carrier=False)]
    res = run_scenario(scn, seed, monitors=mons, before_run=before, horizon=1500)
    for f in res.findings:
        if f["property"] in (PROP, "C03") and f["rule"] in ("terminal-twice", "running-twice", "never-terminal", "ack-twice",
                                                            "never-acked", "leak"):
            findings.append(dict(f, property=PROP, witness=f.get("witness") or shape))
    w = res.world
    evs = w.terminal_events().get(E.EX_ARN % ("tok", "s1"), [])
    by = dict(calls)
    toks = [r["payload"]["token"] for r in w.workers.requests if isinstance(r["payload"], dict) and "token" in r["payload"]]
    if len(set(toks)) != len(toks):
        add(findings, "token-not-unique", "%d requests carried %d distinct tokens" % (len(toks), len(set(toks))), witness=shape)
    for lbl, rec in calls:
        if rec is None:
            add(findings, "token-request-missing", "no request to take the token for callback %r from (requests: %d)" % (
                lbl, len(toks)), witness=shape)
    if not evs:
        add(findings, "never-terminal", "execution with %s never ended" % shape, witness=shape)
        return res, findings
    d = evs[0]["body"]["detail"]
    t_end = evs[0]["published_at"]
    t0 = [c for c in w.api.calls if c["action"] == "StartExecution"][0]["t0"]
    out = jl(d["output"]) if d.get("output") else None
    if shape == "two-in-sequence":
        want, at = {"k": 1, "a": {"answer": "first"}, "b": {"answer": "second"}}, 5.0
        ok = d["status"] == "SUCCEEDED" and out == want
    elif shape == "retried-after-failure":
        want, at = {"k": 1, "a": {"answer": "fresh"}}, 7.0
        ok = d["status"] == "SUCCEEDED" and out == want
    else:
        want, at = [{"k": 1, "a": {"answer": "first"}}, {"k": 1, "b": {"answer": "second"}}], 4.0
        ok = d["status"] == "SUCCEEDED" and out == want
    if not ok:
        add(findings, "callback-result", "%s: execution ended %s output=%r error=%r, expected SUCCEEDED %r" % (
            shape, d["status"], d.get("output"), d.get("error"), want), witness=shape)
    elif meta["exact"] and abs(t_end - (t0 + at)) > TOL:
        add(findings, "callback-completion-instant", "%s: ended at %.3f, last needed callback at %.3f" % (shape, t_end - t0, at),
            witness=shape)
    return res, findings


def run_one(i, extra):
    seed = common.run_seed(i)
    rng = random.Random(seed)
    if rng.random() < 0.12:
        scn, meta = seq_case(rng, seed)
        res, findings = check_seq(scn, meta, seed)
        kind = "token-seq"
    elif rng.random() < 0.6:
        scn, meta = child_case(rng, seed)
        res, findings = check_child(scn, meta, seed)
        kind = "child"
    else:
        scn, meta = token_case(rng, seed)
        res, findings = check_token(scn, meta, seed)
        kind = "token"
    if res.sim.errors:
        add(findings, "engine-exception", repr(res.sim.errors[0][:3]))
    for f in findings:
        f["seed"] = seed
        f["scenario"] = scn
        f["meta"] = meta
        f["kind"] = kind
    probes = {"kind:" + kind: 1}
    for k in ("form", "kind", "placement", "stream", "flavour", "policy", "shape"):
        if k in meta:
            probes["%s:%s" % (k, meta[k])] = 1
    return common.summarize_run(res, PROP, findings, True, {"kind": kind, "meta": meta}, probes,
                                common.sha([kind, meta]))


def main(argv):
    if len(argv) > 1 and argv[0] == "--replay":
        with open(argv[1]) as f:
            rec = json.load(f)
        fn = {"child": check_child, "token-seq": check_seq}.get(rec["kind"], check_token)
        res, findings = fn(rec["scenario"], rec["meta"], rec["seed"])
        same = [f for f in findings if f["rule"] == rec["rule"]]
        print("replay %s: %s" % (argv[1], "REPRODUCED rule=%s%s" % (rec["rule"], common.digest_note(rec, same)) if same else "not reproduced"))
        return 1 if same else 0
    tier = common.tier()
    n = 2000 if tier == "quick" else 80000
    rep = common.Report(PROP)
    for r in common.run_batch("checks.c15", "run_one", range(n), {}):
        rep.absorb(r)
    return rep.finish(
        rule="parent/child pairs: integration form (startExecution, .sync, .sync:2, sfn:startSyncExecution) x child that "
             "succeeds / fails / is slower than the parent's TimeoutSeconds x parent at top level / in a Parallel branch / "
             "in Map iterations x STANDARD/EXPRESS parent and child (including the invalid combinations and an unknown "
             "machine) x with/without Catch; callback streams on rpcmessage and startExecution .waitForTaskToken tasks: "
             "valid, duplicate, late, forged, truncated tokens, SendTaskFailure, ordinary reply before the callback, error "
             "reply, always beside a second waiting task that is completed by its own token; several token requests in one "
             "execution (two callback Tasks in sequence, in parallel, a callback Task retried after SendTaskFailure: each "
             "request carries its own token, the stale one completes nothing); children that succeed with a falsy output "
             "([] {} 0 \"\" false); seeded schedule policy; "
             "oracles: result shape and fields, completion instant of the synchronous forms, States.TaskFailed carrying "
             "the child's error, no child progress after the parent's time-out, token completes exactly its task once, "
             "other tokens rejected as InvalidToken without affecting any task; distinct = distinct parameter tuples",
        assumptions=["single engine instance", "zero-latency runs compare instants exactly, latency runs only order"])


if __name__ == "__main__":
    sys.exit(main(sys.argv[1:]))
