"""
C19 - work is routed to the right queue/instance; messages map faithfully to AMQP.

(A) affinity: one to three engine instances (asyncio or blocking transport,
    classic or quorum queues) on one simulated broker run executions of the
    corpus started through any instance; a monitor on the broker's operation log
    checks on every publish/delivery that start events go to the shared queue (or
    the publisher's own queue for synchronous launches), that every later event
    of an execution is published by and delivered to the instance that took its
    start event, that task requests carry that instance's reply queue and the
    event's message id as correlation id; a second process with the same
    instance id is refused by the exclusive consumer.
(B) mapping: address strings from the documented grammar, messages with every
    combination of optional fields and odd expirations, and selective
    acknowledgement are pushed through the real Producer / Consumer / Message
    classes of BOTH messaging modules against the broker model, compared with an
    independent reading of the grammar and with each other.
"""
import json
import random
import sys

from checks import common
from checks import engine as E
from gen import corpus
from lsfsim.core import EPOCH, Sim, SimStop, HarnessError
from lsfsim.runner import run_scenario
from monitors.basic import Monitor, NotifyMonitor

PROP = "C19"
ROLE = "arn:aws:iam::0123456789:role/service-role/MyRole"
F = "arn:aws:rpcmessage:local::function:"


# ------------------------------------------------------------------------------------------
# (A) affinity
# ------------------------------------------------------------------------------------------
class AffinityMonitor(Monitor):
    def __init__(self, queue_type):
        Monitor.__init__(self)
        sfx = "-qq" if queue_type == "quorum" else ""
        self.shared = "asl_workflow_events" + sfx
        self.sfx = sfx
        self.info = {}       # uid -> dict(arn, start, pub_node, queue, mid)
        self.owner = {}      # arn -> node name
        self.mids = {}       # message id -> arn (events delivered to an engine)
        self.deliveries = 0
        self.requests = 0

    def inst_queue(self, node):
        return "%s-%s" % (self.shared, self.res.world.sim.nodes[node].config["event_queue"]["instance_id"])

    def reply_queue(self, node):
        return "asl_workflow_reply_to%s-%s" % (self.sfx, self.res.world.sim.nodes[node].config["event_queue"]["instance_id"])

    def attach(self, res):
        Monitor.attach(self, res)
        b = res.sim.broker
        b.publish_hooks.append(self.on_publish)
        b.observers.append(self.on_op)

    def on_publish(self, ch, exchange, routing_key, body, props, queues, uid):
        node = ch.node
        if exchange == "" and routing_key.startswith("asl_workflow_events"):
            try:
                ev = json.loads(body.decode("utf8") if isinstance(body, bytes) else body)
                ctx = ev["context"]
                arn = ctx["Execution"]["Id"]
                start = not (ctx.get("State") or {}).get("Name")
            except (ValueError, KeyError, TypeError, AttributeError):
                return
            self.info[uid] = dict(arn=arn, start=start, pub=node, queue=routing_key, mid=props.message_id)
            if node is None:
                return
            if start:
                if routing_key != self.shared and routing_key != self.inst_queue(node):
                    self.add(PROP, "start-event-queue", "start event of %s published by %s to %r" % (arn, node, routing_key))
                kid = arn.split(":")[6] if arn.count(":") >= 7 else ""
                if not kid.startswith("kid-") and routing_key != self.shared:
                    # an execution started through the API (or by a client): its start event goes to the shared queue,
                    # whichever instance's front end took the call and whatever else that instance is publishing then
                    self.add(PROP, "start-event-queue", "start event of %s published by %s to %r, not the shared queue %r" % (
                        arn, node, routing_key, self.shared), witness="api-start")
                if kid in ("kid-sync", "kid-sync2", "kid-sdk", "kid-token") and routing_key != self.inst_queue(node):
                    # the launching Task waits for this child: it has to run on the instance that holds that Task
                    self.add(PROP, "sync-child-start-queue", "start event of the synchronous child %s published by %s to "
                                                              "%r, its own queue is %r" % (arn, node, routing_key,
                                                                                           self.inst_queue(node)))
                if kid == "kid-async" and routing_key != self.shared:
                    self.add(PROP, "async-child-start-queue", "start event of the asynchronous child %s published to %r, "
                                                               "not the shared queue" % (arn, routing_key))
            else:
                own = self.owner.get(arn)
                if own is None:
                    self.add(PROP, "event-before-start-consumed", "event of %s published to %r before its start event "
                                                                   "was consumed" % (arn, routing_key))
                elif node != own or routing_key != self.inst_queue(own):
                    self.add(PROP, "affinity-publish", "event of %s (owned by %s) published by %s to %r" % (
                        arn, own, node, routing_key))
            if not props.message_id:
                self.add(PROP, "event-without-message-id", "event of %s has no message id" % arn)
            elif props.delivery_mode != 2:
                self.add(PROP, "event-not-persistent", "event of %s has delivery_mode %r" % (arn, props.delivery_mode))
            return
        if exchange == "" and props.reply_to and node is not None:
            # a task request
            self.requests += 1
            cid = props.correlation_id or ""
            base = cid.split(".")[0] if not cid.startswith("arn:") else cid
            arn = self.mids.get(base)
            if arn is None:
                self.add(PROP, "request-correlation", "task request to %r by %s has correlation id %r which is not the "
                                                        "message id of an event it consumed" % (routing_key, node, cid))
                return
            own = self.owner.get(arn)
            if node != own:
                self.add(PROP, "affinity-request", "task request for %s (owned by %s) sent by %s" % (arn, own, node))
            if props.reply_to != self.reply_queue(node):
                self.add(PROP, "request-reply-to", "task request by %s has reply_to %r, its reply queue is %r" % (
                    node, props.reply_to, self.reply_queue(node)))
            if props.expiration is not None and (not props.expiration.isdigit()):
                self.add(PROP, "request-expiration", "expiration %r" % (props.expiration,))

    def on_op(self, rec):
        step, t, name, node, kw = rec
        if name == "deliver" and node is not None:
            i = self.info.get(kw["uid"])
            if i is None:
                return
            self.deliveries += 1
            if kw.get("mid"):
                self.mids[kw["mid"]] = i["arn"]
            if i["start"]:
                if i["arn"] not in self.owner:
                    self.owner[i["arn"]] = node
            else:
                own = self.owner.get(i["arn"])
                if own is not None and node != own:
                    self.add(PROP, "affinity-delivery", "event of %s (owned by %s) delivered to %s via %s" % (
                        i["arn"], own, node, kw["queue"]))
                if kw["queue"] == self.shared:
                    self.add(PROP, "later-event-on-shared-queue", "event of %s delivered through the shared queue" % i["arn"])
        elif name == "ack_frame" and node is not None and kw.get("covered", 0) > 1:
            self.add(PROP, "ack-covers-other-deliveries", "%s sent Basic.Ack(delivery_tag=%s, multiple=True) with %d "
                                                            "deliveries outstanding on its channel: all of them are settled" % (
                                                                node, kw.get("tag"), kw["covered"]))
        elif name == "basic_consume" and node is not None:
            q = kw["queue"]
            if q == self.shared and kw["exclusive"]:
                self.add(PROP, "shared-queue-exclusive", "%s consumes the shared queue exclusively" % node)
            if q.startswith(self.shared + "-") and not kw["exclusive"]:
                self.add(PROP, "instance-queue-not-exclusive", "%s consumes %s without exclusive" % (node, q))
        elif name == "queue_declare" and node is not None and not kw.get("passive"):
            q = kw["queue"]
            if q.startswith("asl_workflow_"):
                if not kw["durable"]:
                    self.add(PROP, "queue-not-durable", "%s declared %s non-durable" % (node, q))
                want = {"x-queue-type": "quorum"} if self.sfx else None
                if (kw.get("arguments") or None) != want:
                    self.add(PROP, "queue-arguments", "%s declared %s with arguments %r, expected %r" % (
                        node, q, kw.get("arguments"), want))


def store_json(machines):
    out = {}
    for name, m in machines.items():
        arn = E.SM_ARN % name
        out[arn] = {"creationDate": EPOCH, "definition": m["definition"], "loggingConfiguration": {"level": "OFF"},
                    "name": name, "roleArn": ROLE, "stateMachineArn": arn, "updateDate": EPOCH, "status": "ACTIVE",
                    "type": m.get("type", "STANDARD")}
    return json.dumps(out)


def affinity_case(i, tier):
    seed = common.run_seed(i)
    rng = random.Random(seed)
    nodes = rng.choice([1, 2, 2, 3, 3])
    transport = rng.choice(["asyncio", "asyncio", "blocking"])
    qtype = rng.choice(["classic", "quorum"])
    policy = rng.choice(["canonical", "shuffle", "pct", "latency-small"])
    machines = {}
    script = {}
    execs = []
    k = 0
    for _ in range(rng.randint(2, 5)):
        r = rng.random()
        if r < 0.55:
            name = rng.choice(sorted(corpus.CORPUS))
            c = corpus.CORPUS[name]
        elif r < 0.75:
            name = rng.choice(sorted(corpus.NESTED))
            c = corpus.NESTED[name]
        elif r < 0.8:
            # a Task whose function has no queue: the mandatory request comes back (Basic.Return) and fails the Task;
            # a returned message is not a delivery, nothing may be acknowledged for it
            name = "task-function-queue-missing"
            c = dict(definition={"StartAt": "T", "States": {
                "T": {"Type": "Task", "Resource": F + "nobody-listens", "TimeoutSeconds": 5,
                      "Catch": [{"ErrorEquals": ["States.ALL"], "ResultPath": "$.err", "Next": "H"}], "End": True},
                "H": {"Type": "Pass", "End": True}}}, input={"v": k}, script={})
        else:
            form = rng.choice(["startExecution", "startExecution.sync", "startExecution.sync:2", "sdk-startSyncExecution",
                               "startExecution.waitForTaskToken"])
            kid = "kid-" + {"startExecution": "async", "startExecution.sync": "sync", "startExecution.sync:2": "sync2",
                            "sdk-startSyncExecution": "sdk", "startExecution.waitForTaskToken": "token"}[form]
            name = "launch-" + kid
            resource = "arn:aws:states:local::aws-sdk:sfn:startSyncExecution" if kid == "kid-sdk" else \
                "arn:aws:states:local::states:" + form
            c = dict(definition={"StartAt": "L", "States": {"L": {"Type": "Task", "Resource": resource,
                                                                  "Parameters": {"StateMachineArn": E.SM_ARN % kid, "Input": {"v.$": "$.v"}},
                                                                  "End": True}}},
                     input={"v": k}, script={})
            if kid == "kid-token":
                # nobody presents the token: the launching Task ends by its own time-out (caught); what matters here is
                # where the child's start event is published - the Task that waits has to be able to reach the child
                c["definition"]["States"]["L"].update(TimeoutSeconds=4, Catch=[{"ErrorEquals": ["States.Timeout"],
                                                                                 "ResultPath": "$.err", "Next": "H"}])
                c["definition"]["States"]["L"]["Parameters"]["Input"]["token.$"] = "$$.Task.Token"
                c["definition"]["States"]["H"] = {"Type": "Pass", "End": True}
            machines[kid] = {"definition": {"StartAt": "T", "States": {"T": {"Type": "Task", "Resource": F + "kidwork",
                                                                             "End": True}}},
                             "type": "EXPRESS" if kid == "kid-sdk" else rng.choice(["STANDARD", "EXPRESS"])
                             if kid not in machines else machines[kid]["type"]}
            script["kidwork"] = [{"ok": {"op": "tag"}, "delay": 1.0}]
        mname = "m%d" % k
        renamed = E.rename_functions({"definition": c["definition"], "script": c["script"], "input": c["input"],
                                      "functions": sorted(c["script"])}, "")
        machines[mname] = {"definition": c["definition"], "type": "STANDARD", "family": name}
        script.update(c["script"])
        execs.append({"machine": mname, "input": c["input"], "name": "e%d" % k, "at": rng.choice([0.0, 0.0, 0.5, 1.0]),
                      "node": rng.randint(0, nodes - 1)})
        k += 1
    cfg = E.policy_cfg(policy)
    cfg.update(nodes=nodes, transport=transport, queue_type=qtype, execution_ttl=600, initial_store=store_json(machines))
    scn = {"machines": {}, "executions": execs, "script": script, "functions": sorted(script), "config": cfg,
           "preloaded": {k: v for k, v in machines.items()}}
    # uninterpretable messages arriving on the shared queue or on an instance's own queue while executions are held
    scn["poison"] = [{"at": rng.choice([0.3, 0.8, 1.2, 2.5]), "body": rng.choice(["not json", "", "5", '{"context": 5}', "[]"]),
                      "to": rng.choice(["shared", "instance"]), "node": rng.randint(0, nodes - 1)}
                     for _ in range(rng.choice([0, 0, 1, 2]))]
    return seed, scn


def check_affinity(scn, seed):
    qtype = scn["config"]["queue_type"]
    mon = AffinityMonitor(qtype)
    nm = NotifyMonitor(PROP, check_shape=False)
    scn2 = dict(scn)
    # the runner creates machines through the API; here they are preloaded in every instance's store file
    state = {}

    def before(res):
        res.sm_arns.update({k: E.SM_ARN % k for k in scn["preloaded"]})
        # a second process with instance id of node 0 must be refused by the exclusive consumer
        from lsfsim.node import Node
        import copy as _c

        def twin():
            cfg = _c.deepcopy(res.world.nodes[0].config)
            n = Node(res.sim, "twin", cfg)
            n.boot()
            state["twin"] = n
        res.sim.call_at(res.sim.now + 2.0, twin, None, kind="client", label="twin")
        if scn.get("poison"):
            from lsfsim.peers import NativeChannel, Props
            pch = NativeChannel(res.sim, "poisoner")
            for k, p in enumerate(scn["poison"]):
                def pub(p=p, k=k):
                    q = mon.shared if p["to"] == "shared" else mon.inst_queue("n%d" % p["node"])
                    res.sim.count("poison-message")
                    res.sim.broker.basic_publish(pch.rec, "", q, p["body"].encode(),
                                                 Props(content_type="application/json", message_id="poison-%d" % k))
                res.sim.call_at(res.sim.now + p["at"], pub, None, kind="client", label="poison")
    res = run_scenario(scn2, seed, monitors=[mon, nm], before_run=before, horizon=1500)
    findings = [f for f in res.findings if f["property"] == PROP and f["rule"] not in ("running-twice",)]
    tw = state.get("twin")
    if tw is not None:
        refused = any(o[2] == "consume_refused" and o[3] == "twin" for o in res.sim.broker.oplog)
        if not refused:
            findings.append({"property": PROP, "rule": "second-instance-not-refused", "witness": None,
                             "detail": "a second process with instance id %r could consume the per-instance queue" %
                                       tw.config["event_queue"]["instance_id"]})
        twin_deliveries = [o for o in res.sim.broker.oplog if o[2] == "deliver" and o[3] == "twin" and
                           o[4]["queue"].startswith("asl_workflow_events") and o[4]["queue"] != mon.shared]
        if twin_deliveries:
            findings.append({"property": PROP, "rule": "second-instance-received-instance-events", "witness": None,
                             "detail": "%d deliveries" % len(twin_deliveries)})
    terms = res.world.terminal_events()
    for ex in scn["executions"]:
        fam = scn["preloaded"][ex["machine"]].get("family") or ""
        if fam.startswith("launch-kid-"):
            evs = terms.get(E.EX_ARN % (ex["machine"], ex["name"]), [])
            st = evs[0]["body"]["detail"]["status"] if evs else None
            if st != "SUCCEEDED":
                findings.append({"property": PROP, "rule": "child-launch-not-completed", "witness": fam,
                                 "detail": "%s (%s) ended %r: the child's completion did not reach the instance that "
                                           "holds the launching Task" % (ex["name"], fam, st)})
    if any(n.dead for n in res.world.nodes):
        findings.append({"property": PROP, "rule": "engine-died", "witness": None,
                         "detail": "an instance stopped: %r" % ([n.name for n in res.world.nodes if n.dead],)})
    probes = {"nodes:%d" % scn["config"]["nodes"]: 1, "transport:" + scn["config"]["transport"]: 1, "queue:" + qtype: 1,
              "poison-messages": len(scn.get("poison") or []), "event-deliveries-checked": mon.deliveries, "task-requests-checked": mon.requests,
              "owners": len(set(mon.owner.values()))}
    if res.sim.errors:
        findings.append({"property": PROP, "rule": "engine-exception", "witness": None, "detail": repr(res.sim.errors[0][:3])})
    E.attach_replay(findings, scn, seed, res, {"kind": "affinity"})
    return common.summarize_run(res, PROP, findings, True, {"kind": "affinity", "nodes": scn["config"]["nodes"],
                                                           "transport": scn["config"]["transport"],
                                                           "owners": sorted(set(mon.owner.values()))}, probes,
                                common.sha(["aff", scn["executions"], scn["config"]["nodes"], scn["config"]["transport"],
                                            res.sim.order_hash.hexdigest()]))


# ------------------------------------------------------------------------------------------
# (B) mapping through the real messaging classes
# ------------------------------------------------------------------------------------------
class Harness(object):
    """Runs the real messaging layer (asyncio or blocking flavour) against the broker model, without any engine."""

    def __init__(self, seed, flavour):
        from lsfsim import patches
        from lsfsim.world import REPO_PY
        from lsfsim.loop import SimLoop
        from lsfsim.disk import Disk
        patches.install(REPO_PY)
        self.sim = Sim(seed)
        patches.per_run(self.sim)
        self.sim.loop = SimLoop(self.sim)
        self.sim.disk = Disk()
        self.flavour = flavour
        self.sim.current_node = "cli"
        if flavour == "asyncio":
            import asl_workflow_engine.amqp_0_9_1_messaging_asyncio as m
        else:
            import asl_workflow_engine.amqp_0_9_1_messaging as m
        self.m = m
        self.conn = None
        self.session = None
        self.errors = []

    def run(self, coro_or_fn):
        sim = self.sim
        out = {}
        if self.flavour == "asyncio":
            async def wrap():
                try:
                    out["v"] = await coro_or_fn()
                except Exception as e:  # noqa
                    out["e"] = e
            prev = sim.current_node
            sim.current_node = "cli"
            sim.loop.create_task(wrap(), name="harness")
            sim.current_node = prev
            sim.run(until=60.0, stop_when=lambda: "v" in out or "e" in out, quiesce=False)
        else:
            def go():
                try:
                    out["v"] = coro_or_fn()
                except SimStop:
                    out["v"] = None
                except Exception as e:  # noqa
                    out["e"] = e
            sim.run_callback("cli", go)
        if "e" in out:
            raise out["e"]
        return out.get("v")

    def settle(self):
        self.sim.run(until=(self.sim.now - self.sim.epoch) + 5.0, quiesce=True)

    def open(self):
        m = self.m
        if self.flavour == "asyncio":
            async def go():
                c = m.Connection("amqp://localhost:5672?connection_attempts=2&retry_delay=1&heartbeat=0")
                await c.open()
                s = await c.session()
                return c, s
        else:
            def go():
                c = m.Connection("amqp://localhost:5672?connection_attempts=2&retry_delay=1&heartbeat=0")
                c.open()
                return c, c.session()
        self.conn, self.session = self.run(go)

    def consumer(self, address, listener, capacity=None):
        s = self.session
        if self.flavour == "asyncio":
            async def go():
                c = await s.consumer(address)
                if capacity:
                    c.capacity = capacity
                await c.set_message_listener(listener)
                return c
        else:
            def go():
                c = s.consumer(address)
                if capacity:
                    c.capacity = capacity
                c.set_message_listener(listener)
                return c
        return self.run(go)

    def producer(self, address):
        s = self.session
        if self.flavour == "asyncio":
            async def go():
                return await s.producer(address)
        else:
            def go():
                return s.producer(address)
        return self.run(go)

    def send(self, producer, message):
        if self.flavour == "asyncio":
            async def go():
                producer.send(message)
        else:
            def go():
                producer.send(message)
        self.run(go)

    def ops(self, names):
        out = []
        for (step, t, name, node, kw) in self.sim.broker.oplog:
            if name in names and node == "cli":
                out.append((name, kw))
        return out


def gen_queue_address(rng):
    """Queue-style consumer addresses with options (the forms the engine itself uses, and variations)."""
    name = rng.choice(["qa", "q-b", "work.items", "Q_9"])
    node = {}
    link = {}
    r = rng.random()
    if r < 0.3:
        if rng.random() < 0.6:
            node["durable"] = True
        if rng.random() < 0.3:
            node["auto-delete"] = True
    elif r < 0.8:
        xd = {}
        if rng.random() < 0.6:
            xd["durable"] = rng.random() < 0.7
        if rng.random() < 0.3:
            xd["auto-delete"] = rng.random() < 0.5
        if rng.random() < 0.2:
            xd["exclusive"] = rng.random() < 0.5
        if rng.random() < 0.4:
            xd["arguments"] = rng.choice([{"x-queue-type": "quorum"}, {"x-max-length": 10}, {"x-queue-type": "classic"}])
        if xd:
            node["x-declare"] = xd
        if rng.random() < 0.3:
            node["durable"] = True
    if rng.random() < 0.6:
        xs = {}
        if rng.random() < 0.6:
            xs["exclusive"] = rng.random() < 0.6
        if rng.random() < 0.5:
            xs["arguments"] = {"x-priority": rng.choice([1, 10])}
        if xs:
            link["x-subscribe"] = xs
    opts = {}
    if node:
        opts["node"] = node
    if link:
        opts["link"] = link
    if opts:
        return name + "; " + json.dumps(opts)
    return name


def gen_producer_addresses(rng, i):
    """Producer addresses from the documented grammar: a name that is a queue, an existing exchange, or the exchange the
    options declare - or one that differs from it (the doc's own 'myqueue; {... "exchange": "test-headers" ...}'),
    with and without a subject, options-only forms with and without the leading ';'."""
    out = []
    for k in range(3):
        ex = "px-%d-%d" % (i % 5, k)      # one declaration per exchange name (re-declaring with another type is a broker error)
        xd = {"exchange": ex, "exchange-type": rng.choice(["topic", "direct", "fanout", "headers"])}
        if rng.random() < 0.5:
            xd["durable"] = rng.random() < 0.7
        if rng.random() < 0.3:
            xd["auto-delete"] = rng.random() < 0.5
        opts = json.dumps({"node": {"x-declare": xd}})
        name = rng.choice(["", "", ex, ex, "pq-%d" % rng.randint(0, 3), "pq-%d" % rng.randint(0, 3), "amq.topic"])
        subject = rng.choice(["", "", "news.sports"])
        if name == "":
            out.append(rng.choice(["; ", ""]) + opts)
        else:
            out.append(name + ("/" + subject if subject else "") + "; " + opts)
    return out


def check_queue_address(h, address, findings):
    from model import address as A
    n0 = len(h.sim.broker.oplog)
    got = []
    try:
        h.consumer(address, lambda m: got.append(m))
    except Exception as e:
        findings.append({"property": PROP, "rule": "address-consumer-failed", "witness": h.flavour,
                         "detail": "consumer(%r) raised %s: %s" % (address, type(e).__name__, e)})
        return None
    exp = A.consumer_expectation(address, set(h.sim.broker.exchanges))
    ops = [(nm, kw) for (st, t, nm, nd, kw) in h.sim.broker.oplog[n0:] if nd == "cli"]
    qd = [kw for nm, kw in ops if nm == "queue_declare"]
    bc = [kw for nm, kw in ops if nm == "basic_consume"]
    sig = None
    if len(qd) != 1 or len(bc) != 1:
        findings.append({"property": PROP, "rule": "address-declarations", "witness": h.flavour,
                         "detail": "%r: %d queue declarations, %d consumes" % (address, len(qd), len(bc))})
        return None
    d, c = qd[0], bc[0]
    sig = (d["queue"], d["durable"], d["exclusive"], d["auto_delete"], json.dumps(d["arguments"], sort_keys=True),
           c["exclusive"], json.dumps(c["arguments"], sort_keys=True))
    want = (exp["queue"], exp["durable"], exp["exclusive_queue"], exp["auto_delete"],
            json.dumps(exp.get("arguments"), sort_keys=True), exp["consume_exclusive"],
            json.dumps(exp["consume_arguments"], sort_keys=True))
    if sig != want:
        findings.append({"property": PROP, "rule": "address-mapping", "witness": h.flavour,
                         "detail": "%r declared (queue, durable, exclusive, auto_delete, arguments, consume exclusive, "
                                   "consume arguments) = %r, the grammar says %r" % (address, sig, want)})
    return sig


FIELDS = ["content_type", "content_encoding", "priority", "correlation_id", "reply_to", "message_id", "timestamp", "type",
          "user_id", "app_id"]
EXPIRATIONS = [None, 0, 1500, 2500.7, "3000", "42.9", -5, "-1", "soon", "", "1e3"]


def expected_expiration(x):
    if x is None:
        return None
    try:
        v = int(float(x))
    except (TypeError, ValueError):
        return "0"
    return "0" if v < 0 else str(v)


def check_messages(h, rng, findings, n):
    got = []
    h.consumer("mapq; " + json.dumps({"node": {"durable": True}}), lambda m: got.append(m))
    prod = h.producer("mapq")
    sent = []
    M = h.m.Message
    for k in range(n):
        kw = {}
        for f in FIELDS:
            if rng.random() < 0.4:
                kw[f] = {"content_type": "application/json", "content_encoding": "utf-8", "priority": rng.randint(0, 9),
                         "correlation_id": "cid-%d" % k, "reply_to": "replies", "message_id": "mid-%d" % k,
                         "timestamp": 1700000000 + k, "type": "t", "user_id": "guest", "app_id": "app"}[f]
        exp = rng.choice(EXPIRATIONS)
        # a zero / tiny TTL is only deliverable because the consumer is ready; keep it
        if exp is not None:
            kw["expiration"] = exp
        if rng.random() < 0.5:
            kw["properties"] = {"h1": "v", "n": k}
        if rng.random() < 0.3:
            kw["durable"] = rng.random() < 0.5
        body = rng.choice(["", "plain text", json.dumps({"k": k}), "unicode éè"])
        recorded = json.loads(json.dumps(kw))
        msg = M(body, **kw)
        if rng.random() < 0.3:
            msg.subject = "mapq"
        sent.append((body, recorded, exp))
        try:
            h.send(prod, msg)
        except Exception as e:
            findings.append({"property": PROP, "rule": "send-raised", "witness": h.flavour,
                             "detail": "send(%r) raised %s: %s" % (kw, type(e).__name__, e)})
            return []
    h.settle()
    if len(got) != len(sent):
        findings.append({"property": PROP, "rule": "message-lost", "witness": h.flavour,
                         "detail": "%d sent, %d received (expirations %r)" % (len(sent), len(got), [s[2] for s in sent])})
        return []
    sigs = []
    for (body, kw, exp), m in zip(sent, got):
        bad = []
        if m.body != body.encode("utf-8"):
            bad.append("body %r != %r" % (m.body, body))
        for f in FIELDS:
            if getattr(m, f) != kw.get(f):
                bad.append("%s %r != %r" % (f, getattr(m, f), kw.get(f)))
        want_exp = expected_expiration(exp)
        if m.expiration != want_exp:
            bad.append("expiration %r arrived as %r, expected %r" % (exp, m.expiration, want_exp))
        if m.expiration is not None and not (isinstance(m.expiration, str) and m.expiration.isdigit()):
            bad.append("expiration %r is not a non-negative integer string" % (m.expiration,))
        props = dict(m.properties or {})
        props.pop("x-amqp-0-9-1.subject", None)
        if props != (kw.get("properties") or {}):
            bad.append("properties %r != %r" % (props, kw.get("properties")))
        if m.durable != kw.get("durable", True):
            bad.append("durable %r != %r" % (m.durable, kw.get("durable", True)))
        if m.redelivered:
            bad.append("redelivered set on first delivery")
        if bad:
            findings.append({"property": PROP, "rule": "message-mapping", "witness": h.flavour,
                             "detail": "; ".join(bad)[:500]})
            break
        sigs.append((m.body, m.expiration, m.durable, tuple(getattr(m, f) for f in FIELDS)))
    # selective acknowledgement: acknowledge exactly the middle of the unacknowledged deliveries
    unacked = sorted(t for (ch, t, qn, mm, c) in h.sim.broker.all_unacked() if ch.node == "cli")
    if len(got) >= 3 and len(unacked) == len(got):
        k = rng.randrange(1, len(got) - 1)
        tag = got[k]._delivery_tag
        if h.flavour == "asyncio":
            async def ack():
                got[k].acknowledge(multiple=False)
        else:
            def ack():
                got[k].acknowledge(multiple=False)
        h.run(ack)
        after = sorted(t for (ch, t, qn, mm, c) in h.sim.broker.all_unacked() if ch.node == "cli")
        if after != [t for t in unacked if t != tag]:
            findings.append({"property": PROP, "rule": "selective-acknowledge", "witness": h.flavour,
                             "detail": "acknowledging delivery %s of %s left %s" % (tag, unacked, after)})
    return sigs


def mapping_case(i, tier):
    seed = common.run_seed(i) + 17
    findings = []
    per = {}
    addr_rng = random.Random(seed)
    addresses = [gen_queue_address(addr_rng) for _ in range(6)]
    for flavour in ("asyncio", "blocking"):
        rng = random.Random(seed)
        h = Harness(seed, flavour)
        h.open()
        sigs = []
        seen_names = set()
        for a in addresses:
            nm = a.split(";")[0].strip()
            if nm in seen_names:
                continue      # re-declaring a queue with other arguments is a broker error, not a mapping question
            seen_names.add(nm)
            sigs.append(check_queue_address(h, a, findings))
        msgs = check_messages(h, rng, findings, 12)
        # producer forms
        prod_sigs = []
        for addr in ["plainq", "amq.topic/news.sports", '; {"node": {"x-declare": {"exchange": "ex-%d", "exchange-type": "topic", '
                     '"durable": true}}}' % (i % 3)] + gen_producer_addresses(random.Random(seed ^ 0x919), i):
            n0 = len(h.sim.broker.oplog)
            try:
                p = h.producer(addr)
                h.send(p, h.m.Message("x", subject=None))
            except Exception as e:
                findings.append({"property": PROP, "rule": "producer-failed", "witness": flavour,
                                 "detail": "%r: %s %s" % (addr, type(e).__name__, e)})
                continue
            pubs = [kw for (st, t, nm, nd, kw) in h.sim.broker.oplog[n0:] if nm == "basic_publish" and nd == "cli"]
            decl = [(kw["exchange"], kw["type"], kw["durable"]) for (st, t, nm, nd, kw) in h.sim.broker.oplog[n0:]
                    if nm == "exchange_declare" and nd == "cli"]
            prod_sigs.append((addr, [(kw["exchange"], kw["key"]) for kw in pubs], decl))
        per[flavour] = (sigs, msgs, prod_sigs)
        if h.sim.errors:
            findings.append({"property": PROP, "rule": "messaging-exception", "witness": flavour,
                             "detail": repr(h.sim.errors[0][:3])})
    from model import address as A
    for flavour, (sigs, msgs, prod_sigs) in per.items():
        for addr, pubs, decl in prod_sigs:
            exp = A.producer_expectation(addr, {"amq.topic", "amq.direct", "amq.fanout", "amq.match", "amq.headers"} |
                                         ({addr.split('"exchange": "')[1].split('"')[0]} if '"exchange": "' in addr else set()))
            if pubs and pubs[0] != (exp["exchange"], exp["default_key"]):
                findings.append({"property": PROP, "rule": "producer-mapping", "witness": flavour,
                                 "detail": "%r published to %r, the grammar says (%r, %r)" % (addr, pubs[0], exp["exchange"], exp["default_key"])})
            if exp["declares_exchange"] and (exp["declares_exchange"][0], exp["declares_exchange"][1], exp["declares_exchange"][2]) not in decl:
                findings.append({"property": PROP, "rule": "producer-mapping", "witness": flavour,
                                 "detail": "%r declared %r, expected %r" % (addr, decl, exp["declares_exchange"])})
    if not findings and per["asyncio"] != per["blocking"]:
        findings.append({"property": PROP, "rule": "transports-differ", "witness": None,
                         "detail": "asyncio %r\nblocking %r" % (per["asyncio"], per["blocking"])})
    for f in findings:
        f["seed"] = seed
        f["kind"] = "mapping"
        f["index"] = i
    return {"evaluations": 1, "sim_seconds": 0.0, "steps": 0, "broker_ops": 0, "interleavings": [],
            "distinct": [common.sha(["map", addresses])], "probes": {"kind:mapping": 1, "addresses": len(addresses), "messages": 24},
            "findings": findings, "sample": {"kind": "mapping", "addresses": addresses[:3]}}


def run_one(item, extra):
    kind, i = item
    if kind == "aff":
        seed, scn = affinity_case(i, extra["tier"])
        return check_affinity(scn, seed)
    return mapping_case(i, extra["tier"])


def main(argv):
    if len(argv) > 1 and argv[0] == "--replay":
        with open(argv[1]) as f:
            rec = json.load(f)
        if rec.get("kind") == "mapping":
            r = mapping_case(rec["index"], "quick")
        else:
            r = check_affinity(rec["scenario"], rec["seed"])
        same = [f for f in r["findings"] if f["rule"] == rec["rule"]]
        print("replay %s: %s" % (argv[1], "REPRODUCED rule=%s%s" % (rec["rule"], common.digest_note(rec, same)) if same else "not reproduced"))
        return 1 if same else 0
    tier = common.tier()
    na, nm = (1200, 800) if tier == "quick" else (60000, 40000)
    items = [("aff", i) for i in range(na)] + [("map", i) for i in range(nm)]
    rep = common.Report(PROP)
    from checks import minimise as _MIN
    rep.minimiser = lambda f: _MIN.scenario(f, lambda scn, seed: check_affinity(scn, seed)) if f.get('kind') == 'affinity' else f
    for r in common.run_batch("checks.c19", "run_one", items, {"tier": tier}):
        rep.absorb(r)
    return rep.finish(
        rule="(A) 1-3 engine instances (asyncio or blocking transport, classic/quorum queues) with the state machines "
             "preloaded in every instance's store file; 2-5 executions from the scenario corpus (incl. nested fan-out, "
             "async and synchronous child launches) started through a random instance under a seeded schedule policy; "
             "affinity monitor on every publish and delivery in the broker log; a twin process with instance 0's id is "
             "booted at t=2 and must be refused; (B) 6 queue addresses with options generated from the documented "
             "grammar + 3 producer forms + 12 messages with random optional fields and expirations from %r + selective "
             "acknowledgement, each through the real asyncio AND blocking messaging classes, compared with an independent "
             "reading of the grammar and with each other; distinct = distinct scenario/interleaving or address-set hashes" % (
                 EXPIRATIONS,),
        assumptions=["'the wire' = the arguments of the pika API calls (pika itself is a stub)",
                     "file-backed stores are not shared, so every instance's store file is preloaded with the machines"])


if __name__ == "__main__":
    sys.exit(main(sys.argv[1:]))
