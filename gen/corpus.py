"""
Hand-written scenario corpus (shapes of the repository's own demo scripts
rewritten as data, plus targeted ones).  Each entry: name -> dict(definition, input, script).
"""
F = "arn:aws:rpcmessage:local::function:"


def T(fn, **kw):
    d = {"Type": "Task", "Resource": F + fn}
    d.update(kw)
    return d


def machine(start, **states):
    return {"StartAt": start, "States": states}


OK = {"op": "wrap"}

CORPUS = {
    "pass-task-pass": dict(
        definition=machine("A", A={"Type": "Pass", "Result": {"v": 1}, "ResultPath": "$.a", "Next": "B"},
                           B=T("f1", ResultPath="$.b", Next="C"), C={"Type": "Pass", "End": True}),
        input={"x": 1}, script={"f1": [{"ok": OK, "delay": 2.0}]}),
    "two-tasks-and-wait": dict(
        definition=machine("A", A=T("f1", Next="W"), W={"Type": "Wait", "Seconds": 3, "Next": "B"},
                           B=T("f2", End=True)),
        input={"x": 2}, script={"f1": [{"ok": {"op": "echo"}, "delay": 1.0}], "f2": [{"ok": OK, "delay": 1.0}]}),
    "choice-and-succeed": dict(
        definition=machine("C", C={"Type": "Choice", "Choices": [{"Variable": "$.n", "NumericGreaterThan": 1, "Next": "T"}],
                                   "Default": "S"}, T=T("f1", Next="S"), S={"Type": "Succeed"}),
        input={"n": 5}, script={"f1": [{"ok": {"op": "tag"}, "delay": 1.0}]}),
    "task-retry-then-success": dict(
        definition=machine("A", A=T("f1", Retry=[{"ErrorEquals": ["E.X"], "IntervalSeconds": 2, "MaxAttempts": 3,
                                                   "BackoffRate": 2.0}], End=True)),
        input={"x": 3}, script={"f1": [{"err": "E.X", "delay": 1.0}, {"err": "E.X", "delay": 0.5}, {"ok": OK, "delay": 1.0}]}),
    "task-catch": dict(
        definition=machine("A", A=T("f1", Catch=[{"ErrorEquals": ["States.ALL"], "ResultPath": "$.err", "Next": "H"}],
                                    End=True), H=T("f2", ResultPath="$.h", End=True)),
        input={"x": 4}, script={"f1": [{"err": "E.Y", "msg": "boom", "delay": 1.0}], "f2": [{"ok": {"op": "tag"}, "delay": 1.0}]}),
    "task-timeout-caught": dict(
        definition=machine("A", A=T("slow", TimeoutSeconds=2, Catch=[{"ErrorEquals": ["States.Timeout"],
                                                                       "ResultPath": "$.err", "Next": "H"}], End=True),
                           H={"Type": "Pass", "Result": "late", "ResultPath": "$.h", "End": True}),
        input={"x": 5}, script={"slow": [{"noreply": True}]}),
    "fail-state": dict(
        definition=machine("A", A=T("f1", Next="F"), F={"Type": "Fail", "Error": "E.Fail", "Cause": "because"}),
        input={}, script={"f1": [{"ok": {"op": "echo"}, "delay": 1.0}]}),
    "parallel-two-tasks": dict(
        definition=machine("P", P={"Type": "Parallel", "Branches": [
            machine("A", A=T("f1", End=True)), machine("B", B=T("f2", Next="B2"), B2={"Type": "Pass", "End": True})],
            "ResultPath": "$.r", "Next": "Z"}, Z=T("f3", End=True)),
        input={"x": 6}, script={"f1": [{"ok": OK, "delay": 1.0}], "f2": [{"ok": OK, "delay": 3.0}],
                                "f3": [{"ok": {"op": "tag"}, "delay": 1.0}]}),
    "parallel-end-with-wait": dict(
        definition=machine("P", P={"Type": "Parallel", "Branches": [
            machine("W", W={"Type": "Wait", "Seconds": 4, "End": True}), machine("A", A=T("f1", End=True))], "End": True}),
        input={"x": 7}, script={"f1": [{"ok": OK, "delay": 2.0}]}),
    "map-tasks": dict(
        definition=machine("M", M={"Type": "Map", "ItemsPath": "$.items", "ItemProcessor": machine("T", T=T("f1", End=True)),
                                   "ResultPath": "$.out", "Next": "Z"}, Z={"Type": "Pass", "End": True}),
        input={"items": [{"i": 0}, {"i": 1}, {"i": 2}]},
        script={"f1": [{"ok": OK, "delay_map": {'{"i":0}': 3.0, '{"i":1}': 1.0, '{"i":2}': 2.0}}]}),
    "map-maxconcurrency": dict(
        definition=machine("M", M={"Type": "Map", "ItemsPath": "$.items", "MaxConcurrency": 2,
                                   "ItemProcessor": machine("T", T=T("f1", End=True)), "End": True}),
        input={"items": [1, 2, 3, 4, 5]}, script={"f1": [{"ok": OK, "delay": 1.0}]}),
    "map-batches-task-then-pass": dict(
        definition=machine("M", M={"Type": "Map", "ItemsPath": "$.items", "MaxConcurrency": 2, "ResultPath": "$.r", "Next": "Z",
                                   "ItemProcessor": machine("T", T=T("f1", Next="D"), D={"Type": "Pass", "End": True})},
                           Z={"Type": "Pass", "End": True}),
        input={"items": [1, 2, 3, 4]}, script={"f1": [{"ok": OK, "delay": 1.0}]}),
    "parallel-branch-fails": dict(
        definition=machine("P", P={"Type": "Parallel", "Branches": [
            machine("A", A=T("f1", End=True)), machine("B", B=T("bad", End=True))], "End": True}),
        input={"x": 8}, script={"f1": [{"ok": OK, "delay": 3.0}], "bad": [{"err": "E.Z", "msg": "nope", "delay": 1.0}]}),
    "map-task-retry-in-iteration": dict(
        definition=machine("M", M={"Type": "Map", "ItemsPath": "$.items", "ItemProcessor": machine(
            "T", T=T("f1", Retry=[{"ErrorEquals": ["E.X"], "IntervalSeconds": 1, "MaxAttempts": 2}], End=True)), "End": True}),
        input={"items": ["a", "b"]}, script={"f1": [{"err": "E.X", "delay": 0.5}, {"ok": OK, "delay": 0.5}]}),
    # nested fan-outs: a branch / iteration whose terminal state is itself a Map or Parallel state
    "map-batches-iterator-ends-in-parallel": dict(
        definition=machine("M", M={"Type": "Map", "ItemsPath": "$.items", "MaxConcurrency": 2, "ResultPath": "$.r", "Next": "Z",
                                   "ItemProcessor": machine("P", P={"Type": "Parallel", "End": True, "Branches": [
                                       machine("A", A=T("f1", Next="B"), B=T("f2", End=True))]})},
                           Z=T("f3", End=True)),
        input={"items": [1, 2, 3]}, script={"f1": [{"ok": {"op": "echo"}, "delay": 0.5}], "f2": [{"ok": OK, "delay": 1.0}],
                                            "f3": [{"ok": {"op": "tag"}, "delay": 0.5}]}),
    "parallel-branch-ends-in-map": dict(
        definition=machine("P", P={"Type": "Parallel", "End": True, "Branches": [
            machine("M", M={"Type": "Map", "ItemsPath": "$.items", "End": True,
                            "ItemProcessor": machine("T", T=T("f1", End=True))}),
            machine("S", S=T("f2", End=True))]}),
        input={"items": [1, 2]}, script={"f1": [{"ok": OK, "delay": 1.0}], "f2": [{"ok": OK, "delay": 3.0}]}),
    "parallel-in-parallel-then-task": dict(
        definition=machine("P", P={"Type": "Parallel", "Next": "Z", "ResultPath": "$.r", "Branches": [
            machine("Q", Q={"Type": "Parallel", "End": True, "Branches": [
                machine("A", A=T("f1", End=True)), machine("W", W={"Type": "Wait", "Seconds": 2, "End": True})]}),
            machine("B", B=T("f2", End=True))]}, Z=T("f3", End=True)),
        input={"x": 1}, script={"f1": [{"ok": OK, "delay": 1.0}], "f2": [{"ok": OK, "delay": 4.0}],
                                "f3": [{"ok": {"op": "tag"}, "delay": 0.5}]}),
    "wait-long-then-task": dict(
        definition=machine("W", W={"Type": "Wait", "Seconds": 30, "Next": "A"}, A=T("f1", End=True)),
        input={"x": 9}, script={"f1": [{"ok": {"op": "tag"}, "delay": 0.0}]}),
}

# started the "low-level" way: the client publishes the start event itself, naming only the machine and the execution
CORPUS["raw-start-task-wait"] = dict(
    definition=machine("A", A=T("f1", Next="W"), W={"Type": "Wait", "Seconds": 2, "Next": "B"}, B=T("f2", End=True)),
    input={"x": 3}, script={"f1": [{"ok": OK, "delay": 1.0}], "f2": [{"ok": {"op": "tag"}, "delay": 1.0}]}, via="raw")

# a fire-and-forget child launch between two Tasks: the launching event must survive a restart like any other
CORPUS["async-child-launch"] = dict(
    definition=machine("A", A=T("f1", Next="L"),
                       L={"Type": "Task", "Resource": "arn:aws:states:local::states:startExecution",
                          "Parameters": {"StateMachineArn": "arn:aws:states:local:0123456789:stateMachine:kid", "Input": {"v.$": "$.x"}},
                          "ResultPath": "$.launched", "OutputPath": "$.x", "Next": "B"},
                       B=T("f2", End=True)),
    input={"x": 5}, script={"f1": [{"ok": {"op": "echo"}, "delay": 1.0}], "f2": [{"ok": {"op": "tag"}, "delay": 1.0}],
                            "kidwork": [{"ok": {"op": "tag"}, "delay": 2.0}]},
    machines={"kid": {"definition": machine("K", K=T("kidwork", End=True)), "type": "STANDARD"}})

# a Map with MaxConcurrency batches that is not at the top level: in a Parallel branch, and in the iterations of an
# unbatched Map (its re-entry events for the later batches carry the frame of the fan-out around it)
CORPUS["parallel-branch-with-batched-map"] = dict(
    definition=machine("P", P={"Type": "Parallel", "End": True, "Branches": [
        machine("M", M={"Type": "Map", "ItemsPath": "$.items", "MaxConcurrency": 1,
                        "ItemProcessor": machine("T", T=T("f1", End=True)), "End": True}),
        machine("B", B=T("f2", End=True))]}),
    input={"items": [1, 2, 3]}, script={"f1": [{"ok": OK, "delay": 1.0}], "f2": [{"ok": {"op": "tag"}, "delay": 2.5}]})
CORPUS["map-of-batched-maps"] = dict(
    definition=machine("O", O={"Type": "Map", "ItemsPath": "$.groups", "End": True, "ItemProcessor": machine(
        "M", M={"Type": "Map", "ItemsPath": "$.items", "MaxConcurrency": 2,
                "ItemProcessor": machine("T", T=T("f1", End=True)), "End": True})}),
    input={"groups": [{"items": [1, 2, 3]}, {"items": [4, 5, 6, 7, 8]}]}, script={"f1": [{"ok": OK, "delay": 1.0}]})

# a child execution the parent waits for (.sync): the parent's launching Task must re-attach to the running child after a
# restart (the child is named by the launching event's id, which survives redelivery)
for _form, _nm in (("startExecution.sync", "sync-child-between-tasks"), ("startExecution.sync:2", "sync2-child-between-tasks")):
    CORPUS[_nm] = dict(
        definition=machine("A", A=T("f1", Next="L"),
                           L={"Type": "Task", "Resource": "arn:aws:states:local::states:" + _form,
                              "Parameters": {"StateMachineArn": "arn:aws:states:local:0123456789:stateMachine:kid",
                                             "Input": {"v.$": "$.x"}},
                              "ResultSelector": {"out.$": "$.Output", "st.$": "$.Status"},
                              "ResultPath": "$.kid", "Next": "B"},
                           B=T("f2", End=True)),
        input={"x": 5}, script={"f1": [{"ok": {"op": "echo"}, "delay": 1.0}], "f2": [{"ok": {"op": "len"}, "delay": 1.0}],
                                "kidwork": [{"ok": {"op": "tag"}, "delay": 2.0}]},
        machines={"kid": {"definition": machine("K", K=T("kidwork", Next="K2"), K2={"Type": "Wait", "Seconds": 1, "End": True}),
                          "type": "STANDARD"}})

QUICK = ["raw-start-task-wait", "async-child-launch", "sync-child-between-tasks", "pass-task-pass", "two-tasks-and-wait", "choice-and-succeed", "task-retry-then-success", "task-catch",
         "task-timeout-caught", "fail-state", "parallel-two-tasks", "parallel-end-with-wait", "map-tasks",
         "map-maxconcurrency", "map-batches-task-then-pass", "parallel-branch-fails", "map-batches-iterator-ends-in-parallel",
         "parallel-branch-ends-in-map", "parallel-in-parallel-then-task"]


def scenario(name, cfg=None, type_="STANDARD"):
    c = CORPUS[name]
    conf = {"policy": "canonical", "latency": "zero", "execution_ttl": 120}
    conf.update(cfg or {})
    machines = {"m": {"definition": c["definition"], "type": type_, "family": "corpus:" + name}}
    for k, v in (c.get("machines") or {}).items():
        machines[k] = dict(v)
    return {"machines": machines,
            "executions": [dict({"machine": "m", "input": c["input"], "name": "e1"}, **({"via": c["via"]} if c.get("via") else {}))],
            "script": c["script"], "functions": sorted(c["script"]), "config": conf}


# nested fan-out failure scenarios (hand written; they hold on the repaired tree under every schedule policy)
NESTED = {
    "outer-branch-fails-sibling-inner-parallel": dict(
        definition=machine("P", P={"Type": "Parallel", "Branches": [
            machine("A", A=T("bad", End=True)),
            machine("Q", Q={"Type": "Parallel", "Branches": [machine("W", W={"Type": "Wait", "Seconds": 3, "End": True}),
                                                           machine("S", S=T("slow", End=True))], "End": True})],
            "End": True}),
        input={"x": 1}, script={"bad": [{"err": "E.A", "delay": 1.0}], "slow": [{"ok": {"op": "tag"}, "delay": 2.0}]}),
    "outer-map-item-fails-inner-parallel": dict(
        definition=machine("M", M={"Type": "Map", "ItemsPath": "$.items", "ItemProcessor": machine(
            "Q", Q={"Type": "Parallel", "Branches": [machine("S", S=T("f", End=True)),
                                                   machine("W", W={"Type": "Wait", "Seconds": 2, "End": True})],
                    "End": True}), "End": True}),
        input={"items": [{"i": 0}, {"i": 1}]},
        script={"f": [{"err": "E.B", "delay": 0.5, "delay_map": {'{"i":0}': 3.0}}]}),
    "outer-fail-state-sibling-map": dict(
        definition=machine("P", P={"Type": "Parallel", "Branches": [
            machine("F", F={"Type": "Fail", "Error": "E.F", "Cause": "c"}),
            machine("M", M={"Type": "Map", "ItemsPath": "$.items", "ItemProcessor": machine("S", S=T("slow", End=True)),
                            "End": True})], "End": True}),
        input={"items": [1, 2, 3]}, script={"slow": [{"ok": {"op": "wrap"}, "delay": 2.0}]}),
    "inner-branch-fails": dict(
        definition=machine("P", P={"Type": "Parallel", "Branches": [
            machine("A", A=T("slow", End=True)),
            machine("Q", Q={"Type": "Parallel", "Branches": [machine("B", B=T("bad", End=True)),
                                                           machine("W", W={"Type": "Wait", "Seconds": 5, "End": True})],
                            "End": True})], "End": True}),
        input={"x": 1}, script={"bad": [{"err": "E.A", "delay": 1.0}], "slow": [{"ok": {"op": "tag"}, "delay": 3.0}]}),
    "inner-map-item-fails-outer-map": dict(
        definition=machine("M", M={"Type": "Map", "ItemsPath": "$.rows", "ItemProcessor": machine(
            "I", I={"Type": "Map", "ItemsPath": "$.cells", "ItemProcessor": machine("S", S=T("f", End=True)), "End": True}),
            "End": True}),
        input={"rows": [{"cells": [1, 2]}, {"cells": [3, 4]}]},
        script={"f": [{"err": "E.X", "delay": 1.0, "delay_map": {"1": 2.0, "2": 2.0, "4": 2.0}}]}),
    "outer-branch-fails-late-sibling-inner-waits": dict(
        definition=machine("P", P={"Type": "Parallel", "Branches": [
            machine("A", A={"Type": "Wait", "Seconds": 1, "Next": "A2"}, A2=T("bad", End=True)),
            machine("Q", Q=T("quick", Next="R"), R={"Type": "Parallel", "Branches": [
                machine("W1", W1={"Type": "Wait", "Seconds": 4, "End": True}),
                machine("W2", W2={"Type": "Wait", "Seconds": 5, "End": True})], "End": True})], "End": True}),
        input={"x": 1}, script={"bad": [{"err": "E.A", "delay": 1.0}], "quick": [{"ok": {"op": "echo"}, "delay": 0.5}]}),
}


def nested_scenario(name, cfg):
    c = NESTED[name]
    return {"machines": {"m0": {"definition": c["definition"], "type": "STANDARD", "family": "nested:" + name}},
            "executions": [{"machine": "m0", "input": c["input"], "name": "e0"}], "script": c["script"],
            "functions": sorted(c["script"]), "config": cfg}
