"""
Seeded generator of well-formed state machines + inputs + worker scripts.

The generator walks forward along the path it is building with a concrete
sample document (the input is concrete and workers are deterministic), so the
paths it writes mostly address things that exist; with small probability it
writes paths that match nothing, to reach the error branches.

Profiles steer what may appear (swarm testing): see PROFILES.
"""
import copy
import json

from lsfsim.peers import apply_transform
from model import asl as M

FN_ARN = "arn:aws:rpcmessage:local::function:"

ERROR_NAMES = ["E.Alpha", "E.Beta", "CustomError", "States.Timeout", "States.TaskFailed", "E.Gamma"]

PROFILES = {
    # general differential profile for C01: everything except known-finding triggers
    "general": dict(types=dict(Pass=5, Task=5, Choice=2, Wait=1, Succeed=1, Fail=1, Parallel=2, Map=2),
                    p_miss=0.04, p_err=0.25, p_retry=0.4, p_catch=0.5, top_error_member=False,
                    nulls_as_documents=False, multi_retrier_hits=False, delays=[0.0, 0.0, 1.0, 2.0],
                    p_timeout=0.1, wait_secs=[0, 1, 2, 3]),
    "sequential": dict(types=dict(Pass=5, Task=5, Choice=3, Wait=2, Succeed=1, Fail=1, Parallel=0, Map=0),
                       p_miss=0.04, p_err=0.25, p_retry=0.4, p_catch=0.5, top_error_member=False,
                       nulls_as_documents=False, multi_retrier_hits=False, delays=[0.0, 1.0], p_timeout=0.1,
                       wait_secs=[0, 1, 2]),
    "fanout_ok": dict(types=dict(Pass=3, Task=5, Choice=1, Wait=2, Succeed=0, Fail=0, Parallel=4, Map=4),
                      p_miss=0.0, p_err=0.0, p_retry=0.0, p_catch=0.0, top_error_member=False,
                      nulls_as_documents=False, multi_retrier_hits=False, delays=[0.0, 0.5, 1.0, 2.0, 3.0],
                      p_timeout=0.0, wait_secs=[0, 1, 2, 3]),
    "fanout_fail": dict(types=dict(Pass=2, Task=6, Choice=1, Wait=2, Succeed=0, Fail=1, Parallel=4, Map=4),
                        p_miss=0.02, p_err=0.35, p_retry=0.3, p_catch=0.4, top_error_member=False,
                        nulls_as_documents=False, multi_retrier_hits=False, delays=[0.0, 0.5, 1.0, 2.0, 3.0],
                        p_timeout=0.1, wait_secs=[0, 1, 2, 3]),
    "retry": dict(types=dict(Pass=2, Task=8, Choice=1, Wait=1, Succeed=1, Fail=1, Parallel=1, Map=1),
                  p_miss=0.02, p_err=0.7, p_retry=0.9, p_catch=0.6, top_error_member=False,
                  nulls_as_documents=False, multi_retrier_hits=False, delays=[0.0, 0.0, 1.0], p_timeout=0.15,
                  wait_secs=[0, 1]),
}

PROFILES["timing"] = dict(types=dict(Pass=2, Task=5, Choice=1, Wait=6, Succeed=1, Fail=0, Parallel=0, Map=0),
                          p_miss=0.0, p_err=0.2, p_retry=0.5, p_catch=0.5, top_error_member=False,
                          nulls_as_documents=False, multi_retrier_hits=False, delays=[0.0, 0.5, 1.0, 2.5],
                          p_timeout=0.4, wait_secs=[0, 1, 2, 3, 7], wait_timestamps=True)

# Wait / Task time-outs inside Parallel branches and Map iterators (first and later states, MaxConcurrency batches);
# no scripted errors, so that the only failures are time-outs
PROFILES["timing_fanout"] = dict(types=dict(Pass=1, Task=4, Choice=0, Wait=6, Succeed=0, Fail=0, Parallel=3, Map=4),
                                 p_miss=0.0, p_err=0.0, p_retry=0.0, p_catch=0.0, top_error_member=False,
                                 nulls_as_documents=False, multi_retrier_hits=False, delays=[0.0, 0.5, 1.0, 2.5],
                                 p_timeout=0.15, wait_secs=[0, 1, 2, 3, 7], wait_timestamps=True)

SIZES = {
    "quick": dict(depth=2, states=6, fan=3, items=4),
    "thorough": dict(depth=3, states=10, fan=5, items=8),
}

KEYS = ["a", "b", "c", "d", "k1", "val", "items", "n", "flag", "s"]
SCALARS = [0, 1, 2, 7, -3, 2.5, "", "x", "hello", True, False, None]


def gen_value(rng, depth=2, allow_null=True):
    r = rng.random()
    if depth <= 0 or r < 0.4:
        v = rng.choice(SCALARS)
        if v is None and not allow_null:
            v = 0
        return v
    if r < 0.75:
        return {k: gen_value(rng, depth - 1, allow_null) for k in rng.sample(KEYS, rng.randint(0, 3))}
    return [gen_value(rng, depth - 1, allow_null) for _ in range(rng.randint(0, 3))]


def gen_input(rng, profile):
    doc = {}
    for k in rng.sample(KEYS, rng.randint(1, 4)):
        doc[k] = gen_value(rng, 2)
    # always something to iterate and to compare
    doc["items"] = distinct_items(rng, rng.randint(0, 4))
    doc["n"] = rng.choice([0, 1, 2, 5, 10])
    doc["s"] = rng.choice(["", "x", "abc", "hello"])
    doc["flag"] = rng.random() < 0.5
    if profile.get("top_error_member"):
        doc["Error"] = "just data"
    return doc


def distinct_items(rng, n):
    out = []
    seen = set()
    tries = 0
    while len(out) < n and tries < 50:
        tries += 1
        v = rng.choice([rng.randint(0, 20), {"id": rng.randint(0, 50)}, "i%d" % rng.randint(0, 30),
                        {"id": rng.randint(0, 50), "w": rng.choice([0, 1, 2])}, [rng.randint(0, 9)]])
        c = json.dumps(v, sort_keys=True)
        if c not in seen:
            seen.add(c)
            out.append(v)
    return out


def all_paths(doc, prefix="$", out=None, depth=0):
    """Reference paths addressing existing nodes (identifier-like keys only)."""
    if out is None:
        out = []
    out.append((prefix, doc))
    if depth > 3:
        return out
    if isinstance(doc, dict):
        for k, v in doc.items():
            if k.isidentifier():
                all_paths(v, prefix + "." + k, out, depth + 1)
    elif isinstance(doc, list):
        for i, v in enumerate(doc[:3]):
            all_paths(v, "%s[%d]" % (prefix, i), out, depth + 1)
    return out


def rfc3339(t, offset_minutes=0, zulu_if_zero=False):
    """Render the instant t (epoch seconds) in the given UTC offset notation (independent of the engine)."""
    import datetime as _dt
    tz = _dt.timezone(_dt.timedelta(minutes=offset_minutes))
    d = _dt.datetime.fromtimestamp(t, tz)
    s = d.strftime("%Y-%m-%dT%H:%M:%S")
    if d.microsecond:
        s += (".%06d" % d.microsecond).rstrip("0")
    if offset_minutes == 0 and zulu_if_zero:
        return s + "Z"
    sign = "+" if offset_minutes >= 0 else "-"
    m = abs(offset_minutes)
    return "%s%s%02d:%02d" % (s, sign, m // 60, m % 60)


class Gen(object):
    def __init__(self, rng, profile="general", tier="quick"):
        self.rng = rng
        self.p = dict(PROFILES[profile]) if isinstance(profile, str) else dict(profile)
        self.sz = SIZES[tier] if isinstance(tier, str) else dict(tier)
        self.n = 0
        self.script = {}
        self.functions = []
        self.budget = self.sz["states"] * 3
        self.in_maxconc_map = 0
        self.level = 0
        self.no_retry = 0
        self.extra_input = {}

    # -- helpers --------------------------------------------------------------------
    def name(self, typ):
        self.n += 1
        return "%s%d" % (typ[:2], self.n)

    def quiet(self, level):
        """True where this profile forbids generating failures (nested fan-out levels)."""
        return int(level) > self.p.get("fail_levels", 99)

    def pmiss(self):
        return 0.0 if self.quiet(self.level) else self.p["p_miss"]

    def pick_type(self, depth, last, level=0):
        w = dict(self.p["types"])
        if self.quiet(level):
            w["Fail"] = 0
        if self.in_maxconc_map and not self.p.get("map_in_maxconc_map", False):
            w["Map"] = 0
        if depth <= 0:
            w["Parallel"] = 0
            w["Map"] = 0
        if not last:
            w["Succeed"] = 0
            w["Fail"] = 0
        names = [k for k, v in w.items() if v > 0]
        weights = [w[k] for k in names]
        return self.rng.choices(names, weights)[0]

    def existing_path(self, doc, pred=None, allow_root=True):
        c = [(p, v) for p, v in all_paths(doc) if (pred is None or pred(v)) and (allow_root or p != "$")]
        if not self.p["nulls_as_documents"]:
            c = [(p, v) for p, v in c if v is not None]
        if not c:
            return None
        return self.rng.choice(c)[0]

    def input_path(self, doc):
        r = self.rng.random()
        if r < 0.6:
            return "$"
        if r < 0.6 + self.pmiss():
            return "$.nope" + str(self.rng.randint(0, 9))
        return self.existing_path(doc) or "$"

    def result_path(self, doc):
        r = self.rng.random()
        if r < 0.35:
            return "$"
        if r < 0.42:
            return None
        if not isinstance(doc, dict):
            return "$"
        if r < 0.75:
            return "$." + self.rng.choice(["r", "out", "res%d" % self.rng.randint(0, 3)])
        if r < 0.85:
            return "$.nest.r%d" % self.rng.randint(0, 2)
        objs = [p for p, v in all_paths(doc) if isinstance(v, dict) and p != "$"]
        if objs and r < 0.95:
            return self.rng.choice(objs) + ".r"
        p = self.existing_path(doc, allow_root=False)
        return p or "$.r"

    def safe(self, fn, default):
        try:
            return fn()
        except (M.StateError, M.ModelUnsupported):
            return default

    def parameters(self, doc, ctx_extra=False):
        """A payload template over doc. Returns (template, sample result)."""
        tpl = {}
        for i in range(self.rng.randint(1, 3)):
            k = "p%d" % i
            r = self.rng.random()
            if r < 0.45:
                p = self.existing_path(doc)
                if r < self.pmiss():
                    p = "$.missing"
                tpl[k + ".$"] = p or "$"
            elif r < 0.6:
                tpl[k] = gen_value(self.rng, 1)
            elif r < 0.7:
                tpl[k] = {"q.$": self.existing_path(doc) or "$", "lit": self.rng.choice(SCALARS[:8])}
            elif r < 0.8:
                tpl[k + ".$"] = self.rng.choice(["$$.Execution.Name", "$$.State.Name", "$$.Execution.Input",
                                                 "$$.StateMachine.Id"])
            elif r < 0.9:
                nump = self.existing_path(doc, lambda v: isinstance(v, int) and not isinstance(v, bool))
                if nump:
                    tpl[k + ".$"] = "States.MathAdd(%s, %d)" % (nump, self.rng.randint(-2, 5))
                else:
                    tpl[k + ".$"] = "States.Array(1, 'two', %s)" % (self.existing_path(doc) or "$")
            else:
                sp = self.existing_path(doc, lambda v: isinstance(v, str))
                if sp:
                    tpl[k + ".$"] = "States.Format('v={}-{}', %s, %d)" % (sp, self.rng.randint(0, 9))
                else:
                    tpl[k] = "lit"
        if ctx_extra:
            r = self.rng.random()
            if r < 0.5:
                tpl["idx.$"] = "$$.Map.Item.Index"
            if r > 0.3:
                tpl["item.$"] = "$$.Map.Item.Value"
        return tpl

    # -- states ---------------------------------------------------------------------
    def machine(self, doc, depth, length=None, in_branch=False):
        states = {}
        if length is None:
            length = self.rng.randint(1, self.sz["states"])
        start, _ = self.chain(states, doc, depth, length, in_branch)
        return {"StartAt": start, "States": states}

    def chain(self, states, doc, depth, length, in_branch):
        """Generate `length` states starting with doc; returns (first name, None)."""
        first = None
        prev = None
        i = 0
        while i < length:
            self.budget -= 1
            last = (i == length - 1) or self.budget <= 0
            self.level = int(in_branch)
            typ = self.pick_type(depth, last, in_branch)
            nm = self.name(typ)
            st, doc2, terminal, extra_targets = self.state(typ, nm, states, doc, depth, length - i - 1, in_branch)
            states[nm] = st
            if first is None:
                first = nm
            if prev is not None:
                states[prev]["Next"] = nm
            if terminal:
                return first, None
            if last:
                st["End"] = True
                return first, None
            prev = nm
            doc = doc2
            i += 1
        return first, None

    def sub_tail(self, states, doc, depth, remaining, in_branch):
        """A separately generated continuation (for Choice targets and Catch handlers)."""
        n = self.rng.randint(1, max(1, min(3, remaining + 1)))
        first, _ = self.chain(states, doc, depth, n, in_branch)
        return first

    def state(self, typ, nm, states, doc, depth, remaining, in_branch):
        rng = self.rng
        if typ == "Succeed":
            st = {"Type": "Succeed"}
            if rng.random() < 0.2:
                st["InputPath"] = self.input_path(doc)
            return st, doc, True, []
        if typ == "Fail":
            return {"Type": "Fail", "Error": rng.choice(ERROR_NAMES[:3] + ["MyFail"]),
                    "Cause": "cause-" + nm}, doc, True, []
        if typ == "Pass":
            st = {"Type": "Pass"}
            cur = doc
            if rng.random() < 0.35:
                st["InputPath"] = self.input_path(doc)
                cur = self.safe(lambda: M.select(doc, {}, st["InputPath"], M.Flags()), doc)
            if rng.random() < 0.3:
                st["Parameters"] = self.parameters(cur)
                cur = self.safe(lambda: M.template(st["Parameters"], cur, self.fake_ctx(nm), M.Flags()), cur)
            if rng.random() < 0.4:
                v = gen_value(rng, 2, allow_null=self.p["nulls_as_documents"])
                if isinstance(v, dict) and not self.p["top_error_member"]:
                    v.pop("Error", None)
                st["Result"] = v
                cur = v
            rp = self.result_path(doc)
            if rp != "$":
                st["ResultPath"] = rp
            out = self.safe(lambda: M.place(doc, cur, rp), doc)
            if rng.random() < 0.15:
                st["OutputPath"] = self.input_path(out)
                out = self.safe(lambda: M.select(out, {}, st["OutputPath"], M.Flags()), out)
            return st, out, False, []
        if typ == "Wait":
            st = {"Type": "Wait"}
            r = rng.random()
            if self.p.get("wait_timestamps") and r < 0.45:
                # absolute instants a few seconds after the epoch of the run, in a random UTC offset notation
                ts = rfc3339(self.p.get("epoch", 1700000000.0) + rng.choice([1, 2, 4, 6, 9, 15]) + rng.choice([0, 0, 0.25]),
                             rng.choice([0, 0, 330, -210, 765, -1439, 60, -60, 1439]), rng.random() < 0.3)
                if r < 0.2 or not isinstance(doc, dict):
                    st["Timestamp"] = ts
                else:
                    key = "ts%d" % self.n
                    self.extra_input[key] = ts
                    st["TimestampPath"] = "$." + key
                return st, doc, False, []
            if r < 0.6:
                st["Seconds"] = rng.choice(self.p["wait_secs"])
            else:
                p = self.existing_path(doc, lambda v: isinstance(v, int) and not isinstance(v, bool) and 0 <= v <= 10)
                if p:
                    st["SecondsPath"] = p
                else:
                    st["Seconds"] = rng.choice(self.p["wait_secs"])
            return st, doc, False, []
        if typ == "Choice":
            st = {"Type": "Choice", "Choices": []}
            for _ in range(rng.randint(1, 3)):
                rule = self.rule(doc, 1)
                rule["Next"] = self.sub_tail(states, doc, depth, remaining, in_branch)
                st["Choices"].append(rule)
            if rng.random() < 0.8:
                st["Default"] = self.sub_tail(states, doc, depth, remaining, in_branch)
            return st, doc, True, []
        if typ == "Task":
            return self.task(nm, states, doc, depth, remaining, in_branch)
        if typ == "Parallel":
            return self.parallel(nm, states, doc, depth, remaining, in_branch)
        if typ == "Map":
            return self.map(nm, states, doc, depth, remaining, in_branch)
        raise AssertionError(typ)

    def fake_ctx(self, nm):
        return {"Execution": {"Name": "e", "Input": {}, "Id": "x"}, "State": {"Name": nm}, "StateMachine": {"Id": "m"},
                "Map": {"Item": {"Index": 0, "Value": 0}}}

    def rule(self, doc, depth):
        rng = self.rng
        r = rng.random()
        if depth > 0 and r < 0.25:
            k = rng.choice(["And", "Or", "Not"])
            if k == "Not":
                return {"Not": self.rule(doc, depth - 1)}
            return {k: [self.rule(doc, depth - 1) for _ in range(rng.randint(1, 3))]}
        if r < 0.4:
            if rng.random() < 0.5:
                return {"Variable": "$.absent%d" % rng.randint(0, 3), "IsPresent": rng.random() < 0.5}
            return {"Variable": self.existing_path(doc, allow_root=False) or "$.n", "IsPresent": rng.random() < 0.5}
        nump = self.existing_path(doc, lambda v: isinstance(v, (int, float)) and not isinstance(v, bool), False)
        strp = self.existing_path(doc, lambda v: isinstance(v, str), False)
        boolp = self.existing_path(doc, lambda v: isinstance(v, bool), False)
        opts = []
        if nump:
            opts.append("num")
        if strp:
            opts.append("str")
        if boolp:
            opts.append("bool")
        if not opts:
            return {"Variable": "$.absent", "IsPresent": False}
        k = rng.choice(opts)
        if k == "num":
            return {"Variable": nump, rng.choice(list(M.NUM_OPS)): rng.choice([0, 1, 2, 5, 2.5, -1])}
        if k == "str":
            return {"Variable": strp, rng.choice(list(M.STR_OPS)): rng.choice(["", "x", "abc", "hello", "m"])}
        return {"Variable": boolp, "BooleanEquals": rng.random() < 0.5}

    # error handling decoration shared by Task/Parallel/Map
    def retry_catch(self, st, nm, states, doc, depth, remaining, in_branch, errors_seen, want_retry=None):
        rng = self.rng
        if want_retry is None:
            want_retry = rng.random() < self.p["p_retry"]
        if self.no_retry > 0 and not self.p.get("retry_in_retried_fanout", True):
            # a retrier inside a fan-out that is itself retried: the engine shares one RetryCount between them
            # (known finding C07/retrycount-leak); the general profiles keep away from it
            want_retry = False
        if want_retry:
            retriers = []
            names = list(errors_seen) or [rng.choice(ERROR_NAMES[:3])]
            k = rng.randint(1, 3)
            if not self.p["multi_retrier_hits"]:
                # at most one retrier can match the scripted errors; others name errors that never occur
                hit = rng.randrange(k)
            else:
                hit = None
            for i in range(k):
                if i == k - 1 and rng.random() < 0.3:
                    eq = ["States.ALL"]
                elif hit is None or i == hit:
                    eq = rng.sample(names, rng.randint(1, len(names)))
                else:
                    eq = ["Never.%d" % i]
                r = {"ErrorEquals": eq}
                if rng.random() < 0.8:
                    r["IntervalSeconds"] = rng.choice([1, 2, 3])
                if rng.random() < 0.8:
                    r["MaxAttempts"] = rng.choice([0, 1, 2, 3, 4])
                if rng.random() < 0.7:
                    r["BackoffRate"] = rng.choice([1.0, 1.5, 2.0, 3.0])
                retriers.append(r)
                if eq == ["States.ALL"]:
                    break
            if not self.p["multi_retrier_hits"]:
                # a States.ALL retrier after a specific one would be a second matching retrier
                specific = [r for r in retriers if r["ErrorEquals"] != ["States.ALL"] and
                            not r["ErrorEquals"][0].startswith("Never.")]
                if specific and retriers[-1]["ErrorEquals"] == ["States.ALL"] and \
                        set(names) - set(specific[0]["ErrorEquals"]):
                    retriers.pop()
            st["Retry"] = retriers
        if rng.random() < self.p["p_catch"]:
            catchers = []
            for i in range(rng.randint(1, 2)):
                last = i == 1 or rng.random() < 0.5
                eq = ["States.ALL"] if last and rng.random() < 0.6 else \
                    rng.sample(ERROR_NAMES[:4], rng.randint(1, 2))
                c = {"ErrorEquals": eq}
                # keep the Error Output away from the document root unless the profile wants the finding
                if self.p["top_error_member"] and rng.random() < 0.5:
                    pass
                else:
                    c["ResultPath"] = rng.choice(["$.err", "$.caught.e", "$.err"]) if isinstance(doc, dict) else None
                    if c["ResultPath"] is None and rng.random() < 0.5:
                        c["ResultPath"] = None
                rp = c.get("ResultPath", "$")
                hdoc = self.safe(lambda: M.place(doc, {"Error": "E", "Cause": "c"}, rp), doc)
                c["Next"] = self.sub_tail(states, hdoc, depth, remaining, in_branch)
                catchers.append(c)
                if eq == ["States.ALL"]:
                    break
            st["Catch"] = catchers

    def task(self, nm, states, doc, depth, remaining, in_branch):
        rng = self.rng
        fn = "fn_" + nm
        self.functions.append(fn)
        st = {"Type": "Task", "Resource": FN_ARN + fn}
        cur = doc
        if rng.random() < 0.3:
            st["InputPath"] = self.input_path(doc)
            cur = self.safe(lambda: M.select(doc, {}, st["InputPath"], M.Flags()), doc)
        if rng.random() < 0.35:
            st["Parameters"] = self.parameters(cur)
            cur = self.safe(lambda: M.template(st["Parameters"], cur, self.fake_ctx(nm), M.Flags()), cur)
        long_form = rng.random() < self.p.get("p_long_form", 0.15)
        if long_form:
            # the service-integration way of calling the same worker: function and arguments travel in Parameters, the
            # result comes back wrapped in invocation metadata (whose RequestId the model does not predict)
            st["Resource"] = "arn:aws:states:local::rpcmessage:invoke"
            payload = st.get("Parameters")
            st["Parameters"] = {"FunctionName": FN_ARN + fn}
            if payload is not None:
                st["Parameters"]["Payload"] = payload
            else:
                st["Parameters"]["Payload.$"] = "$"
        # script
        outcomes = []
        errs = []
        tr = rng.choice([{"op": "echo"}, {"op": "wrap"}, {"op": "tag"}, {"op": "const", "value": gen_value(rng, 1, False)},
                         {"op": "list"}, {"op": "len"}])
        if tr["op"] == "const" and isinstance(tr["value"], dict):
            tr["value"].pop("Error", None)
        if not self.quiet(in_branch) and rng.random() < self.p["p_err"]:
            e = rng.choice(ERROR_NAMES[:3])
            ne = rng.randint(1, 4)
            if not self.p["multi_retrier_hits"]:
                seq = [e] * ne
            else:
                seq = [rng.choice(ERROR_NAMES[:3]) for _ in range(ne)]
            nomsg = rng.random() < 0.12      # an error reply that carries no errorMessage (Error Output without Cause)
            for x in seq:
                outcomes.append({"err": x, "msg": None if nomsg else "msg-%s-%s" % (fn, x),
                                 "delay": rng.choice(self.p["delays"])})
                if x not in errs:
                    errs.append(x)
            if rng.random() < 0.7:
                outcomes.append({"ok": tr, "delay": rng.choice(self.p["delays"])})
        else:
            outcomes.append({"ok": tr, "delay": rng.choice(self.p["delays"])})
        if not self.quiet(in_branch) and rng.random() < self.p["p_timeout"]:
            st["TimeoutSeconds"] = rng.choice([1, 2, 3])
            # make some outcome slow or silent; keep clear of exact ties
            k = rng.randrange(len(outcomes))
            if rng.random() < 0.5:
                outcomes[k] = {"noreply": True}
            else:
                outcomes[k]["delay"] = st["TimeoutSeconds"] + rng.choice([0.5, 2.0])
            if "States.Timeout" not in errs:
                errs.append("States.Timeout")
        self.script[fn] = outcomes
        result = apply_transform(tr, fn, cur)
        if long_form:
            result = {"ExecutedVersion": "$LATEST", "Payload": result, "SdkResponseMetadata": {"RequestId": "id"},
                      "StatusCode": 200}
            if rng.random() < 0.5:
                st["ResultSelector"] = {"r.$": "$.Payload", "code.$": "$.StatusCode"}
                result = {"r": result["Payload"], "code": 200}
        if "ResultSelector" not in st and rng.random() < 0.25:
            st["ResultSelector"] = self.parameters(result)
            result = self.safe(lambda: M.template(st["ResultSelector"], result, self.fake_ctx(nm), M.Flags()), result)
        rp = self.result_path(doc)
        if rp != "$":
            st["ResultPath"] = rp
        out = self.safe(lambda: M.place(doc, result, rp), doc)
        if rng.random() < 0.12:
            st["OutputPath"] = self.input_path(out)
            out = self.safe(lambda: M.select(out, {}, st["OutputPath"], M.Flags()), out)
        self.retry_catch(st, nm, states, doc, depth, remaining, in_branch, errs)
        return st, out, False, []

    def parallel(self, nm, states, doc, depth, remaining, in_branch):
        rng = self.rng
        st = {"Type": "Parallel", "Branches": []}
        cur = doc
        if rng.random() < 0.2:
            st["InputPath"] = self.input_path(doc)
            cur = self.safe(lambda: M.select(doc, {}, st["InputPath"], M.Flags()), doc)
        if rng.random() < 0.25:
            st["Parameters"] = self.parameters(cur)
            cur = self.safe(lambda: M.template(st["Parameters"], cur, self.fake_ctx(nm), M.Flags()), cur)
        nb = rng.randint(1, self.sz["fan"])
        want_retry = rng.random() < self.p["p_retry"]
        self.no_retry += 1 if want_retry else 0
        for _ in range(nb):
            st["Branches"].append(self.machine(cur, depth - 1, rng.randint(1, 3), int(in_branch) + 1))
        self.no_retry -= 1 if want_retry else 0
        result = [cur] * nb   # sample only (shape: array)
        if rng.random() < 0.2:
            st["ResultSelector"] = {"all.$": "$", "first.$": "$[0]"}
            result = {"all": result, "first": result[0]}
        rp = self.result_path(doc)
        if rp != "$":
            st["ResultPath"] = rp
        out = self.safe(lambda: M.place(doc, result, rp), doc)
        if self.p.get("fanout_handlers", True):
            self.retry_catch(st, nm, states, doc, depth, remaining, in_branch, ERROR_NAMES[:3], want_retry)
        return st, out, False, []

    def map(self, nm, states, doc, depth, remaining, in_branch):
        rng = self.rng
        st = {"Type": "Map"}
        arrp = self.existing_path(doc, lambda v: isinstance(v, list) and len(set(json.dumps(x, sort_keys=True) for x in v)) == len(v)
                                  and all(x is not None for x in v))
        if arrp is None:
            return self.task(nm, states, doc, depth, remaining, in_branch)
        if arrp != "$":
            st["ItemsPath"] = arrp
        items = M.read_path(doc, M.parse_path(arrp)[1])
        items = items[: self.sz["items"]]
        sample = items[0] if items else {}
        use_sel = rng.random() < 0.4
        if use_sel:
            sel = self.parameters(doc, ctx_extra=True)
            if "idx.$" not in sel and "item.$" not in sel:
                sel["item.$"] = "$$.Map.Item.Value"
            st[rng.choice(["ItemSelector", "Parameters"])] = sel
            sample = self.safe(lambda: M.template(sel, doc, self.fake_ctx(nm), M.Flags()), sample)
        if rng.random() < 0.6:
            st["MaxConcurrency"] = rng.randint(0, len(items) + 1)
        self.in_maxconc_map += 1 if st.get("MaxConcurrency") else 0
        want_retry = rng.random() < self.p["p_retry"]
        self.no_retry += 1 if want_retry else 0
        proc = self.machine(sample, depth - 1, rng.randint(1, 3), int(in_branch) + 1)
        self.no_retry -= 1 if want_retry else 0
        self.in_maxconc_map -= 1 if st.get("MaxConcurrency") else 0
        if "Parameters" in st:
            st["Iterator"] = proc
        else:
            st[rng.choice(["ItemProcessor", "Iterator"])] = proc
        result = [sample] * len(items)
        rp = self.result_path(doc)
        if rp != "$":
            st["ResultPath"] = rp
        out = self.safe(lambda: M.place(doc, result, rp), doc)
        if self.p.get("fanout_handlers", True):
            self.retry_catch(st, nm, states, doc, depth, remaining, in_branch, ERROR_NAMES[:3], want_retry)
        return st, out, False, []


def generate(rng, profile="general", tier="quick", with_timeout=0.1):
    """Returns dict(definition, input, script, functions)."""
    g = Gen(rng, profile, tier)
    inp = gen_input(rng, g.p)
    # trim items to the tier's bound
    inp["items"] = inp["items"][: g.sz["items"]]
    d = g.machine(inp, g.sz["depth"])
    inp.update(g.extra_input)
    if rng.random() < with_timeout:
        d["TimeoutSeconds"] = rng.choice([3, 5, 10, 30])
    return {"definition": d, "input": inp, "script": g.script, "functions": g.functions}
