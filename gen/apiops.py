"""Seeded generator of API call sequences over a small pool of names/ARNs, mixing valid and invalid arguments."""
import json

NAMES = ["alpha", "beta", "g-1_x"]
# name pools (one per generated sequence): unrelated names, names that are prefixes of one another, names that
# contain the ARN's own vocabulary
NAME_POOLS = [["alpha", "beta", "g-1_x"], ["al", "alpha", "alpha-2"], ["orders", "orders.eu", "orders-v2"],
              ["execution", "re-execution_1", "stateMachine"], ["a", "ab", "abc"], ["m", "m-m", "M"]]
BAD_NAMES = ["", "bad name", "x" * 81, "semi;colon", "sl/ash", "col:on", "qu?estion", 5]
ROLES = ["arn:aws:iam::0123456789:role/service-role/R1", "arn:aws:iam::0123456789:role/R2"]
BAD_ROLES = ["", "arn:aws:iam::abc:role/x", "role/R1", 12]
DEFS = [
    {"StartAt": "P", "States": {"P": {"Type": "Pass", "End": True}}},
    {"StartAt": "P", "States": {"P": {"Type": "Pass", "Result": {"done": True}, "End": True}}},
    {"StartAt": "F", "States": {"F": {"Type": "Fail", "Error": "E.Boom", "Cause": "because"}}},
    {"StartAt": "W", "States": {"W": {"Type": "Wait", "Seconds": 1000, "End": True}}},
    {"StartAt": "S", "States": {"S": {"Type": "Succeed"}}},
    # same state names as above with other behaviour: an execution must run the definition current at its start
    {"StartAt": "P", "States": {"P": {"Type": "Pass", "Result": {"version": 2}, "Next": "S"}, "S": {"Type": "Succeed"}}},
    {"StartAt": "P", "States": {"P": {"Type": "Fail", "Error": "E.Redefined", "Cause": "now fails"}}},
    # ... also for the states INSIDE a fan-out (same branch state names, other results)
    {"StartAt": "P", "States": {"P": {"Type": "Parallel", "End": True, "Branches": [
        {"StartAt": "B", "States": {"B": {"Type": "Pass", "Result": {"branch": "v1"}, "End": True}}},
        {"StartAt": "C", "States": {"C": {"Type": "Pass", "Result": 1, "End": True}}}]}}},
    {"StartAt": "P", "States": {"P": {"Type": "Parallel", "End": True, "Branches": [
        {"StartAt": "B", "States": {"B": {"Type": "Pass", "Result": {"branch": "v2"}, "End": True}}},
        {"StartAt": "C", "States": {"C": {"Type": "Pass", "Result": 2, "End": True}}}]}}},
]
BAD_DEFS = ["", "{not json", "[1, 2]", None]
TYPED_BAD_DEFS = [7, {"StartAt": "P", "States": {"P": {"Type": "Pass", "End": True}}}, ["x"]]
LOGGING = [None, None, {"level": "OFF"}, {"level": "ALL", "destinations": [{"cloudWatchLogsLogGroup": {"logGroupArn": "x"}}],
                                         "includeExecutionData": True}, {"level": "ERROR", "destinations": [{}]},
           {"level": "ALL", "destinations": [{}]}, {"level": "FATAL", "destinations": [{}], "includeExecutionData": False}]
BAD_LOGGING = [{"level": "LOUD"}, {"level": "ERROR"}, {"level": "ALL", "destinations": []}, {"level": "FATAL", "destinations": [{}, {}]},
               # wrong JSON types
               "ALL", 7, ["ALL"], {"level": ["ALL"]}, {"level": {"x": 1}}, {"level": 3}, {"level": "ALL", "destinations": "x"},
               {"level": "ALL", "destinations": {"a": 1}}, "__null__"]
INPUTS = ['{"a": 1}', '{}', '[1, 2, 3]', '"text"', '{"nested": {"k": [true, null]}}',
          # legal inputs that are falsy in Python: still the execution's input
          '[]', '0', 'false', '""']
BAD_INPUTS = ["{bad", "", 5]
FILTERS = [None, None, "RUNNING", "SUCCEEDED", "FAILED", "TIMED_OUT", "ABORTED"]
BAD_FILTERS = [["FAILED"], {"a": 1}, 5, "running", "DONE", ""]


def sm_arn(name, account="0123456789", region="local"):
    return "arn:aws:states:%s:%s:stateMachine:%s" % (region, account, name)


def ex_arn(sm, name, account="0123456789", region="local"):
    return "arn:aws:states:%s:%s:execution:%s:%s" % (region, account, sm, name)


BAD_SM_ARNS = ["", "arn:aws:states:local:0123456789:execution:alpha:e1", "not-an-arn", "arn:aws:states:local:abc:stateMachine:alpha", 3]
BAD_EX_ARNS = ["", "arn:aws:states:local:0123456789:stateMachine:alpha", "junk", 9]


def gen_ops(rng, n, front_end="asyncio", p_invalid=0.3, typed=True, bodies=True):
    """Returns list of ops: {"action":..., "params": {...}} or {"action":..., "raw": "<body text>"}."""
    NAMES = rng.choice(NAME_POOLS)
    ops = []
    started = []     # (sm name, exec name) the generator issued (may or may not have succeeded)
    counter = [0]

    def pick_sm_arn(invalid):
        if invalid:
            c = rng.choice(BAD_SM_ARNS + [None])
            return c
        return sm_arn(rng.choice(NAMES + ["ghost"]))

    def pick_ex_arn(invalid):
        if invalid:
            return rng.choice(BAD_EX_ARNS + [None])
        if started and rng.random() < 0.85:
            s, e = rng.choice(started)
            return ex_arn(s, e)
        return ex_arn(rng.choice(NAMES), "nope")

    def redefine_and_run():
        """Motif: run a machine, redefine it (update, or delete and create again under the same name), run it again and
        look at both executions: each must have run the definition that was current when it started."""
        nm = rng.choice(NAMES)
        first, second = rng.sample(DEFS, 2)
        typ = rng.choice(["STANDARD", "STANDARD", "EXPRESS"])
        out = [{"action": "CreateStateMachine", "params": {"name": nm, "roleArn": rng.choice(ROLES),
                                                            "definition": json.dumps(first), "type": typ}}]
        def start():
            counter[0] += 1
            en = "e%d" % counter[0]
            started.append((nm, en))
            out.append({"action": "StartExecution", "params": {"stateMachineArn": sm_arn(nm), "name": en,
                                                                "input": rng.choice(INPUTS)}})
            return en
        e1 = start()
        if rng.random() < 0.5:
            out.append({"action": "DescribeExecution", "params": {"executionArn": ex_arn(nm, e1)}})
        if rng.random() < 0.7:
            out.append({"action": "UpdateStateMachine", "params": {"stateMachineArn": sm_arn(nm), "definition": json.dumps(second)}})
        else:
            out.append({"action": "DeleteStateMachine", "params": {"stateMachineArn": sm_arn(nm)}})
            out.append({"action": "CreateStateMachine", "params": {"name": nm, "roleArn": rng.choice(ROLES),
                                                                    "definition": json.dumps(second), "type": typ}})
        e2 = start()
        out.append({"action": "DescribeExecution", "params": {"executionArn": ex_arn(nm, e2)}})
        out.append({"action": "DescribeExecution", "params": {"executionArn": ex_arn(nm, e1)}})
        return out

    motif_at = rng.randrange(max(1, n)) if rng.random() < 0.3 else None
    for k in range(n):
        if k == motif_at:
            ops.extend(redefine_and_run())
            continue
        inv = rng.random() < p_invalid
        r = rng.random()
        if bodies and rng.random() < 0.03:
            ops.append({"action": rng.choice(["CreateStateMachine", "DescribeExecution", "StartExecution", "ListExecutions"]),
                        "raw": rng.choice(["[]", '"str"', "5", "null", "{not json", ""])})
            continue
        if r < 0.22:
            p = {"name": rng.choice(NAMES), "roleArn": rng.choice(ROLES), "definition": json.dumps(rng.choice(DEFS))}
            if rng.random() < 0.6:
                p["type"] = rng.choice(["STANDARD", "STANDARD", "EXPRESS"])
            if front_end == "asyncio":
                lc = rng.choice(LOGGING)
                if lc is not None:
                    p["loggingConfiguration"] = json.loads(json.dumps(lc))
            if inv:
                k = rng.choice(["name", "roleArn", "definition", "type"] + (["loggingConfiguration"] if front_end == "asyncio" else []))
                if k == "name":
                    v = rng.choice(BAD_NAMES + [None])
                elif k == "roleArn":
                    v = rng.choice(BAD_ROLES + [None])
                elif k == "definition":
                    v = rng.choice(BAD_DEFS + (TYPED_BAD_DEFS if typed else []))
                elif k == "type":
                    v = rng.choice(["FAST", "standard", 1])
                else:
                    v = rng.choice(BAD_LOGGING)
                if v is None:
                    p.pop(k, None)
                else:
                    p[k] = None if v == "__null__" else v
            ops.append({"action": "CreateStateMachine", "params": p})
        elif r < 0.32:
            p = {"stateMachineArn": pick_sm_arn(inv)}
            if p["stateMachineArn"] is None:
                p = {}
            ops.append({"action": "DescribeStateMachine", "params": p})
        elif r < 0.38:
            ops.append({"action": "ListStateMachines", "params": {}})
        elif r < 0.50:
            p = {"stateMachineArn": sm_arn(rng.choice(NAMES + ["ghost"]))}
            what = rng.choice(["role", "def", "both", "none", "logging"])
            if what in ("role", "both"):
                p["roleArn"] = rng.choice(ROLES)
            if what in ("def", "both"):
                p["definition"] = json.dumps(rng.choice(DEFS))
            if what == "logging" and front_end == "asyncio":
                p["roleArn"] = rng.choice(ROLES)
                p["loggingConfiguration"] = json.loads(json.dumps(rng.choice([x for x in LOGGING if x])))
            if inv:
                k = rng.choice(["arn", "roleArn", "definition", "role+baddef"] + (["loggingConfiguration"] if front_end == "asyncio" else []))
                if k == "arn":
                    v = pick_sm_arn(True)
                    if v is None:
                        p.pop("stateMachineArn")
                    else:
                        p["stateMachineArn"] = v
                elif k == "roleArn":
                    p["roleArn"] = rng.choice([x for x in BAD_ROLES if x != ""])
                elif k == "definition":
                    p["definition"] = rng.choice([x for x in BAD_DEFS if x] + (TYPED_BAD_DEFS if typed else []))
                elif k == "role+baddef":
                    # a valid roleArn together with an invalid definition: the rejected update must change nothing
                    p["roleArn"] = rng.choice(ROLES)
                    p["definition"] = "{not json"
                else:
                    p["roleArn"] = rng.choice(ROLES)
                    v = rng.choice(BAD_LOGGING)
                    p["loggingConfiguration"] = None if v == "__null__" else v
            ops.append({"action": "UpdateStateMachine", "params": p})
        elif r < 0.57:
            p = {"stateMachineArn": pick_sm_arn(inv)}
            if p["stateMachineArn"] is None:
                p = {}
            ops.append({"action": "DeleteStateMachine", "params": p})
        elif r < 0.75:
            sm = rng.choice(NAMES + ["ghost"])
            counter[0] += 1
            en = "e%d" % counter[0]
            p = {"stateMachineArn": sm_arn(sm), "input": rng.choice(INPUTS)}
            if rng.random() < 0.8:
                p["name"] = en
                same = [e for (s_, e) in started if s_ == sm]
                if same and rng.random() < 0.15:
                    # an execution name used again (the service lets clients do that): the new run replaces the record
                    p["name"] = en = rng.choice(same)
            else:
                en = None
            if rng.random() < 0.2:
                p.pop("input")
            if inv:
                k = rng.choice(["arn", "name", "input"])
                if k == "arn":
                    v = pick_sm_arn(True)
                    if v is None:
                        p.pop("stateMachineArn")
                    else:
                        p["stateMachineArn"] = v
                elif k == "name":
                    p["name"] = rng.choice(BAD_NAMES)
                else:
                    p["input"] = rng.choice(BAD_INPUTS if typed else BAD_INPUTS[:2])
            if en is not None and p.get("name") == en:
                started.append((sm, en))
            ops.append({"action": "StartExecution", "params": p})
        elif r < 0.85:
            p = {"executionArn": pick_ex_arn(inv)}
            if p["executionArn"] is None:
                p = {}
            ops.append({"action": "DescribeExecution", "params": p})
        elif r < 0.95:
            p = {"stateMachineArn": pick_sm_arn(inv)}
            if p["stateMachineArn"] is None:
                p = {}
            f = rng.choice(FILTERS)
            if f:
                p["statusFilter"] = f
            if typed and rng.random() < 0.08:
                p["statusFilter"] = rng.choice(BAD_FILTERS)
            ops.append({"action": "ListExecutions", "params": p})
        else:
            p = {"executionArn": pick_ex_arn(inv)}
            if p["executionArn"] is None:
                p = {}
            ops.append({"action": "DescribeStateMachineForExecution", "params": p})
    return ops
