"""
Structural minimiser for (definition, input, script, ...) cases: greedy
delta-debugging over the JSON tree with States-Language aware validity
(the repository's own validator must still accept the definition) and removal
of unreachable states.  `pred(case) -> bool` must be deterministic.
"""
import copy
import json


def _walk(node, path, out):
    if isinstance(node, dict):
        for k in list(node.keys()):
            out.append((path + (k,), "del"))
            _walk(node[k], path + (k,), out)
    elif isinstance(node, list):
        for i in range(len(node) - 1, -1, -1):
            out.append((path + (i,), "del"))
            _walk(node[i], path + (i,), out)


def _get(root, path):
    cur = root
    for p in path:
        cur = cur[p]
    return cur


def _size(x):
    return len(json.dumps(x, default=str))


def reachable_prune(machine):
    """Remove states not reachable from StartAt (recursively in sub-machines)."""
    if not isinstance(machine, dict) or "States" not in machine or not isinstance(machine["States"], dict):
        return
    states = machine["States"]
    seen = set()
    todo = [machine.get("StartAt")]
    while todo:
        n = todo.pop()
        if n in seen or n not in states:
            continue
        seen.add(n)
        st = states[n]
        if not isinstance(st, dict):
            continue
        for k in ("Next", "Default"):
            if isinstance(st.get(k), str):
                todo.append(st[k])
        for c in st.get("Choices") or []:
            if isinstance(c, dict) and isinstance(c.get("Next"), str):
                todo.append(c["Next"])
        for c in st.get("Catch") or []:
            if isinstance(c, dict) and isinstance(c.get("Next"), str):
                todo.append(c["Next"])
    for n in list(states.keys()):
        if n not in seen:
            del states[n]
    for st in states.values():
        if not isinstance(st, dict):
            continue
        for b in st.get("Branches") or []:
            reachable_prune(b)
        for k in ("ItemProcessor", "Iterator"):
            if k in st:
                reachable_prune(st[k])


_lint = []


def _nonempty_fanouts(machine):
    for st in (machine.get("States") or {}).values():
        if not isinstance(st, dict):
            return False
        if st.get("Type") == "Parallel":
            if not st.get("Branches"):
                return False
            for b in st["Branches"]:
                if not _nonempty_fanouts(b):
                    return False
        if st.get("Type") == "Map":
            p = st.get("ItemProcessor") or st.get("Iterator")
            if not isinstance(p, dict) or not _nonempty_fanouts(p):
                return False
        if st.get("Type") == "Choice" and not st.get("Choices"):
            return False
    return True


def valid_definition(defn):
    if not isinstance(defn, dict) or not _nonempty_fanouts(defn):
        return False
    if not _lint:
        from statelint.statelint import StateLint
        _lint.append(StateLint())
    try:
        return len(_lint[0].validate(copy.deepcopy(defn))) == 0
    except Exception:
        return False


def candidates(case, keys):
    out = []
    for k in keys:
        if k in case:
            _walk(case[k], (k,), out)
    # biggest subtrees first
    out.sort(key=lambda pc: -_size(_get(case, pc[0])))
    return out


def apply(case, path, def_keys):
    c = copy.deepcopy(case)
    parent = _get(c, path[:-1])
    last = path[-1]
    removed = parent[last]
    del parent[last]
    if last == "Next" and isinstance(parent, dict) and "Type" in parent:
        parent["End"] = True
    for dk in def_keys:
        for d in _definitions(c, dk):
            reachable_prune(d)
    return c


def _definitions(case, key):
    v = case.get(key)
    if isinstance(v, dict) and "States" in v:
        return [v]
    if isinstance(v, dict):
        return [m["definition"] for m in v.values() if isinstance(m, dict) and "definition" in m]
    return []


def shrink(case, pred, keys=("definition", "script", "input"), def_keys=("definition",), budget=400,
           extra_simplify=None):
    """Greedy: try deletions largest-first; restart after each success."""
    best = copy.deepcopy(case)
    tries = 0
    progress = True
    while progress and tries < budget:
        progress = False
        for path, _ in candidates(best, keys):
            if tries >= budget:
                break
            try:
                cand = apply(best, path, def_keys)
            except (KeyError, IndexError, TypeError):
                continue
            ok = True
            for dk in def_keys:
                for d in _definitions(cand, dk):
                    if not valid_definition(d):
                        ok = False
            if not ok:
                continue
            tries += 1
            try:
                if pred(cand):
                    best = cand
                    progress = True
                    break
            except Exception:
                continue
    # scalar simplifications: delays to 0
    if "script" in best:
        for fn, lst in list(best["script"].items()):
            for i, o in enumerate(lst):
                if o.get("delay"):
                    cand = copy.deepcopy(best)
                    cand["script"][fn][i]["delay"] = 0.0
                    tries += 1
                    try:
                        if pred(cand):
                            best = cand
                    except Exception:
                        pass
    return best, tries
