#!/bin/sh
# Re-runs every kept seeded change against its own property's check (plus any extra ids given) and writes the
# outcome into seeded/<id>/meta.json ("matrix") and seeded/TABLE.md.   usage: seeded_matrix.sh [extra check ids...]
cd /verif
for d in seeded/*/; do
  id=$(basename $d)
  prop=$(/venv/bin/python -c "import json; print(json.load(open('$d/meta.json'))['property'])")
  out=$(tools/seeded_run.sh $id $prop "$@" 2>&1)
  echo "$out" | grep "^=="
  /venv/bin/python - "$d" "$out" <<'PY'
import json, sys, re
d, out = sys.argv[1], sys.argv[2]
m = json.load(open(d + "/meta.json"))
mx = m.setdefault("matrix", {})
cur = None
for line in out.splitlines():
    g = re.match(r"== \S+ (C\d\d): (DETECTED|missed)", line)
    if g:
        cur = g.group(1); mx[cur] = {"result": g.group(2).lower(), "rules": []}
    elif cur and line.strip().startswith("rule="):
        mx[cur]["rules"].append(line.strip().split(" ")[0][5:])
json.dump(m, open(d + "/meta.json", "w"), indent=1)
PY
done
/venv/bin/python tools/seeded_table.py
