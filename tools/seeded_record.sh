#!/bin/sh
# usage: seeded_record.sh <seeded id> <check ids...>   - like seeded_run.sh, and records the outcome per check in
# seeded/<id>/meta.json ("matrix"), so that seeded/TABLE.md (tools/seeded_table.py) shows checks of OTHER properties too
cd /verif
id="$1"; shift
out=$(tools/seeded_run.sh $id "$@" 2>&1)
echo "$out" | grep "^=="
/venv/bin/python - "seeded/$id" "$out" <<'PY'
import json, sys, re
d, out = sys.argv[1], sys.argv[2]
m = json.load(open(d + "/meta.json"))
mx = m.setdefault("matrix", {})
cur = None
for line in out.splitlines():
    g = re.match(r"== \S+ (C\d\d): (DETECTED|missed)", line)
    if g:
        cur = g.group(1); mx[cur] = {"result": g.group(2).lower(), "rules": []}
    elif cur and line.strip().startswith("rule="):
        mx[cur]["rules"].append(line.strip().split(" ")[0][5:])
json.dump(m, open(d + "/meta.json", "w"), indent=1)
PY
