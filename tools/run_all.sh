#!/bin/sh
# runs every registered quick check on the current tree and prints one line each
cd /verif
for c in $(/venv/bin/python -c "import json; print(' '.join(x['property_id'] for x in json.load(open('MANIFEST.json'))['checks']))"); do
  out=$(VERIF_PROCS=${VERIF_PROCS:-16} ./check $c 2>&1); code=$?
  echo "$out" | grep -E "^VIOLATION|^HARNESS" | head -3
  echo "$out" | tail -1 | sed "s/^/[exit $code] /"
done
