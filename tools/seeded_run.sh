#!/bin/sh
# usage: seeded_run.sh <seeded id> <check ids...>   - runs checks against a scratch worktree with seeded/<id>/patch.diff applied
id="$1"; shift
wt=/tmp/wt-run-$id
git -C /repo worktree remove --force $wt 2>/dev/null
git -C /repo worktree add -q $wt HEAD || exit 2
(cd $wt && git apply /verif/seeded/$id/patch.diff) || { echo "patch does not apply"; git -C /repo worktree remove --force $wt; exit 2; }
for c in "$@"; do
  r=$(cd /verif && VERIF_EVIDENCE_DIR=/tmp/ev-seeded VERIF_REPLAY_DIR=/tmp/replays-seeded VERIF_REPO=$wt VERIF_PROCS=${VERIF_PROCS:-8} ./check $c 2>&1 | grep -E "^VIOLATION|^  rule|quick:|HARNESS" | head -9 | cut -c1-300)
  n=$(echo "$r" | grep -c VIOLATION)
  echo "== $id $c: $( [ $n -gt 0 ] && echo DETECTED || echo missed )"; echo "$r" | grep -E "rule|quick|HARNESS" | head -4
done
git -C /repo worktree remove --force $wt
