#!/bin/sh
# usage: seeded_eval.sh <agent worktree> <n> <id> <check ids...>
# Confirms the seeded change in the agent's scratch worktree (tests still pass, demo fails with / passes without),
# runs the named checks against a second scratch worktree with the patch applied (VERIF_REPO) and stores
# patch, demo and meta under /verif/seeded/<id>/.
awt="$1"; n="$2"; id="$3"; shift 3
src=$awt/_seeded/$n
wt=/tmp/wt-eval-$id
git -C /repo worktree remove --force $wt 2>/dev/null
git -C /repo worktree add -q $wt HEAD || exit 2
out=/verif/seeded/$id; mkdir -p $out
cp -r $src/* $out/ 2>/dev/null; rm -rf $out/__pycache__
demo=$(ls $src | grep -E '^(test_)?demo.*\.py$' | head -1); cp $src/$demo $out/
run_demo() { (cd $awt && PYTHONPATH=asl-workflow-engine/py timeout 300 /venv/bin/python _seeded/$n/$demo >/tmp/demo_out_$id.txt 2>&1; echo $?); }
(cd $awt && git checkout -q -- .)
clean=$(run_demo)
(cd $awt && git apply _seeded/$n/patch.diff) || { echo "patch does not apply"; exit 2; }
patched=$(run_demo)
tests=$(cd $awt && timeout 900 /venv/bin/python -m pytest -q -p no:cacheprovider --timeout=900 --ignore=_seeded 2>&1 | tail -1)
(cd $awt && git checkout -q -- .)
(cd $wt && git apply $out/patch.diff) || { echo "patch does not apply to eval worktree"; exit 2; }
echo "demo clean=$clean patched=$patched tests: $tests"
res=""
for c in "$@"; do
  r=$(cd /verif && VERIF_EVIDENCE_DIR=/tmp/ev-seeded VERIF_REPLAY_DIR=/tmp/replays-seeded VERIF_REPO=$wt VERIF_PROCS=${VERIF_PROCS:-8} ./check $c 2>&1 | grep -E "^VIOLATION|^  rule|quick:" | head -7 | cut -c1-260)
  code=$(echo "$r" | grep -c VIOLATION)
  echo "== $c: $( [ $code -gt 0 ] && echo DETECTED || echo missed )"; echo "$r" | grep -E "rule|quick" | head -3
  res="$res $c:$( [ $code -gt 0 ] && echo detected || echo missed )"
done
/venv/bin/python - "$out" "$clean" "$patched" "$tests" "$res" <<'PY'
import json,sys
out,clean,patched,tests,res=sys.argv[1:6]
try: m=json.load(open(out+"/meta.json"))
except Exception: m={}
m["confirmed"]={"demo_exit_clean":int(clean),"demo_exit_patched":int(patched),"test_suite_with_patch":tests,
                "checks_run":res.split(), "how": "tools/seeded_eval.sh: demo and pytest in the author's scratch worktree with/without patch.diff; ./check <id> with VERIF_REPO=<second scratch worktree with the patch applied>"}
json.dump(m,open(out+"/meta.json","w"),indent=1)
PY
git -C /repo worktree remove --force $wt
