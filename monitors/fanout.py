"""
Fan-out monitors working from the stream of history updates the engine issues
(captured by the node wrapper around StateEngine.update_execution_history, so
they also work for EXPRESS executions) and from the worker request log.

JoinMonitor    (C05): barrier, exactly-once iterations, MaxConcurrency bound.
SiblingMonitor (C06): after a fan-out failed, nothing of that fan-out progresses.
"""
from monitors.basic import Monitor


def submachines(st):
    subs = list(st.get("Branches") or [])
    for k in ("ItemProcessor", "Iterator"):
        if isinstance(st.get(k), dict):
            subs.append(st[k])
    return subs


def terminal_names(machine):
    out = set()
    for n, st in (machine.get("States") or {}).items():
        if st.get("End") or st.get("Type") == "Succeed":
            out.add(n)
    return out


def all_names(machine, acc=None):
    acc = set() if acc is None else acc
    for n, st in (machine.get("States") or {}).items():
        acc.add(n)
        for m in submachines(st):
            all_names(m, acc)
    return acc


def all_functions(machine, acc=None):
    acc = set() if acc is None else acc
    for n, st in (machine.get("States") or {}).items():
        r = st.get("Resource")
        if isinstance(r, str) and ":function:" in r:
            acc.add(r.rsplit(":", 1)[1])
        for m in submachines(st):
            all_functions(m, acc)
    return acc


class Instance(object):
    def __init__(self, name, st, t, step):
        self.name = name
        self.type = st["Type"]
        self.st = st
        self.t0 = t
        self.step0 = step
        self.n = len(st.get("Branches") or []) if self.type == "Parallel" else None
        self.started = []
        self.finished = 0
        self.terminals = set()
        for m in submachines(st):
            self.terminals |= terminal_names(m)
        self.inner = set()
        for m in submachines(st):
            all_names(m, self.inner)
        self.functions = set()
        for m in submachines(st):
            all_functions(m, self.functions)
        self.maxc = st.get("MaxConcurrency", 0) if self.type == "Map" else 0
        self.failed_at = None
        self.closed = False
        self.peak = 0


class FanoutTracker(object):
    """Follows the top-level fan-out states of one execution."""

    def __init__(self, definition):
        self.tops = {n: st for n, st in definition["States"].items() if st.get("Type") in ("Map", "Parallel")}
        self.pending = None
        self.cur = None
        self.instances = []

    def feed(self, step, t, typ, details, on):
        name = details.get("name") if isinstance(details, dict) else None
        if typ.endswith("StateEntered") and name in self.tops and (self.cur is None or self.cur.closed):
            self.pending = name
            return
        if typ in ("MapStateStarted", "ParallelStateStarted") and self.pending is not None:
            st = self.tops[self.pending]
            if typ.startswith(st["Type"]):
                inst = Instance(self.pending, st, t, step)
                if inst.type == "Map":
                    inst.n = details.get("length")
                self.cur = inst
                self.instances.append(inst)
                self.pending = None
                on("started", inst, step, t, None)
            return
        inst = self.cur
        if inst is None or inst.closed:
            # a retried top-level fan-out is re-entered without a StateEntered event
            if typ in ("MapStateStarted", "ParallelStateStarted") and self.instances:
                last = self.instances[-1]
                if last.closed and last.failed_at is not None and typ.startswith(last.type):
                    inst = Instance(last.name, last.st, t, step)
                    if inst.type == "Map":
                        inst.n = details.get("length")
                    self.cur = inst
                    self.instances.append(inst)
                    on("started", inst, step, t, None)
            return
        if typ in ("MapStateStarted", "ParallelStateStarted") and inst.failed_at is not None \
                and typ.startswith(inst.type) and inst.st.get("Retry"):
            # the failed fan-out state is being retried: a new instance begins
            inst.closed = True
            new = Instance(inst.name, inst.st, t, step)
            if new.type == "Map":
                new.n = details.get("length")
            self.cur = new
            self.instances.append(new)
            on("started", new, step, t, None)
            return
        if typ == "MapIterationStarted" and name == inst.name:
            on("iteration", inst, step, t, details.get("index"))
            inst.started.append(details.get("index"))
            inst.peak = max(inst.peak, len(inst.started) - inst.finished)
            return
        if typ.endswith("StateExited") and name in inst.terminals and inst.failed_at is None:
            inst.finished += 1
            on("branch-done", inst, step, t, name)
            return
        if typ.endswith("StateEntered") and name in inst.inner:
            on("inner-entered", inst, step, t, name)
            return
        if typ in ("MapStateFailed", "ParallelStateFailed", "MapIterationFailed") and inst.failed_at is None \
                and typ.startswith(inst.type):
            inst.failed_at = (step, t)
            on("failed", inst, step, t, None)
            return
        if typ == inst.type + "StateExited" and name == inst.name:
            on("exited", inst, step, t, None)
            inst.closed = True
            return
        if typ in ("ExecutionFailed", "ExecutionSucceeded"):
            inst.closed = True


class JoinMonitor(Monitor):
    """C05 on successful fan-outs (the failure path belongs to C06)."""

    def __init__(self):
        Monitor.__init__(self)
        self.trackers = {}

    def attach(self, res):
        Monitor.attach(self, res)
        self.defs = {}
        for n in res.world.nodes:
            n.on_history.append(self.on_history)

    def definition_for(self, arn):
        # arn:...:execution:<machine>:<name>
        m = arn.split(":")[6]
        d = self.res.scenario["machines"].get(m)
        return d["definition"] if d else None

    def on_history(self, node, rec):
        step, t, arn, typ, details, smtype = rec
        tr = self.trackers.get(arn)
        if tr is None:
            d = self.definition_for(arn)
            if d is None:
                return
            tr = self.trackers[arn] = FanoutTracker(d)
        tr.feed(step, t, typ, details, lambda ev, inst, s, tt, x: self.on_event(arn, ev, inst, s, tt, x))

    def on_event(self, arn, ev, inst, step, t, x):
        if ev == "iteration":
            self.probe("iterations")
            if x in inst.started:
                self.add("C05", "iteration-started-twice", "%s: Map %s started item %s twice" % (arn, inst.name, x))
            if inst.maxc and len(inst.started) + 1 - inst.finished > inst.maxc:
                self.add("C05", "max-concurrency-exceeded",
                         "%s: Map %s has %d iterations in flight, MaxConcurrency %d" % (
                             arn, inst.name, len(inst.started) + 1 - inst.finished, inst.maxc))
        elif ev == "exited":
            self.probe("joins")
            if inst.maxc and inst.n and inst.maxc < inst.n:
                self.probe("joins-with-binding-maxconcurrency")
            if inst.finished < (inst.n or 0):
                self.add("C05", "join-before-all-branches",
                         "%s: %s %s exited after %s of %s branches/iterations had finished" % (
                             arn, inst.type, inst.name, inst.finished, inst.n))
            if inst.type == "Map" and sorted(inst.started) != list(range(inst.n or 0)):
                self.add("C05", "iterations-not-exactly-once",
                         "%s: Map %s started items %s for %s items" % (arn, inst.name, sorted(inst.started), inst.n))


class SiblingMonitor(Monitor):
    """C06: once a (top-level) fan-out instance has failed nothing inside it progresses."""

    def __init__(self):
        Monitor.__init__(self)
        self.trackers = {}
        self.failed = []   # (arn, inst)

    def attach(self, res):
        Monitor.attach(self, res)
        for n in res.world.nodes:
            n.on_history.append(self.on_history)

    def on_history(self, node, rec):
        step, t, arn, typ, details, smtype = rec
        tr = self.trackers.get(arn)
        if tr is None:
            m = arn.split(":")[6]
            d = self.res.scenario["machines"].get(m)
            if d is None:
                return
            tr = self.trackers[arn] = FanoutTracker(d["definition"])
        tr.feed(step, t, typ, details, lambda ev, inst, s, tt, x: self.on_event(arn, ev, inst, s, tt, x))

    def on_event(self, arn, ev, inst, step, t, x):
        if ev == "failed":
            self.probe("fanout-failures")
            self.failed.append((arn, inst))
        elif ev == "inner-entered" and inst.failed_at is not None:
            self.add("C06", "sibling-progress-after-failure",
                     "%s: state %s of failed %s %s was entered at step %d after the failure at step %d" % (
                         arn, x, inst.type, inst.name, step, inst.failed_at[0]), witness="state-entered")
        elif ev == "branch-done":
            pass

    def finish(self, res):
        # requests issued for a failed instance strictly later (virtual time) than its failure
        reqs = res.world.workers.requests
        for arn, inst in self.failed:
            tf = inst.failed_at[1]
            # the window of this instance ends when the same state is started again (retry)
            later = [i for a, i in self.failed if a == arn and i.name == inst.name and i.step0 > inst.step0]
            tr = self.trackers[arn]
            nxt = [i for i in tr.instances if i.name == inst.name and i.step0 > inst.step0]
            t_end = nxt[0].t0 if nxt else float("inf")
            for r in reqs:
                if r["fn"] in inst.functions and tf + 1e-6 < r["t_pub"] < t_end - 1e-6:
                    self.add("C06", "sibling-progress-after-failure",
                             "%s: task request to %s issued at t=%.3f, %s %s failed at t=%.3f" % (
                                 arn, r["fn"], r["t_pub"] - res.sim.epoch, inst.type, inst.name, tf - res.sim.epoch),
                             witness="task-request")
