"""
Run-time monitors (invariants evaluated while a run proceeds, plus end-of-run
checks).  Each monitor has attach(result) / finish(result) and a .findings list
of JSON-able dicts {property, rule, detail, witness, step, t}.
"""
import json

ENGINE_QUEUE_PREFIXES = ("asl_workflow_events", "asl_workflow_reply_to")
TOPIC_EXCHANGE = "asl_workflow_engine"


def finding(prop, rule, detail, witness=None, sim=None):
    return {"property": prop, "rule": rule, "detail": detail, "witness": witness,
            "step": sim.steps if sim else None, "t": round(sim.now - sim.epoch, 6) if sim else None}


class Monitor(object):
    def __init__(self):
        self.findings = []
        self.probes = {}

    def probe(self, name, n=1):
        self.probes[name] = self.probes.get(name, 0) + n

    def attach(self, res):
        self.res = res
        self.sim = res.sim
        self.world = res.world

    def finish(self, res):
        pass

    def add(self, prop, rule, detail, witness=None):
        # one finding per (rule, witness) per run is enough
        for f in self.findings:
            if f["rule"] == rule and f["witness"] == witness:
                return
        self.findings.append(finding(prop, rule, detail, witness, self.sim))


# ------------------------------------------------------------------------------------------
class NotifyMonitor(Monitor):
    """C02 (exactly one RUNNING then exactly one terminal) + C11 (subject / shape / units)."""
    TOP_KEYS = {"version", "id", "detail-type", "source", "account", "time", "region", "resources", "detail"}
    DETAIL_KEYS = {"executionArn", "input", "name", "output", "startDate", "stateMachineArn", "status", "stopDate"}

    def __init__(self, prop="C02", check_shape=True, liveness=True):
        Monitor.__init__(self)
        self.prop = prop
        self.seq = {}        # arn -> list of statuses
        self.check_shape = check_shape
        self.liveness = liveness
        self.expected = set()

    def attach(self, res):
        Monitor.attach(self, res)
        res.world.subscriber.listeners.append(self.on_event)

    def on_event(self, ev):
        body = ev["body"]
        if not isinstance(body, dict) or not isinstance(body.get("detail"), dict):
            self.add("C11", "notification-shape", "notification body is not an event object: %r" % (body,))
            return
        d = body["detail"]
        arn = d.get("executionArn")
        st = d.get("status")
        s = self.seq.setdefault(arn, [])
        if st == "RUNNING":
            if "RUNNING" in s:
                self.add(self.prop, "running-twice", "%s got a second RUNNING notification" % arn)
            if any(x != "RUNNING" for x in s):
                self.add(self.prop, "running-after-terminal", "%s RUNNING after %s" % (arn, s))
        elif st in ("SUCCEEDED", "FAILED"):
            if any(x in ("SUCCEEDED", "FAILED") for x in s):
                self.add(self.prop, "terminal-twice", "%s got %s after %s" % (arn, st, s),
                         witness="%s-after-%s" % (st, [x for x in s if x != "RUNNING"][0]))
            if "RUNNING" not in s:
                self.add(self.prop, "terminal-before-running", "%s got %s without RUNNING" % (arn, st))
        else:
            self.add(self.prop, "bad-status", "%s status %r" % (arn, st))
        s.append(st)
        if self.check_shape:
            subj = "%s.%s" % (d.get("stateMachineArn"), st)
            if ev["subject"] != subj:
                self.add("C11", "notification-subject", "subject %r, expected %r" % (ev["subject"], subj))
            if set(body.keys()) != self.TOP_KEYS or not self.DETAIL_KEYS <= set(d.keys()):
                self.add("C11", "notification-shape", "keys %s / %s" % (sorted(body.keys()), sorted(d.keys())))
            else:
                if body["detail-type"] != "Step Functions Execution Status Change" or body["source"] != "aws.states" \
                        or body["resources"] != [arn]:
                    self.add("C11", "notification-shape", "envelope %r" % {k: body[k] for k in
                                                                             ("detail-type", "source", "resources")})
            sd, sp = d.get("startDate"), d.get("stopDate")
            if not isinstance(sd, int) or isinstance(sd, bool) or sd < 10 ** 12:
                self.add("C11", "notification-units", "startDate %r is not integer milliseconds" % (sd,))
            if st == "RUNNING":
                if sp is not None:
                    self.add("C11", "notification-units", "stopDate %r on RUNNING" % (sp,))
            elif not isinstance(sp, int) or isinstance(sp, bool) or sp < 10 ** 12:
                self.add("C11", "notification-units", "stopDate %r is not integer milliseconds" % (sp,))

    def terminal_status(self, arn):
        for x in self.seq.get(arn, []):
            if x != "RUNNING":
                return x
        return None

    def finish(self, res):
        if not self.liveness:
            return
        started = set(self.expected)
        for ex, rec in res.start_calls:
            if rec is not None and rec["status"] == 200 and isinstance(rec["json"], dict) and rec["json"].get("executionArn"):
                started.add(rec["json"]["executionArn"])
        started |= set(a for a, s in self.seq.items() if "RUNNING" in s)
        for arn in sorted(started):
            if self.terminal_status(arn) is None:
                self.add(self.prop, "never-terminal",
                         "%s never reached a terminal status (run ended: %s at t=%.3f)" % (
                             arn, res.end_reason, res.sim.now - res.sim.epoch))


# ------------------------------------------------------------------------------------------
class _RedisOwner(object):
    name = "redis"
    incarnation = 0


class RecordMonitor(Monitor):
    """C02: record invariants and immutability after the end, polled after every scheduler step."""

    def __init__(self, prop="C02"):
        Monitor.__init__(self)
        self.prop = prop
        self.frozen = {}
        self.polls = 0

    def attach(self, res):
        Monitor.attach(self, res)
        res.sim.after_step.append(self.poll)

    def stores(self):
        """(owner, {arn: record}) per store: each instance's memory, or the Redis server the instances share (read
        directly from the server model: no commands, no perturbation)."""
        rs = getattr(self.world, "redis_server", None)
        if rs is not None:
            out = {}
            for k, (kind, val) in rs.data.items():
                if k.startswith("executions:") and kind == "hash":
                    exp = rs.expiry.get(k)
                    if exp is not None and self.sim.now > exp:
                        continue
                    out[k[len("executions:"):]] = {json.loads(f): json.loads(v) for f, v in val.items()}
            yield _RedisOwner, out
            return
        for n in self.world.nodes:
            se = n.state_engine
            if se is None:
                continue
            ex = se.executions
            if type(ex).__name__ == "SimpleStore":
                yield n, ex

    def poll(self):
        for n, ex in self.stores():
            for arn, rec in ex.items():
                self.polls += 1
                self.check(n, arn, rec)

    def check(self, n, arn, rec):
        st = rec.get("status")
        term = st in ("SUCCEEDED", "FAILED")
        if st not in ("RUNNING", "SUCCEEDED", "FAILED"):
            self.add(self.prop, "record-status", "%s status %r" % (arn, st))
        if (rec.get("stopDate") is not None) != term:
            self.add(self.prop, "record-stopdate", "%s status %s stopDate %r" % (arn, st, rec.get("stopDate")))
        if (rec.get("output") is not None) != (st == "SUCCEEDED"):
            self.add(self.prop, "record-output", "%s status %s output %r" % (arn, st, rec.get("output")))
        if (rec.get("error") is not None) != (st == "FAILED"):
            self.add(self.prop, "record-error", "%s status %s error %r" % (arn, st, rec.get("error")))
        if st != "FAILED" and rec.get("cause") is not None:
            self.add(self.prop, "record-error", "%s status %s cause %r" % (arn, st, rec.get("cause")))
        for k in ("startDate", "stopDate"):
            v = rec.get(k)
            if v is not None and (isinstance(v, bool) or not isinstance(v, (int, float)) or v > 10 ** 11):
                self.add("C11", "record-units", "%s %s=%r is not epoch seconds" % (arn, k, v))
        tup = (st, rec.get("output"), rec.get("error"), rec.get("cause"), rec.get("stopDate"))
        key = (n.name, n.incarnation, arn)
        if key in self.frozen:
            if self.frozen[key] != tup:
                self.add(self.prop, "record-changed-after-end", "%s %r -> %r" % (arn, self.frozen[key], tup))
        elif term:
            self.frozen[key] = tup


# ------------------------------------------------------------------------------------------
class BrokerMonitor(Monitor):
    """
    C03: exactly-once acknowledgement, carrier invariant at every broker operation, drain at quiescence.
    """

    def __init__(self, drain=True, carrier=True):
        Monitor.__init__(self)
        self.drain = drain
        self.carrier = carrier
        self.pending = {}         # (ch number, tag) -> (queue, uid, node)
        self.exec_of_uid = {}     # event message uid -> execution arn
        self.exec_of_mid = {}     # event message id -> execution arn
        self.branch_of_uid = {}
        self.msgs = {}            # arn -> count of queued/unacked event messages
        self.live = {}            # arn -> True while started and terminal notification not yet published
        self.requests = {}        # arn -> set of outstanding correlation ids
        self.arn_of_cid = {}
        self.suspects = []        # carrier candidates of the current step
        self.terminal_step = {}
        self.ops_checked = 0

    def attach(self, res):
        Monitor.attach(self, res)
        b = res.sim.broker
        b.publish_hooks.append(self.on_publish)
        b.observers.append(self.on_op)
        res.sim.after_step.append(self.after_step)

    # publish hook: sees the body
    def on_publish(self, ch, exchange, routing_key, body, props, queues, uid):
        if exchange == TOPIC_EXCHANGE:
            try:
                d = json.loads(body.decode("utf8") if isinstance(body, bytes) else body)["detail"]
            except (ValueError, KeyError, TypeError):
                return
            arn = d.get("executionArn")
            if d.get("status") == "RUNNING":
                cur = getattr(self, "cur_uid", None)
                if cur in getattr(self, "anon", ()):
                    # the start event being handled named neither execution nor message: this is the execution the
                    # engine made of it, and that (still unacknowledged) delivery carries it
                    self.anon.discard(cur)
                    self.exec_of_uid[cur] = arn
                    self.branch_of_uid[cur] = False
                    self.msgs[arn] = self.msgs.get(arn, 0) + 1
                if arn not in self.terminal_step:
                    self.live[arn] = True
            else:
                self.live.pop(arn, None)
                self.terminal_step[arn] = self.sim.steps
            return
        if exchange == "" and routing_key.startswith("asl_workflow_events"):
            try:
                ev = json.loads(body.decode("utf8") if isinstance(body, bytes) else body)
                ctx = ev["context"]
                if "Execution" not in ctx and queues:
                    if not hasattr(self, "anon"):
                        self.anon = set()
                    self.anon.add(uid)
                    return
                arn = ctx["Execution"].get("Id")
                if arn is None:
                    # a start event published by a client the "low-level" way: the engine derives the execution ARN
                    # from the state machine ARN and the execution name
                    p5 = ctx["StateMachine"]["Id"].split(":")
                    arn = ":".join(p5[:5] + ["execution", p5[6], ctx["Execution"]["Name"]])
            except (ValueError, KeyError, TypeError, AttributeError, IndexError):
                return
            if queues:
                self.exec_of_uid[uid] = arn
                self.branch_of_uid[uid] = "Branch" in (ctx.get("State") or {})
                if props.message_id:
                    self.exec_of_mid[props.message_id] = arn
                self.msgs[arn] = self.msgs.get(arn, 0) + len(queues)
                if arn not in self.terminal_step:
                    self.live[arn] = True
            return
        if exchange == "" and props.reply_to and props.correlation_id:
            # task request from an engine: outstanding until a reply with this cid is acknowledged
            cid = props.correlation_id
            base = cid.split(".")[0]
            arn = self.exec_of_mid.get(base)
            if arn is not None and queues:
                self.requests.setdefault(arn, set()).add(cid)
                self.arn_of_cid[cid] = arn

    def on_op(self, rec):
        step, t, name, node, kw = rec
        if name == "deliver" and node is not None:
            self.cur_uid = kw["uid"]
            self.pending[(kw["ch"], kw["tag"])] = (kw["queue"], kw["uid"], node)
            arn = self.exec_of_uid.get(kw["uid"]) or self.arn_of_cid.get(kw.get("cid"))
            self.sim.ctx_tag = arn
        elif name == "ack_frame" and node is not None and kw.get("covered", 0) > 1:
            self.add("C03", "ack-covers-other-deliveries",
                     "%s sent Basic.Ack(delivery_tag=%s, multiple=True) while %d deliveries were outstanding on its channel: "
                     "events and replies of other executions are settled before their consequences are issued" % (
                         node, kw.get("tag"), kw["covered"]))
        elif name == "basic_ack" and node is not None:
            ent = self.pending.pop((kw["ch"], kw["tag"]), None)
            uid = kw["uid"]
            arn = self.exec_of_uid.get(uid)
            if arn is not None and kw["queue"].startswith("asl_workflow_events"):
                self.msgs[arn] -= 1
                self.last_ack_branch = self.branch_of_uid.get(uid)
            cid = kw.get("cid")
            if cid and kw["queue"].startswith("asl_workflow_reply_to"):
                a2 = self.arn_of_cid.get(cid)
                if a2 is not None:
                    self.requests.get(a2, set()).discard(cid)
        elif name == "ack_unknown" and node is not None:
            self.add("C03", "ack-twice", "node %s acknowledged unknown/already acknowledged delivery tag %s on "
                                         "channel %s" % (node, kw["tag"], kw["ch"]))
        elif name == "expired":
            arn = self.exec_of_uid.get(kw["uid"])
            if arn is not None and kw["queue"].startswith("asl_workflow_events"):
                self.msgs[arn] -= 1
        if node is not None and self.carrier and name in ("basic_ack", "basic_publish"):
            self.ops_checked += 1
            for arn in self.live:
                if self.msgs.get(arn, 0) <= 0 and not self.requests.get(arn) and not self.timer_for(arn):
                    self.suspects.append((arn, name, getattr(self, "last_ack_branch", None), self.sim.steps,
                                          self.sim.now))

    def timer_for(self, arn):
        for it in self.sim.items:
            if not it.cancelled and getattr(it, "ctx", None) == arn and it.kind == "timer":
                return True
        return False

    def after_step(self):
        self.sim.ctx_tag = None
        if self.suspects:
            seen = set()
            for arn, op, branch, step, t in self.suspects:
                if arn in seen:
                    continue
                seen.add(arn)
                same = self.terminal_step.get(arn) == step
                w = ("ack-before-terminal-notification" if same else "carrier-lost") + \
                    (":branch-event" if branch else ":top-event")
                self.add("C03", "no-carrier",
                         "after %s at step %d nothing carries RUNNING execution %s forward (no queued or "
                         "unacknowledged event, outstanding request or armed timer)%s" % (
                             op, step, arn, "; its terminal notification was only sent later in the same handler"
                             if same else ""), witness=w)
            self.suspects = []

    def finish(self, res):
        sim = res.sim
        if res.end_reason != "quiescent":
            return
        live_nodes = [n for n in self.world.nodes if not n.dead and n.state_engine is not None]
        names = set(n.name for n in live_nodes)
        for (chn, tag), (q, uid, node) in sorted(self.pending.items()):
            if node in names:
                ch = [c for c in sim.broker.chans if c.number == chn]
                if ch and ch[0].open and tag in ch[0].unacked:
                    self.add("C03", "never-acked", "delivery tag %s of queue %s to %s was never acknowledged" % (
                        tag, q, node), witness=q.split("-")[0])
        if self.drain:
            for n in live_nodes:
                vs = n.volatile_state()
                for k, v in vs.items():
                    if v:
                        self.add("C03", "leak", "%s holds %d %s at quiescence" % (n.name, v, k), witness=k)
            for qn, q in sim.broker.queues.items():
                if qn.startswith(ENGINE_QUEUE_PREFIXES) and q.msgs and q.consumers:
                    self.add("C03", "leak", "queue %s still holds %d messages" % (qn, len(q.msgs)), witness="queue")
