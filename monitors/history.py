"""
C09: execution history well-formedness, validated incrementally after every
scheduler step on the stored history, plus end-of-run checks against the
record, the reference model and the GetExecutionHistory handler.
"""
import json

from monitors.basic import Monitor

TERMINAL = ("ExecutionSucceeded", "ExecutionFailed")


class HistoryMonitor(Monitor):
    def __init__(self, models=None, api_check=True):
        Monitor.__init__(self)
        self.seen = {}      # (node, incarnation, arn) -> number of validated events
        self.ended = {}     # key -> index of terminal event
        self.last_ts = {}
        self.models = models or {}
        self.api_check = api_check
        self.events_validated = 0

    def attach(self, res):
        Monitor.attach(self, res)
        res.sim.after_step.append(self.poll)
        cfg = res.scenario.get("config") or {}
        self.exact = cfg.get("policy") == "canonical" and cfg.get("latency", "zero") == "zero" and \
            not res.scenario.get("faults")

    def stores(self):
        for n in self.world.nodes:
            se = n.state_engine
            if se is None:
                continue
            h = se.execution_history
            if type(h).__name__ == "SimpleStore":
                yield n, h, se.executions

    def poll(self):
        for n, hist, execs in self.stores():
            for arn, lst in hist.items():
                key = (n.name, n.incarnation, arn)
                k = self.seen.get(key, 0)
                if len(lst) < k:
                    self.add("C09", "history-shrank", "%s history went from %d to %d events" % (arn, k, len(lst)))
                    self.seen[key] = len(lst)
                    continue
                for i in range(k, len(lst)):
                    self.validate(key, arn, i, lst[i], lst)
                self.seen[key] = len(lst)

    def validate(self, key, arn, i, ev, lst):
        self.events_validated += 1
        if ev.get("id") != i + 1 or ev.get("previousEventId") != i:
            self.add("C09", "history-numbering", "%s event %d has id=%r previousEventId=%r" % (
                arn, i + 1, ev.get("id"), ev.get("previousEventId")))
        ts = ev.get("timestamp")
        if not isinstance(ts, (int, float)) or isinstance(ts, bool):
            self.add("C09", "history-timestamp", "%s event %d timestamp %r" % (arn, i + 1, ts))
        else:
            if key in self.last_ts and ts < self.last_ts[key]:
                self.add("C09", "history-timestamp", "%s event %d timestamp goes backwards" % (arn, i + 1))
            self.last_ts[key] = ts
        typ = ev.get("type")
        if i == 0 and typ != "ExecutionStarted":
            self.add("C09", "history-first-event", "%s first event is %r" % (arn, typ))
        if key in self.ended:
            self.add("C09", "appended-after-end", "%s: %s appended after %s" % (
                arn, typ, lst[self.ended[key]].get("type")), witness=typ)
        elif typ in TERMINAL:
            self.ended[key] = i
        # details key naming
        dk = [k for k in ev.keys() if k.endswith("EventDetails")]
        if len(dk) != 1:
            self.add("C09", "history-shape", "%s event %d keys %s" % (arn, i + 1, sorted(ev.keys())))

    def finish(self, res):
        self.poll()
        scn = res.scenario
        for n, hist, execs in self.stores():
            for arn, lst in hist.items():
                mname = arn.split(":")[6]
                m = scn["machines"].get(mname)
                if m is None:
                    continue
                rec = execs.get(arn)
                if m.get("type", "STANDARD") == "EXPRESS":
                    self.add("C09", "express-has-history", "%s (EXPRESS) has a stored history" % arn)
                    continue
                if not lst:
                    continue
                first = lst[0]
                ex = [e for e in scn["executions"] if e["machine"] == mname]
                if ex and first.get("type") == "ExecutionStarted":
                    try:
                        inp = json.loads(first["executionStartedEventDetails"]["input"])
                    except (KeyError, ValueError, TypeError):
                        inp = "<unreadable>"
                    if inp != ex[0]["input"] and not (ex[0]["input"] is None):
                        self.add("C09", "history-first-event", "%s ExecutionStarted input %r != %r" % (
                            arn, inp, ex[0]["input"]))
                terms = [e for e in lst if e.get("type") in TERMINAL]
                if rec is not None and rec.get("status") in ("SUCCEEDED", "FAILED"):
                    if len(terms) != 1 or lst[-1].get("type") not in TERMINAL:
                        self.add("C09", "history-terminal-event", "%s is %s but history has terminal events %s, last %s" % (
                            arn, rec["status"], [e["type"] for e in terms], lst[-1].get("type")),
                                 witness="%d-terminal-events/last-%s" % (len(terms), lst[-1].get("type")))
                    else:
                        t = terms[0]
                        if rec["status"] == "SUCCEEDED":
                            ok = t["type"] == "ExecutionSucceeded" and \
                                t["executionSucceededEventDetails"].get("output") == rec.get("output")
                        else:
                            d = t.get("executionFailedEventDetails", {})
                            ok = t["type"] == "ExecutionFailed" and d.get("error") == rec.get("error") and \
                                d.get("cause") == rec.get("cause")
                        if not ok:
                            self.add("C09", "history-disagrees-with-record", "%s record %r vs last event %r" % (
                                arn, {k: rec.get(k) for k in ("status", "output", "error", "cause")}, t))
                elif terms:
                    self.add("C09", "history-terminal-event", "%s is RUNNING but history has %s" % (arn, terms[0]["type"]))
                self.pairing(arn, lst, rec, self.models.get(ex[0]["name"]) if ex else None, m["definition"])
        # EXPRESS: no record either
        for n in self.world.nodes:
            se = n.state_engine
            if se is None or type(se.executions).__name__ != "SimpleStore":
                continue
            for arn in se.executions:
                m = scn["machines"].get(arn.split(":")[6])
                if m is not None and m.get("type", "STANDARD") == "EXPRESS":
                    self.add("C09", "express-has-record", "%s (EXPRESS) has a stored record" % arn)

    def pairing(self, arn, lst, rec, mo, definition):
        entered = {}
        exited = {}
        seq_entered = []
        for e in lst:
            typ = e.get("type", "")
            if typ.endswith("StateEntered"):
                d = e.get("stateEnteredEventDetails", {})
                nm = d.get("name")
                entered[nm] = entered.get(nm, 0) + 1
                seq_entered.append((nm, d.get("input")))
            elif typ.endswith("StateExited"):
                d = e.get("stateExitedEventDetails", {})
                nm = d.get("name")
                exited[nm] = exited.get(nm, 0) + 1
                if exited[nm] > entered.get(nm, 0):
                    self.add("C09", "exited-without-entered", "%s: %s exited %d times, entered %d" % (
                        arn, nm, exited[nm], entered.get(nm, 0)))
        if mo is None or mo.unsupported:
            return
        # compare with the model's transitions
        m_entered = [(x[2], x[3]) for x in mo.transitions if x[1] == "entered"]
        m_failed = [x for x in mo.transitions if x[1] in ("failed", "retry", "caught")]
        has_fanout = any(x[1] == "fanout" for x in mo.transitions)
        f = mo.flags
        if f.tie or f.deadline_tie or f.ambiguous_calls or f.null_document or f.inband_error or f.inband_task_error:
            return
        from lsfsim.runner import loose_equal
        eng = []
        for nm, inp in seq_entered:
            try:
                eng.append((nm, json.loads(inp)))
            except (TypeError, ValueError):
                eng.append((nm, "<unreadable>"))
        if not has_fanout:
            ok = len(eng) == len(m_entered) and all(a[0] == b[0] and loose_equal(b[1], a[1]) for a, b in zip(eng, m_entered))
            if not ok:
                self.add("C09", "entered-sequence-differs-from-model",
                         "%s: engine entered %s, model %s" % (arn, [x[0] for x in eng], [x[0] for x in m_entered]))
        elif not f.fanout_failures or (self.exact and not f.cancel_tie):
            # (after a branch failure the model strikes out what its cancelled siblings would have done later; under the
            # zero-latency canonical schedule that is exactly what the engine may still log)
            a = sorted(x[0] for x in eng)
            b = sorted(x[0] for x in m_entered)
            if a != b:
                self.add("C09", "entered-multiset-differs-from-model", "%s: engine %s, model %s" % (arn, a, b))
        if not m_failed and not f.fanout_failures and rec is not None and rec.get("status") == "SUCCEEDED":
            for nm, c in entered.items():
                if exited.get(nm, 0) != c:
                    self.add("C09", "entered-without-exited", "%s: %s entered %d times, exited %d (no failure)" % (
                        arn, nm, c, exited.get(nm, 0)))
