"""
C11: all observability surfaces tell the same story about an execution.

Surfaces followed per execution ARN
  R  the stored record (what DescribeExecution / ListExecutions serve), read from the store shared by the instances
  H  the stored history (GetExecutionHistory)
  N  the status-change notifications, taken at the moment they are PUBLISHED (broker publish hook)

Every surface moves through the same two states S0 = RUNNING(input) and S1 = terminal(status, output | error, cause).
Rules (each evaluated while the run proceeds):
  publish-time   when a notification is published the record already shows exactly that state (a subscriber that reacts
                 to the notification with DescribeExecution must not see an older or different story) and, for a terminal
                 status, the last history event is the matching terminal event; subject, envelope, units.
  step boundary  the record is one of S0 / S1 (never a mixture), in epoch seconds, never behind the notifications, and
                 equal in content to the last published notification once both are in the same state; the last history
                 event is terminal exactly when the record is.
  exactly once   one notification per status change (runs without crashes).
  pre-emption    wherever another thread or another instance can really run - for the blocking front end the REST
                 threads at each of the engine thread's broker operations, for Redis the other instance at each Redis
                 command of this one - the record that would be served is read at that point: it must be S0 or S1 as a
                 whole, in seconds.
  end of run     DescribeExecution / ListExecutions / GetExecutionHistory through every instance give the same answers,
                 equal to the stored record / history and to the terminal notification (ms = int(s * 1000)).
"""
import json

from monitors.basic import Monitor, TOPIC_EXCHANGE

TERMINAL = ("SUCCEEDED", "FAILED")
TOP_KEYS = {"version", "id", "detail-type", "source", "account", "time", "region", "resources", "detail"}
DETAIL_KEYS = {"executionArn", "input", "name", "output", "startDate", "stateMachineArn", "status", "stopDate"}
CONTENT = ("executionArn", "stateMachineArn", "name", "status", "input", "output", "error", "cause")


def content(d):
    return tuple(d.get(k) for k in CONTENT)


def record_form(rec):
    """None if rec is a whole S0 or S1 record, else a description of the mixture."""
    st = rec.get("status")
    if st == "RUNNING":
        if rec.get("stopDate") is not None or rec.get("output") is not None or rec.get("error") is not None \
                or rec.get("cause") is not None:
            return "RUNNING with stopDate=%r output=%r error=%r" % (rec.get("stopDate"), rec.get("output"), rec.get("error"))
        return None
    if st == "SUCCEEDED":
        if rec.get("stopDate") is None or rec.get("output") is None or rec.get("error") is not None:
            return "SUCCEEDED with stopDate=%r output=%r error=%r" % (rec.get("stopDate"), rec.get("output"), rec.get("error"))
        return None
    if st == "FAILED":
        if rec.get("stopDate") is None or rec.get("output") is not None or "error" not in rec or "cause" not in rec:
            return "FAILED with stopDate=%r output=%r keys=%s" % (rec.get("stopDate"), rec.get("output"), sorted(rec.keys()))
        return None
    return "status %r" % (st,)


def seconds_ok(v, lo, hi):
    return isinstance(v, (int, float)) and not isinstance(v, bool) and lo - 1 <= v <= hi + 1


class SurfaceMonitor(Monitor):
    def __init__(self, exactly_once=True, preempt=True):
        Monitor.__init__(self)
        self.exactly_once = exactly_once
        self.preempt = preempt
        self.pub = {}         # arn -> list of details as published
        self.types = {}       # state machine arn -> type
        self.in_nested = False
        self.polls = 0

    # -- wiring -----------------------------------------------------------------------------
    def attach(self, res):
        Monitor.attach(self, res)
        w = res.world
        self.sim.broker.publish_hooks.append(self.on_publish)
        self.sim.after_step.append(self.poll)
        self.redis = w.redis_server
        import random
        self.poll_rng = random.Random((self.sim.seed << 3) ^ 0x9011)   # client polls: own stream, never the scheduler's
        self.client_polls = []
        # execution names the scenario itself starts more than once: a later run under the same name is a new story
        self.reruns_left = {}
        for ex in res.scenario.get("executions", []):
            k = (ex.get("machine"), ex.get("name"))
            self.reruns_left[k] = self.reruns_left.get(k, -1) + 1
        if self.preempt:
            if self.redis is not None:
                self.redis.boundary_hook = self.on_redis_command
            if w.transport == "blocking":
                self.sim.broker.observers.append(self.on_broker_op)

    def machine_type(self, sm_arn):
        name = sm_arn.rsplit(":", 1)[1]
        m = self.res.scenario["machines"].get(name)
        return (m or {}).get("type", "STANDARD")

    # -- reading the stores (without going through an instance: no commands, no perturbation) --
    def records(self):
        """arn -> record dict, from the store the instances share (or each instance's memory)."""
        if self.redis is not None:
            out = {}
            for k, (kind, val) in self.redis.data.items():
                if k.startswith("executions:") and kind == "hash":
                    exp = self.redis.expiry.get(k)
                    if exp is not None and self.sim.now >= exp:
                        continue
                    out[k[len("executions:"):]] = {json.loads(f): json.loads(v) for f, v in val.items()}
            return out
        out = {}
        for n in self.world.nodes:
            se = n.state_engine
            if se is not None and type(se.executions).__name__ == "SimpleStore":
                for arn, rec in se.executions.items():
                    out[arn] = rec
        return out

    def histories(self):
        if self.redis is not None:
            out = {}
            for k, (kind, val) in self.redis.data.items():
                if k.startswith("execution_history:") and kind == "list":
                    out[k[len("execution_history:"):]] = [json.loads(v) for v in val]
            return out
        out = {}
        for n in self.world.nodes:
            se = n.state_engine
            if se is not None and type(se.execution_history).__name__ == "SimpleStore":
                for arn, h in se.execution_history.items():
                    out[arn] = h
        return out

    # -- publish time ----------------------------------------------------------------------------
    def on_publish(self, ch, exchange, routing_key, body, props, queues, uid):
        self._on_publish_inner(ch, exchange, routing_key, body, props, queues, uid)
        if exchange != TOPIC_EXCHANGE:
            return
        try:
            d = json.loads(body.decode("utf8") if isinstance(body, bytes) else body)["detail"]
        except (ValueError, KeyError, TypeError):
            return
        arn = d.get("executionArn")
        if not arn or self.machine_type(d.get("stateMachineArn") or ":") != "STANDARD":
            return
        # a client that polls DescribeExecution through any instance, at and shortly after each status change: what
        # it is told must be the stored record of that moment (as it was when the call was made or when it returned)
        for _ in range(self.poll_rng.choice([0, 1, 1, 2])):
            delay = self.poll_rng.choice([0.0, 0.0, 0.001, 0.05, 0.5, 2.0])
            ni = self.poll_rng.randrange(len(self.world.nodes))
            self.sim.call_later(delay, lambda arn=arn, ni=ni: self.client_poll(arn, ni), None, kind="client", label="poll")

    def client_poll(self, arn, ni):
        node = self.world.nodes[ni]
        if node.dead or node.app is None:
            return
        if self.redis is None and (node.state_engine is None or node.state_engine.executions.get(arn) is None):
            return
        before = self.records().get(arn)
        before = json.loads(json.dumps(before)) if before is not None else None

        def done(rec):
            after = self.records().get(arn)
            self.probe("client-polls")
            if rec["status"] == -1:
                return
            if rec["status"] != 200 or not isinstance(rec["json"], dict):
                if before is not None and after is not None:
                    self.add("C11", "describe-differs-from-record", "%s polled via %s: %s %s, stored %r" % (
                        arn, node.name, rec["status"], str(rec["body"])[:120], content(after)), witness="poll")
                return
            got = content(rec["json"])
            if (before is None or got != content(before)) and (after is None or got != content(after)):
                self.probe("client-polls-stale")
                self.add("C11", "describe-differs-from-record", "%s polled via %s while the execution runs: told %r, "
                         "the stored record was %r when asked and %r when answered" % (
                             arn, node.name, got, content(before) if before else None, content(after) if after else None),
                         witness="poll")
        self.world.api.call(node, "DescribeExecution", {"executionArn": arn}, on_done=done)

    def _on_publish_inner(self, ch, exchange, routing_key, body, props, queues, uid):
        if exchange != TOPIC_EXCHANGE:
            return
        try:
            ev = json.loads(body)
        except (TypeError, ValueError):
            self.add("C11", "notification-shape", "notification body is not JSON: %r" % (body[:200],))
            return
        if not isinstance(ev, dict) or not isinstance(ev.get("detail"), dict):
            self.add("C11", "notification-shape", "notification is not an event object: %r" % (ev,))
            return
        d = ev["detail"]
        arn, st = d.get("executionArn"), d.get("status")
        self.probe("notifications")
        subj = "%s.%s" % (d.get("stateMachineArn"), st)
        if routing_key != subj:
            self.add("C11", "notification-subject", "published to %r, expected %r" % (routing_key, subj))
        if set(ev.keys()) != TOP_KEYS or not DETAIL_KEYS <= set(d.keys()):
            self.add("C11", "notification-shape", "keys %s / %s" % (sorted(ev.keys()), sorted(d.keys())))
        elif ev["detail-type"] != "Step Functions Execution Status Change" or ev["source"] != "aws.states" or \
                ev["resources"] != [arn] or ev["version"] != "0" or not isinstance(ev["id"], str) or \
                not isinstance(ev["time"], str):
            self.add("C11", "notification-shape", "envelope %r" % ({k: ev[k] for k in ev if k != "detail"},))
        else:
            parts = (arn or "").split(":")
            if len(parts) >= 5 and (ev["account"] != parts[4] or ev["region"] != parts[3]):
                self.add("C11", "notification-shape", "account/region %r/%r for %s" % (ev["account"], ev["region"], arn))
        sd, sp = d.get("startDate"), d.get("stopDate")
        lo, hi = self.sim.epoch * 1000, self.sim.now * 1000
        if not isinstance(sd, int) or isinstance(sd, bool) or not lo - 1000 <= sd <= hi + 1000:
            self.add("C11", "notification-units", "startDate %r is not integer milliseconds" % (sd,))
        if st == "RUNNING":
            if sp is not None:
                self.add("C11", "notification-units", "stopDate %r on RUNNING" % (sp,))
        elif not isinstance(sp, int) or isinstance(sp, bool) or not lo - 1000 <= sp <= hi + 1000:
            self.add("C11", "notification-units", "stopDate %r is not integer milliseconds" % (sp,))
        seq = self.pub.setdefault(arn, [])
        if st == "RUNNING" and seq and seq[-1].get("status") in TERMINAL and isinstance(arn, str):
            k = tuple(arn.split(":")[-2:])
            if self.reruns_left.get(k, 0) > 0 and d.get("startDate") != seq[0].get("startDate"):
                # the scenario started this name again after the earlier run had ended
                self.reruns_left[k] -= 1
                self.probe("execution-name-run-again")
                seq = self.pub[arn] = []
        if self.exactly_once:
            if any(x.get("status") == st for x in seq):
                self.add("C11", "status-change-published-twice", "%s: %s published again" % (arn, st), witness=st)
            if st == "RUNNING" and seq:
                self.add("C11", "status-change-order", "%s: RUNNING published after %s" % (arn, [x["status"] for x in seq]))
        if seq and st in TERMINAL:
            first = seq[0]
            for k in ("executionArn", "stateMachineArn", "name", "input"):
                if first.get(k) != d.get(k):
                    self.add("C11", "notifications-disagree", "%s: %s was %r in the RUNNING notification and is %r in %s" % (
                        arn, k, first.get(k), d.get(k), st), witness=k)
        seq.append(d)
        if self.machine_type(d.get("stateMachineArn") or ":") != "STANDARD":
            return
        # the record at the moment of publication
        rec = self.records().get(arn)
        if rec is None:
            self.add("C11", "published-before-record", "%s: %s published but no record is stored" % (arn, st), witness=st)
            return
        if content(rec) != content(d):
            self.add("C11", "published-before-record",
                     "%s: %s published while the record says %r (notification %r)" % (arn, st, content(rec), content(d)),
                     witness=st)
        # (units are compared at the step boundary: inside the publishing callback only a real second thread could look)
        if st in TERMINAL:
            h = self.histories().get(arn) or []
            last = h[-1] if h else {}
            if not self.history_matches(last, rec):
                self.add("C11", "published-before-history", "%s: %s published, last history event is %r" % (
                    arn, st, last.get("type")), witness=st)

    def units_agree(self, arn, rec, d, where):
        for k in ("startDate", "stopDate"):
            r, n = rec.get(k), d.get(k)
            if r is None or n is None:
                if r != n:
                    self.add("C11", "timestamps-disagree", "%s %s: %s record %r notification %r" % (arn, where, k, r, n))
                continue
            if isinstance(r, bool) or not isinstance(r, (int, float)) or n != int(r * 1000):
                self.add("C11", "timestamps-disagree", "%s %s: %s record %r (s) notification %r (ms)" % (arn, where, k, r, n))

    @staticmethod
    def history_matches(last, rec):
        st = rec.get("status")
        if st == "SUCCEEDED":
            return last.get("type") == "ExecutionSucceeded" and \
                (last.get("executionSucceededEventDetails") or {}).get("output") == rec.get("output")
        if st == "FAILED":
            d = last.get("executionFailedEventDetails") or {}
            return last.get("type") == "ExecutionFailed" and d.get("error") == rec.get("error") and \
                d.get("cause") == rec.get("cause")
        return last.get("type") not in ("ExecutionSucceeded", "ExecutionFailed")

    # -- step boundary ---------------------------------------------------------------------------------
    def poll(self):
        recs = self.records()
        hists = None
        for arn, rec in recs.items():
            self.polls += 1
            self.check_record(arn, rec, "at a step boundary")
            seq = self.pub.get(arn)
            if seq:
                last = seq[-1]
                ri = 1 if rec.get("status") in TERMINAL else 0
                ni = 1 if last.get("status") in TERMINAL else 0
                if ri < ni:
                    self.add("C11", "record-behind-notification", "%s: record %s, last notification %s" % (
                        arn, rec.get("status"), last.get("status")))
                elif ri == ni:
                    if content(rec) != content(last):
                        self.add("C11", "record-differs-from-notification", "%s: record %r, last notification %r" % (
                            arn, content(rec), content(last)))
                    else:
                        self.units_agree(arn, rec, last, "at a step boundary")
                elif not self.crashy():
                    self.add("C11", "notification-behind-record", "%s: record %s but the last published notification is %s" % (
                        arn, rec.get("status"), last.get("status")))
            if rec.get("status") in TERMINAL or True:
                if hists is None:
                    hists = self.histories()
                h = hists.get(arn)
                if h:
                    if not self.history_matches(h[-1], rec) and not self.crashy():
                        self.add("C11", "history-differs-from-record", "%s: record %r, last history event %r" % (
                            arn, content(rec)[3:], h[-1]), witness=rec.get("status"))
                    first = h[0]
                    if first.get("type") == "ExecutionStarted":
                        inp = (first.get("executionStartedEventDetails") or {}).get("input")
                        if inp != rec.get("input") and rec.get("input") is not None:
                            self.add("C11", "history-differs-from-record", "%s: ExecutionStarted input %r, record input %r" % (
                                arn, inp, rec.get("input")), witness="input")

    def crashy(self):
        return bool(self.sim.stats.get("crash"))

    def check_record(self, arn, rec, where, witness=None):
        why = record_form(rec)
        if why is not None:
            self.add("C11", "torn-record", "%s %s: %s" % (arn, where, why), witness=witness or "step")
        for k in ("startDate", "stopDate"):
            v = rec.get(k)
            if v is not None and not seconds_ok(v, self.sim.epoch, self.sim.now):
                self.add("C11", "record-units", "%s %s: %s=%r is not epoch seconds" % (arn, where, k, v),
                         witness=witness or "step")

    # -- pre-emption points ---------------------------------------------------------------------------------
    def on_redis_command(self, cid, name):
        """Another instance could serve DescribeExecution right now."""
        if self.in_nested or name not in ("hset", "hset_many", "hdel", "delete", "rpush", "lset"):
            return
        self.in_nested = True
        try:
            self.probe("reads-at-redis-command-boundaries")
            for arn, rec in self.records().items():
                self.check_record(arn, rec, "read by another instance between two Redis commands of %s" % (
                    self.sim.current_node,), witness="redis-command")
        finally:
            self.in_nested = False

    def on_broker_op(self, oprec):
        """Blocking front end: a REST thread runs while the engine thread is inside a broker operation."""
        step, t, name, node, kw = oprec
        if self.in_nested or name not in ("basic_publish", "basic_ack"):
            return
        n = self.sim.nodes.get(node)
        if n is None or n.dead or getattr(n, "app", None) is None or n.transport != "blocking":
            return
        se = n.state_engine
        if se is None:
            return
        arns = list(self.records().keys())
        if not arns:
            return
        self.in_nested = True
        prev = self.sim.current_node
        try:
            client = n.app.test_client()
            for arn in arns[:4]:
                self.probe("rest-thread-reads-inside-broker-operations")
                resp = client.post("/", data=json.dumps({"executionArn": arn}), headers={
                    "Content-Type": "application/x-amz-json-1.0", "x-amz-target": "AWSStepFunctions.DescribeExecution"})
                if resp.status_code != 200:
                    continue
                rec = json.loads(resp.get_data().decode("utf8"))
                self.check_record(arn, rec, "DescribeExecution served by a REST thread during the engine thread's %s" % name,
                                  witness="rest-thread")
        finally:
            self.sim.current_node = prev
            self.in_nested = False

    # -- end of run ---------------------------------------------------------------------------------
    def finish(self, res):
        self.poll()
        w = self.world
        recs = self.records()
        hists = self.histories()
        scn = res.scenario
        nodes = [n for n in w.nodes if not n.dead and n.state_engine is not None]
        shared = self.redis is not None
        for arn, seq in sorted(self.pub.items()):
            sm = seq[0].get("stateMachineArn") or ":"
            if self.machine_type(sm) != "STANDARD":
                self.probe("express-executions")
                if arn in recs or arn in hists:
                    self.add("C11", "express-stored", "%s (EXPRESS) has a stored record/history" % arn)
                continue
            self.probe("standard-executions")
            rec = recs.get(arn)
            if rec is None:
                self.add("C11", "record-missing", "%s was announced but has no record" % arn)
                continue
            last = seq[-1]
            if content(rec) != content(last):
                self.add("C11", "record-differs-from-notification", "%s at the end: record %r, last notification %r" % (
                    arn, content(rec), content(last)))
            answers = []
            for n in nodes:
                if not shared and (n.state_engine.executions.get(arn) is None):
                    continue
                d = w.api_sync(n, "DescribeExecution", {"executionArn": arn})
                h = w.api_sync(n, "GetExecutionHistory", {"executionArn": arn})
                ls = w.api_sync(n, "ListExecutions", {"stateMachineArn": sm})
                self.probe("handler-reads")
                if d["status"] != 200:
                    self.add("C11", "describe-differs-from-record", "%s via %s: %s %s" % (arn, n.name, d["status"], d["body"][:200]))
                    continue
                want = json.loads(json.dumps(rec))
                if d["json"] != want:
                    self.add("C11", "describe-differs-from-record", "%s via %s: %r, stored %r" % (arn, n.name, d["json"], want))
                if h["status"] != 200 or h["json"].get("events") != json.loads(json.dumps(hists.get(arn) or [])):
                    self.add("C11", "history-api-differs-from-store", "%s via %s: %s" % (arn, n.name, h["status"]))
                entry = None
                if ls["status"] == 200:
                    for e in ls["json"].get("executions", []):
                        if e.get("executionArn") == arn:
                            entry = e
                if entry is None:
                    self.add("C11", "list-differs-from-record", "%s via %s: not listed (%s)" % (arn, n.name, ls["status"]))
                else:
                    for k in ("name", "stateMachineArn", "status", "startDate", "stopDate"):
                        if entry.get(k) != want.get(k):
                            self.add("C11", "list-differs-from-record", "%s via %s: %s listed %r, record %r" % (
                                arn, n.name, k, entry.get(k), want.get(k)), witness=k)
                answers.append((n.name, d["json"], h["json"], entry))
            for a in answers[1:]:
                if a[1:] != answers[0][1:]:
                    self.add("C11", "instances-disagree", "%s: %s and %s answer differently" % (arn, answers[0][0], a[0]))
        # sync responses against the notifications
        for ex, rec in res.start_calls:
            if rec is not None and isinstance(rec.get("status"), int) and rec["status"] >= 500:
                # (a start call the front end could not serve: nothing of the execution exists on any surface)
                self.add("C11", "start-call-internal-error", "Start%sExecution of %s answered %s %s" % (
                    "Sync" if ex.get("via") == "sync" else "", ex.get("name"), rec["status"], str(rec.get("body"))[:120]))
            if rec is None or rec["status"] != 200 or not isinstance(rec["json"], dict):
                continue
            j = rec["json"]
            arn = j.get("executionArn")
            seq = self.pub.get(arn) or []
            if not seq:
                self.add("C11", "started-without-notification", "%s started (200) but nothing was published" % arn)
                continue
            if ex.get("via") == "sync" and "status" in j:
                last = seq[-1]
                for k in ("status", "output", "input", "name", "error", "cause"):
                    if k in j and j.get(k) != last.get(k):
                        self.add("C11", "sync-response-differs-from-notification", "%s: %s response %r, notification %r" % (
                            arn, k, j.get(k), last.get(k)), witness=k)
