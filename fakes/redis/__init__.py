"""
Fake `redis` (redis-py surface used by the repository and by the fake pottery),
backed by lsfsim.redis_server.RedisServer.
"""
from lsfsim.core import Sim, SimCrash
from lsfsim.redis_server import RedisError as _ServerError


class RedisError(Exception):
    pass


class ConnectionError(RedisError):
    pass


class ResponseError(RedisError):
    pass


class _Pool(object):
    def __init__(self, server, node):
        self.server = server
        self.node = node


class PubSub(object):
    def __init__(self, client, ignore_subscribe_messages=False):
        self._client = client
        self._server = client._server
        self._node = client._node
        self._dead = False
        self.handlers = {}
        # a pubsub connection is a new logical connection with its own client id ... but the repository registers
        # tracking against the id it read from the tracker connection *before* subscribing, so that id is what routes
        self._cid = client._cid

    def subscribe(self, *channels, **handlers):
        for ch in channels:
            self.handlers[ch] = None
            self._server.subscribe(self._cid, ch, None, self)
        for ch, h in handlers.items():
            self.handlers[ch] = h
            self._server.subscribe(self._cid, ch, h, self)

    def _deliver(self, msg):
        ch = msg["channel"].decode("utf8")
        h = self.handlers.get(ch)
        if h is not None:
            sim = self._server.sim
            sim.run_callback(self._node, h, msg)

    def listen(self):
        return iter(())

    def close(self):
        self._dead = True


class Redis(object):
    def __init__(self, connection_pool=None, server=None, node=None):
        sim = Sim.current
        if connection_pool is not None:
            self._server = connection_pool.server
            self._node = connection_pool.node
        else:
            self._server = server or sim.redis_server
            self._node = node if node is not None else sim.current_node
        self.connection_pool = connection_pool or _Pool(self._server, self._node)
        self._cid = self._server.new_client()
        self._dead = False
        self._ncmds = 0
        n = self._server.sim.nodes.get(self._node)
        if n is not None:
            if not hasattr(n, "redis_clients"):
                n.redis_clients = []
            n.redis_clients.append(self)

    @classmethod
    def from_url(cls, url, **kw):
        return cls()

    def _kill(self):
        self._dead = True
        self._server.drop_client(self._cid)

    def _call(self, fn, *args):
        if self._dead:
            return None
        n = self._server.sim.nodes.get(self._node)
        if n is not None and n.dead:
            raise SimCrash()
        self._ncmds += 1
        try:
            r = fn(self._cid, *args)
        except _ServerError as e:
            raise ResponseError(str(e))
        hook = self._server.boundary_hook
        if hook is not None:
            hook(self._cid, fn.__name__)
        return r

    # -- commands used by the repository ---------------------------------------------------
    def ping(self):
        if self._server is None:
            raise ConnectionError("no server")
        return True

    def info(self, section=None):
        return {"redis_version": self._server.version}

    def client_id(self):
        return self._cid

    def pubsub(self, ignore_subscribe_messages=False):
        return PubSub(self, ignore_subscribe_messages)

    def execute_command(self, *args):
        a = [str(x).upper() if isinstance(x, str) else x for x in args]
        if a[:2] == ["CLIENT", "TRACKING"]:
            if a[2] == "ON":
                redirect, options, i = None, [], 3
                while i < len(a):
                    if a[i] == "REDIRECT" and i + 1 < len(a):
                        redirect = args[i + 1]
                        i += 2
                    else:
                        options.append(a[i])
                        i += 1
                return self._call(self._server.client_tracking, True, redirect, tuple(options))
            return self._call(self._server.client_tracking, False)
        raise ResponseError("unsupported command %r" % (args,))

    def delete(self, *keys):
        return self._call(self._server.delete, *[k.decode() if isinstance(k, bytes) else k for k in keys])

    def exists(self, key):
        return self._call(self._server.exists, key)

    def expire(self, key, ttl):
        return self._call(self._server.expire, key, ttl)

    def scan(self, cursor=0, match=None, count=None):
        return self._call(self._server.scan, int(cursor), match)

    def publish(self, channel, message):
        return self._call(self._server.publish, channel, message)

    def close(self):
        pass

    # -- used by the fake pottery -----------------------------------------------------------------
    def hset(self, key, field, value):
        return self._call(self._server.hset, key, field, value)

    def hset_many(self, key, mapping):
        return self._call(self._server.hset_many, key, mapping)

    def hget(self, key, field):
        return self._call(self._server.hget, key, field)

    def hgetall(self, key):
        return self._call(self._server.hgetall, key)

    def hdel(self, key, field):
        return self._call(self._server.hdel, key, field)

    def hlen(self, key):
        return self._call(self._server.hlen, key)

    def hexists(self, key, field):
        return self._call(self._server.hexists, key, field)

    def rpush(self, key, *values):
        return self._call(self._server.rpush, key, *values)

    def llen(self, key):
        return self._call(self._server.llen, key)

    def lrange(self, key, start, stop):
        return self._call(self._server.lrange, key, start, stop)

    def lindex(self, key, index):
        return self._call(self._server.lindex, key, index)

    def lset(self, key, index, value):
        return self._call(self._server.lset, key, index, value)
