"""
Fake `pottery`: RedisDict and RedisList with pottery's observable semantics
(JSON-encoded keys and members, KeyExistsError when populating over an
existing key, slices return lists, returned values are decoded copies).
"""
import json
from collections.abc import MutableMapping, MutableSequence


class PotteryError(Exception):
    pass


class KeyExistsError(PotteryError):
    def __init__(self, redis, key):
        PotteryError.__init__(self, "redis=%r key=%r" % (redis, key))


def _enc(v):
    return json.dumps(v, sort_keys=True)


def _dec(s):
    return json.loads(s)


class RedisDict(MutableMapping):
    def __init__(self, arg=None, *, redis=None, key=None, **kwargs):
        self.redis = redis
        self.key = key
        if arg or kwargs:
            if self.redis.exists(self.key):
                raise KeyExistsError(redis, key)
            items = dict(arg or {}, **kwargs)
            # pottery populates inside one transaction: one atomic command here
            self.redis.hset_many(self.key, {_enc(k): _enc(v) for k, v in items.items()})

    def update(self, arg=(), **kwargs):
        items = dict(arg, **kwargs)
        if items:
            self.redis.hset_many(self.key, {_enc(k): _enc(v) for k, v in items.items()})

    _snap = None

    def __getitem__(self, k):
        # A whole-value read (dict(d), d.items()) is ONE server command: the members fetched by __iter__ are served
        # from that reply as long as this connection has issued no other command since.
        snap = self._snap
        if snap is not None:
            if snap[1] == self.redis._ncmds and _enc(k) in snap[0]:
                return _dec(snap[0][_enc(k)])
            self._snap = None
        v = self.redis.hget(self.key, _enc(k))
        if v is None:
            raise KeyError(k)
        return _dec(v)

    def __setitem__(self, k, v):
        self.redis.hset(self.key, _enc(k), _enc(v))

    def __delitem__(self, k):
        if not self.redis.hdel(self.key, _enc(k)):
            raise KeyError(k)

    def __iter__(self):
        snap = self.redis.hgetall(self.key) or {}
        self._snap = (snap, self.redis._ncmds)
        return iter([_dec(k) for k in snap.keys()])

    def __len__(self):
        return self.redis.hlen(self.key) or 0

    def __contains__(self, k):
        try:
            return bool(self.redis.hexists(self.key, _enc(k)))
        except TypeError:
            return False

    def __repr__(self):
        return "RedisDict%r" % (self.to_dict(),)

    def to_dict(self):
        return {_dec(k): _dec(v) for k, v in (self.redis.hgetall(self.key) or {}).items()}

    def __eq__(self, other):
        if isinstance(other, RedisDict):
            return self.to_dict() == other.to_dict()
        if isinstance(other, dict):
            return self.to_dict() == other
        return NotImplemented


class RedisList(MutableSequence):
    def __init__(self, iterable=(), *, redis=None, key=None):
        self.redis = redis
        self.key = key
        items = list(iterable)
        if items:
            if self.redis.exists(self.key):
                raise KeyExistsError(redis, key)
            self.redis.rpush(self.key, *[_enc(v) for v in items])

    def __len__(self):
        return self.redis.llen(self.key) or 0

    def __getitem__(self, i):
        if isinstance(i, slice):
            vals = [_dec(v) for v in self.redis.lrange(self.key, 0, -1)]
            return vals[i]
        n = len(self)
        if i < 0:
            i += n
        if not 0 <= i < n:
            raise IndexError("list index out of range")
        return _dec(self.redis.lindex(self.key, i))

    def __setitem__(self, i, v):
        if isinstance(i, slice):
            raise NotImplementedError("slice assignment")
        n = len(self)
        if i < 0:
            i += n
        if not 0 <= i < n:
            raise IndexError("list assignment index out of range")
        self.redis.lset(self.key, i, _enc(v))

    def __delitem__(self, i):
        raise NotImplementedError("deleting list members is not used by the repository")

    def insert(self, i, v):
        if i >= len(self):
            self.redis.rpush(self.key, _enc(v))
        else:
            raise NotImplementedError("insert before the end is not used by the repository")

    def append(self, v):
        self.redis.rpush(self.key, _enc(v))

    def extend(self, vs):
        vs = [_enc(v) for v in vs]
        if vs:
            self.redis.rpush(self.key, *vs)

    def __iter__(self):
        return iter([_dec(v) for v in self.redis.lrange(self.key, 0, -1)])

    def __repr__(self):
        return "RedisList%r" % (list(self),)

    def __eq__(self, other):
        if isinstance(other, (RedisList, list)):
            return list(self) == list(other)
        return NotImplemented
