class BasicProperties(object):
    __slots__ = ("content_type", "content_encoding", "headers", "delivery_mode", "priority",
                 "correlation_id", "reply_to", "expiration", "message_id", "timestamp", "type",
                 "user_id", "app_id", "cluster_id")

    def __init__(self, content_type=None, content_encoding=None, headers=None, delivery_mode=None,
                 priority=None, correlation_id=None, reply_to=None, expiration=None, message_id=None,
                 timestamp=None, type=None, user_id=None, app_id=None, cluster_id=None):
        self.content_type = content_type
        self.content_encoding = content_encoding
        self.headers = headers
        self.delivery_mode = delivery_mode
        self.priority = priority
        self.correlation_id = correlation_id
        self.reply_to = reply_to
        # pika validates: expiration must be a str (or None)
        if expiration is not None and not isinstance(expiration, str):
            raise TypeError("expiration must be a str")
        self.expiration = expiration
        self.message_id = message_id
        self.timestamp = timestamp
        self.type = type
        self.user_id = user_id
        self.app_id = app_id
        self.cluster_id = cluster_id

    def as_dict(self):
        return {k: getattr(self, k) for k in self.__slots__}

    def __repr__(self):
        return "<BasicProperties %s>" % ({k: v for k, v in self.as_dict().items() if v is not None},)


class _Method(object):
    def __repr__(self):
        return "<%s %s>" % (type(self).__name__, self.__dict__)


class Basic(object):
    class Deliver(_Method):
        def __init__(self, consumer_tag=None, delivery_tag=None, redelivered=False, exchange=None,
                     routing_key=None):
            self.consumer_tag = consumer_tag
            self.delivery_tag = delivery_tag
            self.redelivered = redelivered
            self.exchange = exchange
            self.routing_key = routing_key

    class Return(_Method):
        def __init__(self, reply_code=0, reply_text="", exchange=None, routing_key=None):
            self.reply_code = reply_code
            self.reply_text = reply_text
            self.exchange = exchange
            self.routing_key = routing_key

    class Ack(_Method):
        def __init__(self, delivery_tag=0, multiple=False):
            self.delivery_tag = delivery_tag
            self.multiple = multiple

    class Nack(_Method):
        def __init__(self, delivery_tag=0, multiple=False, requeue=True):
            self.delivery_tag = delivery_tag
            self.multiple = multiple
            self.requeue = requeue

    class ConsumeOk(_Method):
        def __init__(self, consumer_tag=None):
            self.consumer_tag = consumer_tag

    class QosOk(_Method):
        pass


class Queue(object):
    class DeclareOk(_Method):
        def __init__(self, queue="", message_count=0, consumer_count=0):
            self.queue = queue
            self.message_count = message_count
            self.consumer_count = consumer_count

    class BindOk(_Method):
        pass


class Exchange(object):
    class DeclareOk(_Method):
        pass


class Frame(object):
    def __init__(self, method):
        self.method = method
