"""
Client side channel of the fake pika.  One class serves the asyncio adapter
(`callback=` completions delivered later through the node's loop) and, through
BlockingChannel in adapters/blocking_connection.py, the blocking adapter.
"""
from pika import spec, exceptions
from lsfsim.core import Sim, SimCrash
from lsfsim.broker import BrokerClose


class _CallbackManager(object):
    def __init__(self, chan):
        self._chan = chan

    def remove(self, prefix, key, callback_value=None, arguments=None):
        if key == "_on_channel_close":
            try:
                self._chan._on_close_cbs.remove(callback_value)
                return True
            except ValueError:
                return False
        return False


class Channel(object):
    def __init__(self, connection, on_open_callback=None):
        self.connection = connection
        self._sim = connection._sim
        self._node = connection._node
        self._rec = self._sim.broker.open_channel(connection, self._node)
        self._rec.owner = self
        self.channel_number = self._rec.number
        self.callbacks = _CallbackManager(self)
        self._on_close_cbs = []
        self._on_return_cbs = []
        self._confirm_cb = None
        self._pub_seq = 0
        connection._channels.append(self)
        if on_open_callback is not None:
            self._later(on_open_callback, self)

    # -- helpers ---------------------------------------------------------------
    @property
    def is_open(self):
        return self._rec.open and not self.connection._dead

    @property
    def is_closed(self):
        return not self.is_open

    def _later(self, cb, *args):
        self._sim.call_soon(lambda: cb(*args), self._node, label="pika-cb")

    def _enter(self, name):
        self._sim.broker.pre_op(name, self._node)
        if self.connection._dead:
            raise SimCrash()
        if not self._rec.open:
            raise exceptions.ChannelWrongStateError("Channel is closed.")

    def _leave(self, name):
        self._sim.broker.post_op(name, self._node)

    def _broker_exception(self, e):
        """A channel-level protocol error: the broker closes the channel."""
        self._sim.broker.broker_close_channel(self._rec, e.code, e.text)

    def _closed_by_broker(self, code, text):
        exc = exceptions.ChannelClosedByBroker(code, text)
        for cb in list(self._on_close_cbs):
            self._later(cb, self, exc)

    def _call(self, name, fn, callback, frame_of):
        self._enter(name)
        try:
            res = fn()
        except BrokerClose as e:
            self._broker_exception(e)
            self._leave(name)
            return None
        if callback is not None:
            self._later(callback, spec.Frame(frame_of(res)))
        self._leave(name)
        return res

    # -- pika API ----------------------------------------------------------------
    def add_on_close_callback(self, callback):
        self._on_close_cbs.append(callback)

    def add_on_return_callback(self, callback):
        self._on_return_cbs.append(callback)

    def add_on_cancel_callback(self, callback):
        pass

    def exchange_declare(self, exchange, exchange_type="direct", passive=False, durable=False,
                         auto_delete=False, internal=False, arguments=None, callback=None):
        b = self._sim.broker
        return self._call("exchange_declare",
                          lambda: b.exchange_declare(self._rec, exchange, exchange_type, passive, durable,
                                                     auto_delete, internal, arguments),
                          callback, lambda r: spec.Exchange.DeclareOk())

    def queue_declare(self, queue, passive=False, durable=False, exclusive=False, auto_delete=False,
                      arguments=None, callback=None):
        b = self._sim.broker
        return self._call("queue_declare",
                          lambda: b.queue_declare(self._rec, queue, passive, durable, exclusive, auto_delete,
                                                  arguments),
                          callback, lambda r: spec.Queue.DeclareOk(r[0], r[1], r[2]))

    def queue_bind(self, queue, exchange, routing_key=None, arguments=None, callback=None):
        b = self._sim.broker
        return self._call("queue_bind",
                          lambda: b.queue_bind(self._rec, queue, exchange, routing_key, arguments),
                          callback, lambda r: spec.Queue.BindOk())

    def basic_qos(self, prefetch_size=0, prefetch_count=0, global_qos=False, callback=None):
        b = self._sim.broker
        return self._call("basic_qos", lambda: b.basic_qos(self._rec, prefetch_count),
                          callback, lambda r: spec.Basic.QosOk())

    def basic_consume(self, queue, on_message_callback, auto_ack=False, exclusive=False,
                      consumer_tag=None, arguments=None, callback=None):
        b = self._sim.broker

        def deliver(rec, tag, msg, cons):
            method = spec.Basic.Deliver(cons.tag, tag, msg.redelivered, msg.exchange, msg.routing_key)
            on_message_callback(self, method, msg.props, msg.body)

        return self._call("basic_consume",
                          lambda: b.basic_consume(self._rec, queue, deliver, auto_ack, exclusive,
                                                  consumer_tag, arguments),
                          callback, lambda r: spec.Basic.ConsumeOk(r))

    def basic_publish(self, exchange, routing_key, body, properties=None, mandatory=False):
        self._enter("basic_publish")
        if properties is None:
            properties = spec.BasicProperties()
        if not isinstance(body, (bytes, str)):
            raise TypeError("body must be bytes or str")
        self._pub_seq += 1
        seqno = self._pub_seq
        try:
            status, uid = self._sim.broker.basic_publish(self._rec, exchange, routing_key, body, properties,
                                                         mandatory)
        except BrokerClose as e:
            self._broker_exception(e)
            self._leave("basic_publish")
            return
        if status == "returned":
            bbody = body.encode("utf-8") if isinstance(body, str) else body
            method = spec.Basic.Return(312, "NO_ROUTE", exchange, routing_key)
            for cb in list(self._on_return_cbs):
                self._later(cb, self, method, properties, bbody)
        if self._confirm_cb is not None:
            self._later(self._confirm_cb, spec.Frame(spec.Basic.Ack(seqno, False)))
        self._leave("basic_publish")

    def basic_ack(self, delivery_tag=0, multiple=False):
        self._enter("basic_ack")
        try:
            self._sim.broker.basic_ack(self._rec, delivery_tag, multiple)
        except BrokerClose as e:
            self._broker_exception(e)
        self._leave("basic_ack")

    def basic_nack(self, delivery_tag=0, multiple=False, requeue=True):
        raise NotImplementedError("basic_nack is not used by the repository")

    def basic_recover(self, requeue=False, callback=None):
        self._enter("basic_recover")
        self._sim.broker.basic_recover(self._rec, requeue)
        self._leave("basic_recover")

    def confirm_delivery(self, ack_nack_callback=None, callback=None):
        self._enter("confirm_delivery")
        self._confirm_cb = ack_nack_callback
        self._rec.confirm = True

    def close(self, reply_code=0, reply_text="Normal shutdown"):
        self._enter("channel_close")
        self._sim.broker.close_channel(self._rec, reason="client")
        exc = exceptions.ChannelClosedByClient(reply_code, reply_text)
        for cb in list(self._on_close_cbs):
            self._later(cb, self, exc)
        self._leave("channel_close")
