class AMQPError(Exception):
    pass


class AMQPConnectionError(AMQPError):
    pass


class IncompatibleProtocolError(AMQPConnectionError):
    pass


class ConnectionClosed(AMQPConnectionError):
    def __init__(self, reply_code=0, reply_text=""):
        AMQPConnectionError.__init__(self, int(reply_code), str(reply_text))

    @property
    def reply_code(self):
        return self.args[0]

    @property
    def reply_text(self):
        return self.args[1]


class ConnectionClosedByBroker(ConnectionClosed):
    pass


class ConnectionWrongStateError(AMQPConnectionError):
    pass


class AMQPChannelError(AMQPError):
    pass


class ChannelWrongStateError(AMQPChannelError):
    pass


class ChannelClosed(AMQPChannelError):
    def __init__(self, reply_code, reply_text):
        AMQPChannelError.__init__(self, int(reply_code), str(reply_text))

    @property
    def reply_code(self):
        return self.args[0]

    @property
    def reply_text(self):
        return self.args[1]


class ChannelClosedByBroker(ChannelClosed):
    pass


class ChannelClosedByClient(ChannelClosed):
    pass


class NackError(AMQPChannelError):
    def __init__(self, messages):
        AMQPChannelError.__init__(self, messages)
        self.messages = messages


class UnroutableError(AMQPChannelError):
    def __init__(self, messages):
        AMQPChannelError.__init__(self, messages)
        self.messages = messages
