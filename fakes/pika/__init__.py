"""
Fake `pika`: the client-library surface used by the repository, backed by the
in-process broker model of lsfsim.  See /verif/DESIGN.md section 1.
"""
from pika import compat, exceptions, spec, channel  # noqa: F401
from pika.spec import BasicProperties  # noqa: F401
from pika.connection import URLParameters, ConnectionParameters  # noqa: F401
from pika.adapters.blocking_connection import BlockingConnection  # noqa: F401
from pika import adapters  # noqa: F401

__version__ = "1.3.2-lsfsim"
