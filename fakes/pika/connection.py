from urllib.parse import urlparse, parse_qs


class ConnectionParameters(object):
    def __init__(self, host="localhost", port=5672, connection_attempts=1, retry_delay=2.0, heartbeat=None):
        self.host = host
        self.port = port
        self.connection_attempts = connection_attempts
        self.retry_delay = retry_delay
        self.heartbeat = heartbeat


class URLParameters(ConnectionParameters):
    def __init__(self, url):
        p = urlparse(url)
        q = parse_qs(p.query)
        ConnectionParameters.__init__(
            self,
            host=p.hostname or "localhost",
            port=p.port or 5672,
            connection_attempts=int(q.get("connection_attempts", ["1"])[0]),
            retry_delay=float(q.get("retry_delay", ["2.0"])[0]),
            heartbeat=q.get("heartbeat", [None])[0],
        )
        self.url = url
