from pika.adapters import asyncio_connection, blocking_connection  # noqa: F401
from pika.adapters.blocking_connection import BlockingConnection  # noqa: F401
