from pika import spec, exceptions
from pika.adapters.base import SimConnectionBase
from pika.channel import Channel
from lsfsim.core import SimStop
from lsfsim.broker import BrokerClose


class BlockingChannel(Channel):
    """Synchronous facade: results are returned, broker errors are raised."""

    def __init__(self, connection):
        Channel.__init__(self, connection, None)
        self._impl = self

    def _broker_exception(self, e):
        self._sim.broker.close_channel(self._rec, reason="%d" % e.code)
        raise exceptions.ChannelClosedByBroker(e.code, e.text)

    def _call(self, name, fn, callback, frame_of):
        self._enter(name)
        try:
            res = fn()
        except BrokerClose as e:
            self._broker_exception(e)
        self._leave(name)
        return spec.Frame(frame_of(res))

    def confirm_delivery(self, ack_nack_callback=None, callback=None):
        Channel.confirm_delivery(self, ack_nack_callback)

    def start_consuming(self):
        self._enter("start_consuming")
        raise SimStop()

    def stop_consuming(self):
        pass


class BlockingConnection(SimConnectionBase):
    def __init__(self, parameters=None):
        SimConnectionBase.__init__(self, parameters)
        self._impl = self

    def channel(self, channel_number=None):
        self._check()
        return BlockingChannel(self)

    def call_later(self, delay, callback):
        return self._timer(delay, callback)

    def remove_timeout(self, timeout_id):
        timeout_id.cancel()

    def add_callback_threadsafe(self, callback):
        self._check()
        self._sim.call_soon(callback, self._node, label="threadsafe")

    def process_data_events(self, time_limit=0):
        pass
