from lsfsim.core import Sim, SimCrash


class SimConnectionBase(object):
    def __init__(self, parameters):
        self._sim = Sim.current
        self._node = self._sim.current_node
        self.params = parameters
        self._dead = False
        self._closed = False
        self._channels = []
        self._on_close_cbs = []
        node = self._sim.nodes.get(self._node)
        if node is not None:
            node.connections.append(self)
        self._sim.broker.op("connection_open", self._node)

    @property
    def is_open(self):
        return not self._dead and not self._closed

    @property
    def is_closed(self):
        return not self.is_open

    def _check(self):
        n = self._sim.nodes.get(self._node)
        if self._dead or (n is not None and n.dead):
            raise SimCrash()

    def _timer(self, delay, callback):
        self._check()
        name = getattr(callback, "__name__", "cb")
        it = self._sim.call_later(delay, callback, self._node, kind="timer", label=name)
        if name == "heartbeat":
            it.periodic = True
        return it

    def _kill(self):
        """Process death: no client callback runs, broker requeues unacked deliveries."""
        self._dead = True
        for ch in self._channels:
            self._sim.broker.close_channel(ch._rec, reason="crash")

    def add_on_close_callback(self, callback):
        self._on_close_cbs.append(callback)

    def close(self, reply_code=200, reply_text="Normal shutdown"):
        self._check()
        self._closed = True
        for ch in self._channels:
            self._sim.broker.close_channel(ch._rec, reason="connection-close")
