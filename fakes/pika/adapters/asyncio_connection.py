from pika.adapters.base import SimConnectionBase
from pika.channel import Channel


class AsyncioConnection(SimConnectionBase):
    def __init__(self, parameters=None, on_open_callback=None, on_open_error_callback=None,
                 on_close_callback=None, custom_ioloop=None, internal_connection_workflow=True):
        SimConnectionBase.__init__(self, parameters)
        if on_close_callback is not None:
            self._on_close_cbs.append(on_close_callback)
        if on_open_callback is not None:
            self._sim.call_soon(lambda: on_open_callback(self), self._node, label="conn-open")

    def add_on_open_error_callback(self, callback):
        pass

    def channel(self, channel_number=None, on_open_callback=None):
        self._check()
        return Channel(self, on_open_callback)

    def _adapter_call_later(self, delay, callback):
        return self._timer(delay, callback)

    def _adapter_remove_timeout(self, timeout_id):
        timeout_id.cancel()

    def _adapter_add_callback_threadsafe(self, callback):
        self._check()
        self._sim.call_soon(callback, self._node, label="threadsafe")
