from urllib.parse import urlparse, unquote, parse_qs  # noqa: F401
