"""Regenerates MANIFEST.json from the table below (keeps it valid by construction)."""
import json

NOTE_BASE = ("Trusted base: the in-process fakes of pika/RabbitMQ (fakes/pika, lsfsim/broker.py), of the task workers, "
             "subscriber and API clients (lsfsim/peers.py), the virtual-time asyncio loop and clock/uuid/TZ seams "
             "(lsfsim/loop.py, lsfsim/patches.py)")

CHECKS = {
    "C01": dict(level="exploration",
                text="Seeded search: thousands of generated (state machine, input, scripted task outcomes) triples per run "
                     "are executed by the real engine/API/messaging code inside the deterministic simulator under the "
                     "canonical schedule and compared with an independent reference interpreter of the States Language; "
                     "order-independent triples are re-run under non-canonical schedules. A clean batch is evidence over "
                     "the sampled programs, not a proof."
                     " Families include Catch on the Map/Parallel state itself and the service-integration form of Tasks.",
                ref="5/C01", note=NOTE_BASE + "; the reference interpreter model/asl.py.",
                technique="deterministic simulation: seeded program generation + differential check against a reference "
                          "interpreter on the simulated stack"),
    "C02": dict(level="exploration",
                text="Seeded search over schedules: 1-4 concurrent generated executions per simulated run under shuffle/"
                     "PCT/latency schedule policies; the notification sequence of every execution and the stored record "
                     "are monitored after every scheduler step, and bounded liveness is checked at quiescence; file store "
                     "(one instance) and Redis store (1-2 instances), both transports; a second slice runs executions that "
                     "last about as long as or longer than execution_ttl, so that the stored record expires under them."
                     " Further slices: parents that launch child executions in every form (children ending by their own deadline, failure or the parent's time-out), start events published by a client straight to the event queue (with and without a message id), machines with a loggingConfiguration, wall-clock jumps (also with fan-outs nested three deep whose branches all reach the deadline at one instant), a StartSyncExecution that outlasts the front end's waiting limit.",
                ref="5/C02, 9.2", note=NOTE_BASE + ". No crashes injected (C04 owns them); failing cases are minimised "
                                                  "(checks/minimise.py) and replayed in a fresh process.",
                technique="deterministic simulation: seeded schedule exploration with run-time monitors"),
    "C03": dict(level="exploration",
                text="Seeded search over schedules with the broker model as observation point: the carrier invariant is "
                     "evaluated after every acknowledge/publish an engine issues, exactly-once acknowledgement is "
                     "enforced by the broker model, a Basic.Ack(multiple=True) that settles other deliveries is flagged, "
                     "uninterpretable messages are injected on the shared, instance and reply queues, and the drain "
                     "condition is checked at quiescence."
                     " Further slices: task-token callback streams that leave orphaned responses, child launches (the child's start event is published before the launching event is acknowledged), a Task whose function queue does not exist (returned request), raw start events.",
                ref="5/C03, 9.2", note=NOTE_BASE + ".",
                technique="deterministic simulation: invariant checked at every simulated broker operation"),
}

CHECKS.update({
    "C05": dict(level="exploration",
                text="Seeded search over schedules for generated successful Parallel/Map programs (differential against "
                     "the reference model: positional results, request multiset) with barrier / exactly-once / "
                     "MaxConcurrency monitors on the stream of history updates; plus the complete set of completion-order "
                     "permutations for fan-out <= 4 x every MaxConcurrency (that slice is enumerated exhaustively)."
                     " Further slices: the same fan-out state entered several times by a loop; an error caught inside an iteration whose fallback outlasts its siblings / its MaxConcurrency batch; several instances of one batched Map side by side; Maps of 41-100 items around MaxConcurrency 40. Request instants are compared with the reference model (equal under zero-latency schedules, never earlier otherwise): the concurrency bound as the workers see it, at any nesting depth.",
                ref="5/C05", note=NOTE_BASE + "; reference interpreter model/asl.py.",
                technique="deterministic simulation: seeded schedule exploration + enumerated completion orders, "
                          "monitors and reference model"),
    "C06": dict(level="exploration",
                text="Seeded search over schedules and failure assignments for generated non-nested Parallel/Map "
                     "programs with one, several or all failing branches; notification, sibling-silence, history-after-"
                     "end, exactly-once-ack and drain monitors; outcome compared with the reference model's accept set."
                     " A further slice places the branch failure shortly before the execution deadline with a sibling event in flight (fixed message latency).",
                ref="5/C06", note=NOTE_BASE + ". Nested fan-out failures and Retry/Catch on the fan-out state itself "
                                             "are outside the generated region (recorded findings, probe).",
                technique="deterministic simulation: seeded fault (task failure) and schedule exploration with monitors"),
    "C09": dict(level="exploration",
                text="History well-formedness monitor validated incrementally after every scheduler step of generated "
                     "executions (all state types, failures, retries, fan-out) under seeded schedules; end-of-run "
                     "agreement with the record, the model's transitions and GetExecutionHistory in both orders."
                     " Includes Map/Parallel states retried or caught as a whole and machines with a loggingConfiguration; under the canonical schedule the StateEntered multiset is compared with the model also for failing fan-outs (cancelled siblings struck out).",
                ref="5/C09", note=NOTE_BASE + "; reference interpreter for the expected transitions.",
                technique="deterministic simulation: history invariant monitor on every simulated step"),
})

CHECKS.update({
    "C04": dict(level="fault_enumeration",
                text="Fault enumeration over simulated runs: for every scenario of a hand-written corpus the crash-free "
                     "run is recorded and one engine crash + restart (only durable state survives: broker queues, "
                     "persistent messages, the JSON store file; unacknowledged deliveries are redelivered) is injected "
                     "after EVERY scheduler step and after EVERY broker operation of that run; no-loss, no-duplicate-"
                     "request and outcome-preservation oracles. The crash-point set of each scenario run is enumerated "
                     "completely; scenarios, schedules and down-times are sampled. A second, sampled slice injects 2-4 "
                     "crashes per run (some inside the recovery from the previous one) over file/Redis stores, both "
                     "transports, 1-2 instances and five schedule policies, with the same oracles plus DescribeExecution "
                     "after the last restart. For crashes between two handlings no (function, payload) may be requested more "
                     "often than in the crash-free run, no reply delivered to the restarted engine may stay unacknowledged, "
                     "and a third sampled slice places crashes around task-token callbacks (an accepted callback completes "
                     "its task). The corpus includes an execution started by a raw start event and parents waiting for .sync children. Fault 'prefetched-unhandled': messages the broker had pushed to the dying consumer within its prefetch window come back flagged redelivered although never handled (every second idle crash point repeated with it at quick tier, all at thorough; sampled in the multi-crash slice). A recorded in-memory situation only counts as the recorded finding if the run also ends like one (States.Timeout).",
                ref="5/C04, 9.2", note=NOTE_BASE + "; the enumerated slice uses a single asyncio instance with the "
                                                  "file-backed store; workers keep replying while the engine is down.",
                technique="deterministic simulation with crash/restart fault injection enumerated over every crash point "
                          "of recorded runs"),
    "C07": dict(level="exploration",
                text="Seeded search over retrier/catcher lists and scripted error sequences on the virtual clock: "
                     "request instants, terminal instant and outcome compared with a reference error-handling model "
                     "(exact under zero latency, never-early under latency); publish monitor for leaked retry counters. "
                     "Hand-shaped families: a Map with MaxConcurrency batches retried/caught as a whole with the failing "
                     "item in any batch, a Parallel retried/caught while siblings wait (their Task.Terminated must not be "
                     "retried or caught); under the canonical schedule requests are compared for failing fan-outs too.",
                ref="5/C07", note=NOTE_BASE + "; reference model model/asl.py (per-retrier counters).",
                technique="deterministic simulation: virtual-time differential check against a reference retry/catch model"),
    "C08": dict(level="exploration",
                text="Virtual-clock comparison of every Wait exit, task request and terminal instant with the reference "
                     "model for generated programs full of waits and time-outs (exact at zero latency; never early under "
                     "latency or an injected engine stall), plus the complete enumeration of all 2879 UTC offsets for "
                     "Wait TimestampPath and Choice timestamp comparisons; Waits and time-outs inside Parallel/Map "
                     "(MaxConcurrency batches), a deadline oracle for the machine TimeoutSeconds, and a slice of coinciding "
                     "Task/machine deadlines and of events a stalled engine receives only after the deadlines; timers of days (Wait, Task time-out, a cancelled multi-day Wait in a Parallel) and a machine TimeoutSeconds above execution_ttl.",
                ref="5/C08, 9.2", note=NOTE_BASE + "; exact ties between a reply and a deadline are excluded.",
                technique="deterministic simulation: discrete-event virtual time, stall faults, enumerated offset slice"),
})

CHECKS.update({
    "C10": dict(level="exploration",
                text="Seeded API call sequences (valid and invalid arguments, wrong JSON types, non-object bodies) through "
                     "the real Quart and Flask front ends of an engine running in the simulator, compared response by "
                     "response with a dict reference model; store snapshots around every rejected call; no 5xx accepted; "
                     "failing sequences minimised by ddmin and replayable. Motif: run, redefine (also fan-out definitions), run again. A further slice runs machines that do real work (retries, catches, fan-outs) and describes them afterwards: the stored definition is what was created.",
                ref="5/C10", note=NOTE_BASE + "; reference model model/api.py; file-backed store, one instance.",
                technique="deterministic simulation: seeded operation histories against a reference model (differential), "
                          "ddmin minimisation"),
})

CHECKS.update({
    "C16": dict(level="exploration",
                text="Boundary enumeration driven through the simulated system: JSON texts of size L-2..L+2 (and far below/"
                     "above) delivered to every enforcement point - API inputs, callback output, Pass/Task/Map/Parallel "
                     "state output, task reply - in several text shapes (string, whitespace-padded, compact, nested) at the API "
                     "boundaries, plus definition size, name length/characters and the history limit (reached by a loop and "
                     "by retries alone); an input accepted at the limit must run. Weak "
                     "fit for the technique (the comparison has no schedule in it); the simulator is what makes the "
                     "enforcement points reachable at all.",
                ref="5/C16", note=NOTE_BASE + "; ASCII payloads only.",
                technique="deterministic simulation used to reach the enforcement points; exhaustive +-2 size windows"),
})

CHECKS.update({
    "C17": dict(level="exploration",
                text="Seeded names over an alphabet with every ARN-significant/forbidden character pushed through the API "
                     "(and names made of the ARN's own vocabulary) and, bypassing its validators, through child launches; linkage monitor over the StartExecution "
                     "response, notifications, stored record, EXPRESS derivation and the record re-created after an "
                     "injected crash/restart; parse/create inversion on every minted ARN.",
                ref="5/C17", note=NOTE_BASE + ". The time-out backstop derivation path is not driven.",
                technique="deterministic simulation: seeded inputs with crash/restart, ARN linkage monitor"),
    "C18": dict(level="exploration",
                text="Seeded mutation of well-formed machines (incl. names duplicated across sibling sub-machines and legal but "
                     "awkward state names) and arbitrary JSON values: each goes to the bundled validator "
                     "(must return a list) and is started beside a healthy execution together with garbage messages on "
                     "the event queue, under a seeded schedule; accepted-implies-runs, poison-isolation and liveness "
                     "oracles. A validator-only sweep puts every JSON type into every field of a machine that uses every "
                     "state type, Retry and Catch; every corpus machine also runs unmutated. A rejected definition left "
                     "RUNNING for ever is a finding classified by where the exception got out (the reply-callback and "
                     "dispatcher-drop classes are recorded, anything else is reported).",
                ref="5/C18, 9.3", note=NOTE_BASE + ".",
                technique="deterministic simulation: seeded mutation/poison injection beside a healthy workload"),
})

CHECKS.update({
    "C15": dict(level="exploration",
                text="Seeded search over parent/child machine pairs (all integration forms, child outcomes, placements, "
                     "workflow types, invalid combinations) and task-token callback streams interleaved by the simulated "
                     "scheduler; result-shape, completion-instant, exactly-once-completion, InvalidToken and cancellation-"
                     "propagation oracles; a child that runs into its own time-out; callbacks through the API of a second instance "
                     "(Redis store), also with dashed instance ids.",
                ref="5/C15", note=NOTE_BASE + ".",
                technique="deterministic simulation: seeded scenario/schedule exploration with virtual-time oracles"),
})

CHECKS.update({
    "C19": dict(level="exploration",
                text="Seeded multi-instance runs (1-3 engines, both transports, classic/quorum queues) with an affinity "
                     "monitor on every publish and delivery of the simulated broker's operation log (every child-launch form: "
                     "synchronous children stay on the launching instance, API start events go to the shared queue), poison messages with a rule against acknowledgements "
                     "that cover other deliveries, an exclusive-consumer "
                     "probe (twin instance), and the address/message/acknowledge mapping of the real Producer/Consumer/"
                     "Message classes of both messaging modules against an independent reading of the address grammar.",
                ref="5/C19", note=NOTE_BASE + "; 'the wire' is the pika API boundary; instances share no store (preloaded "
                                             "store files).",
                technique="deterministic simulation: multi-node runs with a broker-log monitor; differential transport check"),
})

CHECKS.update({
    "C20": dict(level="exploration",
                text="Seeded operation sequences against the real JSONStore / SimpleStore / RedisDictStore / RedisListStore "
                     "(simulated disk and Redis server) with a dict model: one or two client processes, every placement of "
                     "invalidation delivery between operations and - the tracker being a thread - inside reads, cache size / "
                     "SCAN page / server version knobs, crashes inside writes (torn, truncated, before rename, between two "
                     "Redis commands), ENOSPC/EIO, garbage file, TTL on the virtual clock; plus the running engine: "
                     "create/update/delete through REST with a crash and restart, TTL of records and histories, cached "
                     "definition of a second instance after an update, factory selection.",
                ref="5/C20", note=NOTE_BASE + "; redis and pottery are not installed anywhere in the sandbox, so RedisDict/"
                                             "RedisList/Redis are in-process fakes with the documented semantics (the "
                                             "store classes above them are the real code).",
                technique="deterministic simulation: seeded operation/fault/delivery sequences vs reference model, ddmin"),
})

CHECKS.update({
    "C11": dict(level="exploration",
                text="The executions generated for C01-C07 run under seeded schedules with a cross-surface monitor: stored "
                     "record, stored history and every notification at the moment it is published are compared at publish "
                     "time and after every scheduler step; the record is additionally read where another thread or instance "
                     "can really run (each Redis command boundary; a REST thread at each broker operation of the blocking "
                     "engine thread); a client polls DescribeExecution through a random instance around every status change; "
                     "a slice of rarely reached ends (output over the quota at a terminal state, execution time-out, ...); at "
                     "the end the REST handlers of every instance must agree with the store and each "
                     "other. Configurations: file/Redis x STANDARD/EXPRESS x 1-2 instances x both front ends. A crash slice (Redis store, "
                     "one crash at sampled points incl. right after the first publishes, with and without the "
                     "'prefetched-unhandled' broker fault) judges the final state: every status change announced at least "
                     "once, record / last notification / history tell the same end, nothing stored for EXPRESS.",
                ref="5/C11, 9.2", note=NOTE_BASE + "; fault-free runs except the crash slice; Redis/pottery are in-process fakes; file-backed runs use "
                                             "one instance because a file store is not shared.",
                technique="deterministic simulation: seeded schedules with an invariant monitor at every step and at "
                          "simulated pre-emption points"),
})

NA = [
    ("C12", "pure functions of (document, path, result): no schedule, clock, fault or interleaving to simulate"),
    ("C13", "pure function of (template, input, context): no schedule, clock, fault or interleaving to simulate"),
    ("C14", "pure function of (rule tree, input): no schedule, clock, fault or interleaving to simulate"),
]
NOT_YET = {}

FIX_COMMITS = []


def build():
    checks = []
    for pid in sorted(CHECKS):
        c = CHECKS[pid]
        checks.append({
            "property_id": pid,
            "quick_cmd": "VERIF_TIER=quick ./check %s" % pid,
            "thorough_cmd": "VERIF_TIER=thorough ./check %s" % pid,
            "evidence_file": "/verif/evidence/%s.json" % pid,
            "replay_cmd_template": "./check %s --replay {path}" % pid,
            "engine": "lsfsim",
            "level_claimed": {"category": c["level"], "text": c["text"], "design_ref": c["ref"]},
            "level_note": c["note"],
            "technique": c["technique"],
        })
    na = [{"property_id": p, "reason": r} for p, r in NA]
    for p, r in sorted(NOT_YET.items()):
        na.append({"property_id": p, "reason": r})
    return {
        "version": 1,
        "setup_cmd": "./check selftest",
        "hooks": {
            "guard": "LSF_VERIF_SIM",
            "enable": "no source hooks exist: the harness (lsfsim/patches.py) puts /verif/fakes (pika, redis, pottery) "
                      "first on sys.path and rebinds module attributes (time.time, datetime, uuid.uuid4, store.open, store.os, store.threading) at "
                      "import time; /repo is imported from its working tree on every run (VERIF_REPO, default /repo)",
            "baseline_off_cmd": "cd /repo && /venv/bin/python -m pytest -q -p no:cacheprovider --timeout=900",
            "source_commits": [],
            "add_only": True,
        },
        "engines": [{"name": "lsfsim", "path": "/verif/lsfsim", "serves_properties": sorted(CHECKS),
                     "kind_free_text": "deterministic discrete-event simulator (virtual clock, seeded scheduler, "
                                       "in-process AMQP broker/Redis/disk models, crash/restart, fault injection) "
                                       "running the real engine code"}],
        "checks": checks,
        "not_applicable": na,
        "notes": "Genuine defects found and repaired are listed in /verif/known_findings.json ('fixed'); recorded, "
                 "unrepaired ones under 'findings'. Properties not yet claimed are listed under not_applicable with the "
                 "reason 'check not built yet'.",
    }


if __name__ == "__main__":
    m = build()
    with open("/verif/MANIFEST.json", "w") as f:
        json.dump(m, f, indent=1)
    print("checks:", [c["property_id"] for c in m["checks"]])
