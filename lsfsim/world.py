"""
World: one simulated deployment (broker + N engine nodes + workers +
subscriber + API client + disk [+ redis]) for one seeded run.
"""
import json
import os

from lsfsim import patches
from lsfsim.core import Sim, HarnessError
from lsfsim.disk import Disk
from lsfsim.loop import SimLoop
from lsfsim.node import Node, make_config
from lsfsim.peers import Workers, Subscriber, ApiClient

REPO = os.environ.get("VERIF_REPO", "/repo")
REPO_PY = os.path.join(REPO, "asl-workflow-engine", "py")

LATENCY_PROFILES = {
    "zero": {},
    "small": {"pub": ("uniform_ms", 0, 20), "reply": ("uniform_ms", 0, 50), "inval": ("uniform_ms", 0, 30)},
    "heavy": {"pub": ("heavy_ms", 0, 30, 0.03, 4000), "reply": ("heavy_ms", 0, 80, 0.05, 6000),
              "inval": ("heavy_ms", 0, 50, 0.05, 3000)},
    "ties": {"pub": ("choice", [0.0, 0.0, 0.001]), "reply": ("choice", [0.0, 0.5, 1.0]),
             "inval": ("choice", [0.0, 0.0, 0.5])},
}


class World(object):
    def __init__(self, seed, policy="canonical", latency="zero", nodes=1, transport="asyncio",
                 store="file", queue_type="classic", execution_ttl=86400, tz="UTC0", script=None,
                 functions=(), validate_asl=False, caps=(1000, 1000, 100), orphan_ms=600000,
                 max_steps=200000, trace=False, worker_hook=None, message_ttl=0, region="local",
                 initial_store=None, crash_prefetch=0.0, instance_ids=None):
        patches.install(REPO_PY)
        patches.gc_point()
        lat = LATENCY_PROFILES[latency] if isinstance(latency, str) else latency
        self.sim = sim = Sim(seed, policy=policy, latency=lat, max_steps=max_steps)
        sim.trace_on = trace
        sim.crash_prefetch = crash_prefetch
        patches.per_run(sim, tz)
        sim.loop = SimLoop(sim)
        sim.disk = Disk()
        if initial_store is not None:
            sim.disk.files["ASL_store.json"] = initial_store
        self.redis_server = None
        if store == "redis":
            from lsfsim.redis_server import RedisServer
            self.redis_server = sim.redis_server = RedisServer(sim)
            store_url = "redis://localhost:6379"
        else:
            store_url = "ASL_store.json"
        self.store = store
        self.transport = transport
        sim.log("WORLD", seed, policy, latency if isinstance(latency, str) else "custom", nodes, transport, store,
                queue_type, execution_ttl, tz)
        self.subscriber = Subscriber(sim)
        self.workers = Workers(sim, script or {}, functions, hook=worker_hook)
        self.api = ApiClient(sim)
        self.nodes = []
        for i in range(nodes):
            # (instance ids are free text in the engine's configuration - the shipped one is a UUID; "inst<i>" unless
            # the scenario names them)
            cfg = make_config((instance_ids[i] if instance_ids and i < len(instance_ids) else "inst%d" % i), transport, store_url, queue_type, execution_ttl, region, validate_asl,
                              caps, orphan_ms, message_ttl)
            n = Node(sim, "n%d" % i, cfg)
            self.nodes.append(n)
        for n in self.nodes:
            n.boot()
        self.run_until(lambda: all(n.ready for n in self.nodes), limit=5.0, what="boot")

    # -- driving ---------------------------------------------------------------------
    def run_until(self, cond, limit=None, what="condition"):
        sim = self.sim
        end = None if limit is None else (sim.now - sim.epoch) + limit
        r = sim.run(until=end, stop_when=cond, quiesce=False)
        if not cond():
            raise HarnessError("%s not reached (%s) at t=%.3f steps=%d errors=%r" % (
                what, r, sim.now - sim.epoch, sim.steps, sim.errors[:3]))

    def run_quiescent(self, limit=None):
        sim = self.sim
        end = None if limit is None else (sim.now - sim.epoch) + limit
        return sim.run(until=end, quiesce=True)

    def run_for(self, seconds):
        sim = self.sim
        return sim.run(until=(sim.now - sim.epoch) + seconds, quiesce=False)

    def api_sync(self, node, action, params, raw_body=None, limit=3600.0):
        rec = self.api.call(node, action, params, raw_body)
        self.run_until(lambda: rec["done"], limit=limit, what="api %s" % action)
        return rec

    # -- conveniences ------------------------------------------------------------------
    ROLE = "arn:aws:iam::0123456789:role/service-role/MyRole"

    def create_machine(self, name, definition, type_="STANDARD", node=None, logging=None):
        params = {"name": name, "definition": json.dumps(definition), "roleArn": self.ROLE, "type": type_}
        if logging is not None:
            params["loggingConfiguration"] = logging
        rec = self.api_sync(node or self.nodes[0], "CreateStateMachine", params)
        if rec["status"] != 200:
            raise HarnessError("CreateStateMachine failed: %r" % (rec,))
        return rec["json"]["stateMachineArn"]

    def start(self, sm_arn, input_, name=None, node=None, wait=True):
        params = {"stateMachineArn": sm_arn, "input": json.dumps(input_)}
        if name is not None:
            params["name"] = name
        if wait:
            rec = self.api_sync(node or self.nodes[0], "StartExecution", params)
            if rec["status"] != 200:
                raise HarnessError("StartExecution failed: %r" % (rec,))
            return rec["json"]["executionArn"]
        return self.api.call(node or self.nodes[0], "StartExecution", params)

    def describe(self, exec_arn, node=None):
        rec = self.api_sync(node or self.nodes[0], "DescribeExecution", {"executionArn": exec_arn})
        return rec

    def terminal_events(self):
        out = {}
        for ev in self.subscriber.events:
            d = ev["body"]["detail"]
            if d["status"] != "RUNNING":
                out.setdefault(d["executionArn"], []).append(ev)
        return out
