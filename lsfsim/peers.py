"""
Sim-native peers: task workers (AMQP RPC processors), the notification
subscriber and API clients.  These are external parties, so they are stubs by
construction; their behaviour is fully scripted and deterministic.
"""
import json

from lsfsim.broker import ChanRec, BrokerClose
from lsfsim.core import SimCrash, HarnessError


class Props(object):
    """BasicProperties stand-in for native publishers (same attribute names)."""
    __slots__ = ("content_type", "content_encoding", "headers", "delivery_mode", "priority",
                 "correlation_id", "reply_to", "expiration", "message_id", "timestamp", "type",
                 "user_id", "app_id", "cluster_id")

    def __init__(self, **kw):
        for k in self.__slots__:
            setattr(self, k, kw.get(k))


class NativeChannel(object):
    def __init__(self, sim, name):
        self.sim = sim
        self.rec = sim.broker.open_channel(self, None)
        self.rec.owner = self
        self.name = name

    def _closed_by_broker(self, code, text):
        raise HarnessError("native channel %s closed by broker: %s %s" % (self.name, code, text))


def canon(v):
    return json.dumps(v, sort_keys=True, separators=(",", ":"))


# ---------------------------------------------------------------------------
# Worker scripts (shared with the reference model: model/asl.py imports
# worker_outcome from here so both sides evaluate the same function)
# ---------------------------------------------------------------------------
def apply_transform(tr, fn, payload):
    op = tr.get("op", "echo")
    if op == "echo":
        return payload
    if op == "const":
        return tr.get("value")
    if op == "wrap":
        return {"fn": fn, "in": payload}
    if op == "tag":
        return {"by": fn}
    if op == "len":
        return len(payload) if isinstance(payload, (list, dict, str)) else 0
    if op == "list":
        return [payload, fn]
    raise HarnessError("bad transform %r" % (tr,))


def worker_outcome(script, fn, payload, index):
    """
    script: {fn: [outcome, ...]} ; the index-th call with this exact payload
    gets outcome[min(index, len-1)].  Missing fn => {"ok": echo}.
    Returns a dict with keys: kind in {result,error,noreply,garbage}, value / errorType, errorMessage,
    delay, dup.
    """
    lst = script.get(fn)
    if not lst:
        lst = [{"ok": {"op": "echo"}}]
    o = lst[min(index, len(lst) - 1)]
    out = {"delay": o.get("delay", 0.0), "dup": bool(o.get("dup")), "late_extra": o.get("late_extra")}
    if o.get("delay_map"):
        out["delay"] = o["delay_map"].get(canon(payload), out["delay"])
    if "ok" in o:
        out["kind"] = "result"
        out["value"] = apply_transform(o["ok"], fn, payload)
    elif "err" in o:
        out["kind"] = "error"
        out["errorType"] = o["err"]
        out["errorMessage"] = o.get("msg", "boom:" + fn)    # "msg": None = an error reply without errorMessage
    elif o.get("garbage"):
        out["kind"] = "garbage"
    elif "raw" in o:
        out["kind"] = "raw"
        out["value"] = o["raw"]
    else:
        out["kind"] = "noreply"
    return out


class Workers(object):
    """All task workers of a run: one queue per function name."""

    def __init__(self, sim, script, functions=None, hook=None):
        self.sim = sim
        self.script = script
        self.chan = NativeChannel(sim, "workers")
        self.requests = []      # dicts: t, step, fn, payload, cid, reply_to, props, uid, redelivered
        self.replies = []       # dicts: t, cid, fn, kind
        self.counters = {}
        self.outstanding = {}   # cid -> count of scheduled, unsent replies
        self.hook = hook        # optional callable(worker, request) -> outcome override or None
        for fn in (functions or []):
            self.add_function(fn)

    def add_function(self, fn):
        b = self.sim.broker
        if fn in b.queues:
            return
        b.queue_declare(self.chan.rec, fn, durable=False, auto_delete=False)
        b.basic_qos(self.chan.rec, 0)
        b.basic_consume(self.chan.rec, fn, self._on_request)

    def _on_request(self, rec, tag, msg, cons):
        sim = self.sim
        sim.broker.basic_ack(rec, tag)
        fn = cons.queue
        try:
            payload = json.loads(msg.body.decode("utf8"))
        except ValueError:
            payload = None
        key = (fn, canon(payload))
        idx = self.counters.get(key, 0)
        self.counters[key] = idx + 1
        req = {"t": sim.now, "step": sim.steps, "fn": fn, "payload": payload, "cid": msg.props.correlation_id,
               "reply_to": msg.props.reply_to, "expiration": msg.props.expiration, "index": idx,
               "headers": msg.props.headers, "uid": msg.uid, "redelivered": msg.redelivered,
               "mid": msg.props.message_id, "t_pub": msg.published_at}
        self.requests.append(req)
        sim.log("W", "req", fn, msg.props.correlation_id, idx)
        out = None
        if self.hook is not None:
            out = self.hook(self, req)
        if out is None:
            out = worker_outcome(self.script, fn, payload, idx)
        req["outcome"] = out
        # (fault accounting for the evidence: what the external peers did that a well-behaved worker would not)
        if out["kind"] == "noreply":
            sim.count("worker-no-reply")
            return
        if out["kind"] in ("error", "garbage"):
            sim.count("worker-%s-reply" % out["kind"])
        if out.get("dup"):
            sim.count("worker-duplicate-reply")
        n = 2 if out.get("dup") else 1
        self.outstanding[req["cid"]] = self.outstanding.get(req["cid"], 0) + n
        for i in range(n):
            delay = out["delay"] + (out.get("late_extra") or 0.0) * i
            sim.call_later(delay, lambda req=req, out=out: self._reply(req, out), None, kind="worker",
                           label=fn)

    def _reply(self, req, out):
        sim = self.sim
        cid = req["cid"]
        self.outstanding[cid] -= 1
        if self.outstanding[cid] == 0:
            del self.outstanding[cid]
        if out["kind"] == "result":
            body = json.dumps(out["value"])
        elif out["kind"] == "error":
            body = json.dumps({"errorType": out["errorType"], "errorMessage": out["errorMessage"]}
                              if out["errorMessage"] is not None else {"errorType": out["errorType"]})
        elif out["kind"] == "raw":
            body = out["value"]
        else:
            body = "{not json"
        props = Props(correlation_id=cid, content_type="application/json", delivery_mode=2)
        self.replies.append({"t": sim.now, "step": sim.steps, "cid": cid, "fn": req["fn"], "kind": out["kind"]})
        sim.log("W", "reply", req["fn"], cid, out["kind"])
        sim.broker.basic_publish(self.chan.rec, "", req["reply_to"] or "", body, props, mandatory=False,
                                 latency_class="reply")


class Subscriber(object):
    """Consumes every notification published on the topic exchange."""

    def __init__(self, sim, exchange="asl_workflow_engine", queue="sim-subscriber"):
        self.sim = sim
        self.chan = NativeChannel(sim, "subscriber")
        self.events = []   # dicts: t, step, subject(routing key), body(parsed), raw, props
        b = sim.broker
        b.exchange_declare(self.chan.rec, exchange, "topic", durable=True)
        b.queue_declare(self.chan.rec, queue, durable=False, exclusive=True, auto_delete=False)
        b.queue_bind(self.chan.rec, queue, exchange, "#")
        b.basic_qos(self.chan.rec, 0)
        b.basic_consume(self.chan.rec, queue, self._on_event)
        self.listeners = []

    def _on_event(self, rec, tag, msg, cons):
        self.sim.broker.basic_ack(rec, tag)
        try:
            body = json.loads(msg.body.decode("utf8"))
        except ValueError:
            body = None
        ev = {"t": self.sim.now, "step": self.sim.steps, "subject": msg.routing_key, "body": body,
              "props": msg.props, "published_at": msg.published_at, "pub_node": msg.pub_node, "uid": msg.uid}
        self.events.append(ev)
        d = (body or {}).get("detail", {}) if isinstance(body, dict) else {}
        self.sim.log("N", msg.routing_key, d.get("executionArn"), d.get("status"))
        for cb in self.listeners:
            cb(ev)

    def by_execution(self):
        out = {}
        for ev in self.events:
            d = ev["body"].get("detail", {}) if isinstance(ev["body"], dict) else {}
            out.setdefault(d.get("executionArn"), []).append(ev)
        return out


HEADERS = {"Content-Type": "application/x-amz-json-1.0"}


class ApiClient(object):
    """Drives the real REST front ends through their test clients."""

    def __init__(self, sim):
        self.sim = sim
        self.calls = []   # dicts: id, node, action, params, t0, t1, status, body, json

    def call(self, node, action, params, raw_body=None, on_done=None, headers=None):
        sim = self.sim
        rec = {"id": len(self.calls), "node": node.name, "action": action, "params": params, "t0": sim.now,
               "step0": sim.steps, "t1": None, "status": None, "body": None, "json": None, "done": False}
        self.calls.append(rec)
        body = raw_body if raw_body is not None else json.dumps(params)
        hdrs = dict(HEADERS)
        hdrs["x-amz-target"] = "AWSStepFunctions." + action
        if headers:
            hdrs.update(headers)
        sim.log("A", "call", node.name, action)

        def finish(status, data):
            rec["t1"] = sim.now
            rec["step1"] = sim.steps
            rec["status"] = status
            rec["body"] = data
            try:
                rec["json"] = json.loads(data) if data else None
            except ValueError:
                rec["json"] = None
            rec["done"] = True
            sim.log("A", "done", node.name, action, status, (rec["json"] or {}).get("__type") if isinstance(rec["json"], dict) else None)
            if on_done:
                on_done(rec)

        if node.dead or node.app is None:
            finish(-1, "")
            return rec
        if node.transport == "asyncio":
            app = node.app

            async def go():
                try:
                    client = app.test_client()
                    resp = await client.post("/", data=body, headers=hdrs)
                    data = await resp.get_data()
                    finish(resp.status_code, data.decode("utf8"))
                except SimCrash:
                    finish(-1, "")
                    raise
            prev = sim.current_node
            sim.current_node = node.name
            try:
                sim.loop.create_task(go(), name="api-%d" % rec["id"])
            finally:
                sim.current_node = prev
        else:
            def go_sync():
                if node.dead or node.app is None:   # the process died before the request reached it
                    finish(-1, "")
                    return
                try:
                    client = node.app.test_client()
                    resp = client.post("/", data=body, headers=hdrs)
                    finish(resp.status_code, resp.get_data().decode("utf8"))
                except SimCrash:
                    finish(-1, "")
                    raise
            sim.call_soon(go_sync, "client:" + node.name, label="api")
        return rec
