"""
Virtual-time asyncio event loop backed by the Sim's event sources.  All nodes
share this one loop object; every handle remembers the node on whose behalf it
was created so that a crash can drop exactly that node's pending work and so
that per-node FIFO order of call_soon is preserved.
"""
import asyncio
import contextvars
from asyncio import events


class SimHandle(object):
    """Minimal asyncio.Handle look-alike."""
    __slots__ = ("_cb", "_args", "_ctx", "_item", "_loop", "_when", "__weakref__")

    def __init__(self, cb, args, ctx, loop, when=None):
        self._cb = cb
        self._args = args
        self._ctx = ctx
        self._loop = loop
        self._item = None
        self._when = when

    def cancel(self):
        if self._item is not None:
            self._item.cancel()

    def cancelled(self):
        return self._item is not None and self._item.cancelled

    def when(self):
        return self._when

    def _run(self):
        loop = self._loop
        try:
            if self._ctx is not None:
                self._ctx.run(self._cb, *self._args)
            else:
                self._cb(*self._args)
        except (SystemExit, KeyboardInterrupt):
            raise
        except BaseException as exc:
            from lsfsim.core import SimCrash, SimStop
            if isinstance(exc, (SimCrash, SimStop)):
                raise
            loop.call_exception_handler({
                "message": "Exception in callback %r" % (self._cb,),
                "exception": exc,
            })


class SimLoop(asyncio.AbstractEventLoop):
    def __init__(self, sim):
        self.sim = sim
        self._exc_handler = None
        self._closed = False
        self._debug = False
        self._task_factory = None
        self.task_seq = 0

    # -- time --------------------------------------------------------------
    def time(self):
        return self.sim.now

    # -- scheduling -------------------------------------------------------------
    def _wrap(self, h):
        loop = self

        def run():
            prev = events._get_running_loop()
            events._set_running_loop(loop)
            try:
                h._run()
            finally:
                events._set_running_loop(prev)
        return run

    def call_soon(self, callback, *args, context=None):
        if context is None:
            context = contextvars.copy_context()
        h = SimHandle(callback, args, context, self)
        h._item = self.sim.call_soon(self._wrap(h), self.sim.current_node,
                                     label=getattr(callback, "__qualname__", "cb"))
        return h

    call_soon_threadsafe = call_soon

    def call_later(self, delay, callback, *args, context=None):
        return self.call_at(self.sim.now + max(0, delay), callback, *args, context=context)

    def call_at(self, when, callback, *args, context=None):
        if context is None:
            context = contextvars.copy_context()
        h = SimHandle(callback, args, context, self, when)
        h._item = self.sim.call_at(when, self._wrap(h), self.sim.current_node, kind="loop-timer",
                                   label=getattr(callback, "__qualname__", "cb"))
        return h

    def _timer_handle_cancelled(self, handle):
        pass

    # -- futures / tasks -----------------------------------------------------------
    def create_future(self):
        return asyncio.Future(loop=self)

    def create_task(self, coro, *, name=None, context=None):
        self.task_seq += 1
        if name is None:
            name = "SimTask-%d" % self.task_seq
        if context is None:
            t = asyncio.Task(coro, loop=self, name=name)
        else:
            t = asyncio.Task(coro, loop=self, name=name, context=context)
        return t

    def set_task_factory(self, factory):
        self._task_factory = factory

    def get_task_factory(self):
        return self._task_factory

    # -- state -------------------------------------------------------------------------
    def is_running(self):
        return True

    def is_closed(self):
        return self._closed

    def close(self):
        self._closed = True

    def get_debug(self):
        return False

    def set_debug(self, enabled):
        pass

    async def shutdown_asyncgens(self):
        pass

    async def shutdown_default_executor(self, timeout=None):
        pass

    def run_in_executor(self, executor, func, *args):
        fut = self.create_future()
        try:
            fut.set_result(func(*args))
        except Exception as e:  # noqa
            fut.set_exception(e)
        return fut

    # -- errors --------------------------------------------------------------------------
    def set_exception_handler(self, handler):
        self._exc_handler = handler

    def get_exception_handler(self):
        return self._exc_handler

    def default_exception_handler(self, context):
        if "was destroyed but it is pending" in str(context.get("message")) or \
                "was never retrieved" in str(context.get("message")):
            return   # garbage collection of a crashed node's tasks/futures: a simulator artefact, not engine behaviour
        self.sim.errors.append(("loop", context.get("message"), repr(context.get("exception"))))
        self.sim.log("LOOPERR", context.get("message"), repr(context.get("exception")))

    def call_exception_handler(self, context):
        self.default_exception_handler(context)
