"""
In-process model of an AMQP 0-9-1 broker (the RabbitMQ behaviours the
repository relies on).  Pure data structure driven by the Sim scheduler.
"""
from collections import deque, OrderedDict


class BrokerClose(Exception):
    def __init__(self, code, text):
        Exception.__init__(self, code, text)
        self.code = code
        self.text = text


class Msg(object):
    __slots__ = ("body", "props", "exchange", "routing_key", "seq", "published_at",
                 "available_at", "expires_at", "redelivered", "waited", "pub_node",
                 "mandatory", "uid")

    def __init__(self, body, props, exchange, routing_key, seq, now):
        self.body = body
        self.props = props
        self.exchange = exchange
        self.routing_key = routing_key
        self.seq = seq
        self.published_at = now
        self.available_at = now
        self.expires_at = None
        self.redelivered = False
        self.waited = False
        self.pub_node = None
        self.mandatory = False
        self.uid = seq


class Queue(object):
    def __init__(self, name, durable, exclusive, auto_delete, arguments):
        self.name = name
        self.durable = durable
        self.exclusive = exclusive
        self.auto_delete = auto_delete
        self.arguments = arguments
        self.msgs = deque()
        self.consumers = []      # ConsumerRec list, in consume order
        self.rr = 0
        self.had_consumer = False


class Exchange(object):
    def __init__(self, name, type_, durable, auto_delete, arguments):
        self.name = name
        self.type = type_
        self.durable = durable
        self.auto_delete = auto_delete
        self.arguments = arguments
        self.bindings = []       # (queue, key, arguments)


class ConsumerRec(object):
    def __init__(self, tag, chan, queue, callback, prefetch, exclusive, arguments, auto_ack):
        self.tag = tag
        self.chan = chan
        self.queue = queue
        self.callback = callback
        self.prefetch = prefetch      # 0 = unlimited
        self.exclusive = exclusive
        self.arguments = arguments or {}
        self.auto_ack = auto_ack
        self.unacked = 0
        self.priority = (arguments or {}).get("x-priority", 0)

    def has_capacity(self):
        return self.prefetch == 0 or self.unacked < self.prefetch


class ChanRec(object):
    """Broker-side channel state. `owner` is the client-side channel object."""

    def __init__(self, broker, conn, number, node):
        self.broker = broker
        self.conn = conn
        self.number = number
        self.node = node
        self.open = True
        self.next_tag = 1
        self.unacked = OrderedDict()   # tag -> (queue name, Msg, ConsumerRec)
        self.prefetch_next = 0
        self.consumers = {}
        self.owner = None
        self.confirm = False


def topic_match(pattern, key):
    pw = pattern.split(".")
    kw = key.split(".")

    def m(i, j):
        if i == len(pw):
            return j == len(kw)
        if pw[i] == "#":
            if i == len(pw) - 1:
                return True
            for k in range(j, len(kw) + 1):
                if m(i + 1, k):
                    return True
            return False
        if j == len(kw):
            return False
        if pw[i] == "*" or pw[i] == kw[j]:
            return m(i + 1, j + 1)
        return False
    return m(0, 0)


class Broker(object):
    def __init__(self, sim):
        self.sim = sim
        self.queues = {}
        self.exchanges = {}
        for n, t in (("amq.direct", "direct"), ("amq.topic", "topic"), ("amq.fanout", "fanout"),
                     ("amq.match", "headers"), ("amq.headers", "headers")):
            self.exchanges[n] = Exchange(n, t, True, False, None)
        self.oplog = []          # list of tuples (step, t, op, details...)
        self.observers = []      # callables(op tuple) called on every op
        self.chan_seq = 0
        self.anon = 0
        self.chans = []
        self.dup_acks = []       # acks of unknown tags observed
        self.dropped_expired = 0
        self.unroutable = 0
        self.fault_hook = None   # callable(op, node) -> may raise SimCrash
        self.publish_hooks = []  # callables(ch, exchange, routing_key, body, props, queues, uid)

    # -- logging -------------------------------------------------------------
    def op(self, name, node, **kw):
        rec = (self.sim.steps, self.sim.now, name, node, kw)
        self.oplog.append(rec)
        self.sim.log("B", name, node, *[("%s=%s" % (k, _short(v))) for k, v in sorted(kw.items())])
        for ob in self.observers:
            ob(rec)
        return rec

    def pre_op(self, name, node):
        """Called by client channels before an operation takes effect."""
        n = self.sim.nodes.get(node)
        if n is not None and n.dead:
            from lsfsim.core import SimCrash
            raise SimCrash()

    def post_op(self, name, node):
        """Called after an operation took effect: the crash-after-op fault point."""
        if self.fault_hook is not None:
            self.fault_hook(name, node)

    # -- channels -----------------------------------------------------------------
    def open_channel(self, conn, node):
        self.chan_seq += 1
        ch = ChanRec(self, conn, self.chan_seq, node)
        self.chans.append(ch)
        self.op("channel_open", node, ch=ch.number)
        return ch

    def close_channel(self, ch, requeue=True, reason="client"):
        if not ch.open:
            return
        ch.open = False
        self.op("channel_close", ch.node, ch=ch.number, reason=reason)
        for tag, c in list(ch.consumers.items()):
            self._cancel_consumer(c)
        ch.consumers.clear()
        # requeue unacked, preserving original order at the head
        back = list(ch.unacked.items())
        ch.unacked.clear()
        for tag, (qname, msg, cons) in reversed(back):
            q = self.queues.get(qname)
            if q is None:
                continue
            msg.redelivered = True
            msg.available_at = self.sim.now
            q.msgs.appendleft(msg)
            self.op("requeue", ch.node, queue=qname, uid=msg.uid, mid=msg.props.message_id)

    def mark_prefetched(self, node):
        """
        Fault 'prefetched-unhandled' (enabled per run by the probability sim.crash_prefetch): RabbitMQ pushes up to
        `prefetch` messages to a consumer ahead of their handling; they sit in the client's buffer, and when the process
        dies the broker requeues all of them - handled or not - with redelivered=True.  At the crash of `node`, the
        messages at the head of each queue it consumes from that are available and fit the consumer's remaining
        window are therefore flagged redelivered with that probability (a prefix, in order: what was pushed was pushed
        in queue order).  Returns the flagged messages.  Called once per crash, before the channels are closed.
        """
        p = getattr(self.sim, "crash_prefetch", 0.0)
        out = []
        if not p:
            return out
        for ch in self.chans:
            if not ch.open or ch.node != node:
                continue
            for c in ch.consumers.values():
                q = self.queues.get(c.queue)
                if c.auto_ack or q is None:
                    continue
                window = len(q.msgs) if c.prefetch == 0 else max(0, c.prefetch - c.unacked)
                for i, m in enumerate(q.msgs):
                    if i >= window or m.available_at > self.sim.now or m.redelivered:
                        break
                    if self.sim.rng.random() >= p:
                        break
                    m.redelivered = True
                    out.append((c.queue, m))
                    self.sim.count("prefetched-unhandled")
                    self.op("prefetched_requeue", node, queue=c.queue, uid=m.uid, mid=m.props.message_id)
        self.prefetched_marked = getattr(self, "prefetched_marked", []) + out
        return out

    def _cancel_consumer(self, c):
        q = self.queues.get(c.queue)
        if q is not None and c in q.consumers:
            q.consumers.remove(c)
            if q.auto_delete and not q.consumers and q.had_consumer:
                self.op("queue_autodelete", None, queue=q.name)
                del self.queues[q.name]
                for ex in self.exchanges.values():
                    ex.bindings = [b for b in ex.bindings if b[0] != q.name]

    def broker_close_channel(self, ch, code, text):
        """Channel-level exception: broker closes the channel."""
        self.close_channel(ch, reason="%d" % code)
        if ch.owner is not None:
            ch.owner._closed_by_broker(code, text)

    # -- declarations ---------------------------------------------------------------
    def exchange_declare(self, ch, exchange, exchange_type="direct", passive=False, durable=False,
                         auto_delete=False, internal=False, arguments=None):
        if passive:
            if exchange not in self.exchanges and exchange != "":
                self.op("exchange_declare_passive_miss", ch.node, exchange=exchange)
                raise BrokerClose(404, "NOT_FOUND - no exchange '%s' in vhost '/'" % exchange)
            self.op("exchange_declare_passive", ch.node, exchange=exchange)
            return
        ex = self.exchanges.get(exchange)
        if ex is None:
            self.exchanges[exchange] = Exchange(exchange, exchange_type, durable, auto_delete, arguments)
        else:
            if ex.type != exchange_type or bool(ex.durable) != bool(durable):
                raise BrokerClose(406, "PRECONDITION_FAILED - inequivalent arg for exchange '%s'" % exchange)
        self.op("exchange_declare", ch.node, exchange=exchange, type=exchange_type, durable=bool(durable),
                auto_delete=bool(auto_delete), arguments=arguments)

    def queue_declare(self, ch, queue="", passive=False, durable=False, exclusive=False,
                      auto_delete=False, arguments=None):
        if queue == "":
            self.anon += 1
            queue = "amq.gen-%d" % self.anon
        q = self.queues.get(queue)
        if passive:
            if q is None:
                raise BrokerClose(404, "NOT_FOUND - no queue '%s' in vhost '/'" % queue)
        elif q is None:
            q = self.queues[queue] = Queue(queue, bool(durable), bool(exclusive), bool(auto_delete), arguments)
        else:
            if bool(q.durable) != bool(durable) or (q.arguments or {}) != (arguments or {}) \
                    or bool(q.auto_delete) != bool(auto_delete):
                raise BrokerClose(406, "PRECONDITION_FAILED - inequivalent arg for queue '%s'" % queue)
        self.op("queue_declare", ch.node, queue=queue, durable=bool(durable), exclusive=bool(exclusive),
                auto_delete=bool(auto_delete), arguments=arguments, passive=bool(passive))
        return queue, len(q.msgs), len(q.consumers)

    def queue_bind(self, ch, queue, exchange, routing_key=None, arguments=None):
        if queue not in self.queues:
            raise BrokerClose(404, "NOT_FOUND - no queue '%s' in vhost '/'" % queue)
        ex = self.exchanges.get(exchange)
        if ex is None:
            raise BrokerClose(404, "NOT_FOUND - no exchange '%s' in vhost '/'" % exchange)
        b = (queue, routing_key or "", arguments)
        if b not in ex.bindings:
            ex.bindings.append(b)
        self.op("queue_bind", ch.node, queue=queue, exchange=exchange, key=routing_key, arguments=arguments)

    # -- consume / publish / ack ------------------------------------------------------
    def basic_qos(self, ch, prefetch_count):
        ch.prefetch_next = int(prefetch_count)
        self.op("basic_qos", ch.node, ch=ch.number, prefetch=int(prefetch_count))

    def basic_consume(self, ch, queue, callback, auto_ack=False, exclusive=False, consumer_tag=None,
                      arguments=None):
        q = self.queues.get(queue)
        if q is None:
            raise BrokerClose(404, "NOT_FOUND - no queue '%s' in vhost '/'" % queue)
        if any(c.exclusive for c in q.consumers) or (exclusive and q.consumers):
            self.op("consume_refused", ch.node, queue=queue, exclusive=bool(exclusive))
            raise BrokerClose(403, "ACCESS_REFUSED - queue '%s' in vhost '/' in exclusive use" % queue)
        tag = consumer_tag or ("ctag%d.%d" % (ch.number, len(ch.consumers) + 1))
        c = ConsumerRec(tag, ch, queue, callback, ch.prefetch_next, bool(exclusive), arguments, auto_ack)
        if q.msgs and not q.consumers:
            # what already waits in the queue (a backlog, or deliveries requeued when the previous consumer's channel
            # closed) reaches a new consumer over the same network as everything else: one hop of latency, FIFO kept
            t = self.sim.now + self.sim.draw_latency("pub")
            for m in q.msgs:
                if m.available_at < t:
                    m.available_at = t
                else:
                    t = m.available_at
        q.consumers.append(c)
        q.had_consumer = True
        ch.consumers[tag] = c
        self.op("basic_consume", ch.node, queue=queue, ch=ch.number, tag=tag, exclusive=bool(exclusive),
                arguments=arguments, prefetch=ch.prefetch_next)
        return tag

    def route(self, exchange, routing_key):
        if exchange == "":
            return [routing_key] if routing_key in self.queues else []
        ex = self.exchanges.get(exchange)
        if ex is None:
            return None
        out = []
        for (qn, key, args) in ex.bindings:
            if ex.type == "direct":
                ok = key == routing_key
            elif ex.type == "topic":
                ok = topic_match(key, routing_key)
            elif ex.type == "fanout":
                ok = True
            else:
                ok = False
            if ok and qn not in out and qn in self.queues:
                out.append(qn)
        return out

    def basic_publish(self, ch, exchange, routing_key, body, properties, mandatory=False,
                      latency_class="pub"):
        if isinstance(body, str):
            body = body.encode("utf-8")
        queues = self.route(exchange, routing_key)
        if queues is None:
            self.op("publish_no_exchange", ch.node, exchange=exchange, key=routing_key)
            raise BrokerClose(404, "NOT_FOUND - no exchange '%s' in vhost '/'" % exchange)
        seq = self.sim.next_seq()
        now = self.sim.now
        self.op("basic_publish", ch.node, exchange=exchange, key=routing_key, size=len(body),
                mid=properties.message_id, cid=properties.correlation_id, reply_to=properties.reply_to,
                expiration=properties.expiration, mandatory=bool(mandatory), queues=tuple(queues), uid=seq,
                headers=properties.headers)
        for h in self.publish_hooks:
            h(ch, exchange, routing_key, body, properties, queues, seq)
        if not queues:
            self.unroutable += 1
            if mandatory:
                return ("returned", seq)
            return ("dropped", seq)
        lat = self.sim.draw_latency(latency_class)
        for qn in queues:
            q = self.queues[qn]
            m = Msg(body, properties, exchange, routing_key, seq, now)
            m.pub_node = ch.node
            m.available_at = now + lat
            # keep per-queue FIFO: never become available before the predecessor
            if q.msgs and q.msgs[-1].available_at > m.available_at:
                m.available_at = q.msgs[-1].available_at
            exp = properties.expiration
            if exp is not None:
                try:
                    m.expires_at = now + int(exp) / 1000.0
                except (TypeError, ValueError):
                    raise BrokerClose(406, "PRECONDITION_FAILED - invalid expiration '%s'" % (exp,))
                if int(exp) < 0:
                    raise BrokerClose(406, "PRECONDITION_FAILED - invalid expiration '%s'" % (exp,))
            m.waited = not any(c.has_capacity() for c in q.consumers)
            q.msgs.append(m)
        return ("routed", seq)

    def deliverable(self):
        """Yield (due, seq, queue name) for each queue whose head can be delivered."""
        for qn, q in self.queues.items():
            if not q.msgs or not q.consumers:
                continue
            ok = False
            for c in q.consumers:
                if c.has_capacity():
                    n = self.sim.nodes.get(c.chan.node)
                    if n is not None and n.dead:
                        continue
                    ok = True
                    break
            if not ok:
                continue
            head = q.msgs[0]
            due = head.available_at
            # stalled consumers delay delivery
            cands = [c for c in q.consumers if c.has_capacity()]
            b = None
            for c in cands:
                bu = self.sim.node_blocked_until(c.chan.node)
                if bu is None:
                    b = None
                    break
                if bu != float("inf"):
                    b = bu if b is None else min(b, bu)
            if b is not None and b > due:
                due = b
            yield (due, head.seq, qn)

    def _choose_consumer(self, q):
        cands = []
        for c in q.consumers:
            if not c.has_capacity():
                continue
            n = self.sim.nodes.get(c.chan.node)
            if n is not None and (n.dead or (n.stalled_until is not None and n.stalled_until > self.sim.now)):
                continue
            cands.append(c)
        if not cands:
            return None
        top = max(c.priority for c in cands)
        cands = [c for c in cands if c.priority == top]
        if len(cands) == 1:
            return cands[0]
        if self.sim.policy in ("canonical", "latency") and self.sim.replay_choices is None:
            q.rr += 1
            return cands[q.rr % len(cands)]
        i = self.sim.rng.randrange(len(cands)) if self.sim.replay_choices is None else \
            (self.sim.replay_choices.pop(0) if self.sim.replay_choices else 0) % len(cands)
        if self.sim.replay_choices is None:
            self.sim.choices.append(i)
        return cands[i]

    def deliver_one(self, qname):
        q = self.queues.get(qname)
        if q is None or not q.msgs:
            return
        m = q.msgs[0]
        if m.expires_at is not None and m.waited and self.sim.now >= m.expires_at:
            q.msgs.popleft()
            self.dropped_expired += 1
            self.op("expired", None, queue=qname, uid=m.uid, cid=m.props.correlation_id)
            return
        c = self._choose_consumer(q)
        if c is None:
            return
        q.msgs.popleft()
        ch = c.chan
        tag = ch.next_tag
        ch.next_tag += 1
        if not c.auto_ack:
            ch.unacked[tag] = (qname, m, c)
            c.unacked += 1
        self.op("deliver", ch.node, queue=qname, ch=ch.number, tag=tag, uid=m.uid, mid=m.props.message_id,
                cid=m.props.correlation_id, redelivered=m.redelivered, ctag=c.tag)
        self.sim.run_callback(ch.node, c.callback, ch, tag, m, c)

    def basic_ack(self, ch, delivery_tag=0, multiple=False):
        if multiple:
            tags = [t for t in ch.unacked if delivery_tag == 0 or t <= delivery_tag]
        else:
            tags = [delivery_tag]
        if multiple:
            # the frame as sent: one Basic.Ack that settles every outstanding delivery up to the tag (all for tag 0)
            self.op("ack_frame", ch.node, ch=ch.number, tag=delivery_tag, multiple=True, covered=len(tags))
        for t in tags:
            ent = ch.unacked.pop(t, None)
            if ent is None:
                self.dup_acks.append((self.sim.steps, ch.node, ch.number, t))
                self.op("ack_unknown", ch.node, ch=ch.number, tag=t)
                raise BrokerClose(406, "PRECONDITION_FAILED - unknown delivery tag %d" % t)
            qname, m, c = ent
            c.unacked -= 1
            self.op("basic_ack", ch.node, ch=ch.number, tag=t, queue=qname, uid=m.uid, mid=m.props.message_id,
                    cid=m.props.correlation_id)

    def basic_recover(self, ch, requeue=True):
        back = list(ch.unacked.items())
        ch.unacked.clear()
        for tag, (qname, msg, cons) in reversed(back):
            cons.unacked -= 1
            q = self.queues.get(qname)
            if q is None:
                continue
            msg.redelivered = True
            q.msgs.appendleft(msg)
        self.op("basic_recover", ch.node, ch=ch.number, n=len(back))

    # -- inspection ---------------------------------------------------------------------
    def queue_depths(self):
        return {qn: len(q.msgs) for qn, q in self.queues.items()}

    def all_unacked(self):
        out = []
        for ch in self.chans:
            if ch.open:
                for tag, (qn, m, c) in ch.unacked.items():
                    out.append((ch, tag, qn, m, c))
        return out


def _short(v):
    s = repr(v)
    return s if len(s) < 200 else s[:200] + "..."
