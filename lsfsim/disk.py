"""
Simulated disk for asl_workflow_engine.store (JSONStore uses builtin open()).
Durable content lives in Disk.files; a write handle buffers until close/flush
according to the fault plan.
"""
import io
from lsfsim.core import Sim, SimCrash


class Disk(object):
    def __init__(self):
        self.files = {}        # name -> str (durable)
        self.faults = {}       # name -> list of fault dicts consumed in order
        self.stats = {"open_r": 0, "open_w": 0, "enospc": 0, "eio": 0, "torn": 0, "truncated": 0}
        self.crash_hook = None  # callable(kind) -> requests a node crash at this point

    def plan(self, name, fault):
        self.faults.setdefault(name, []).append(fault)

    def _next_fault(self, name, stage):
        for key in (name, "*"):
            fl = self.faults.get(key)
            if fl and fl[0].get("stage") == stage:
                return fl.pop(0)
        return None


class _WriteHandle(io.StringIO):
    def __init__(self, disk, name, fault):
        io.StringIO.__init__(self)
        self._disk = disk
        self._name = name
        self._fault = fault
        self._done = False

    def write(self, s):
        f = self._fault
        if f and f.get("kind") == "enospc":
            self._disk.stats["enospc"] += 1
            self._fault = None
            # whatever was buffered is lost; the file was already truncated by open("w")
            raise OSError(28, "No space left on device")
        if f and f.get("kind") == "eio":
            self._disk.stats["eio"] += 1
            self._fault = None
            raise OSError(5, "Input/output error")
        return io.StringIO.write(self, s)

    def close(self):
        if not self._done:
            self._done = True
            data = self.getvalue()
            f = self._fault
            if f and f.get("kind") == "torn":
                n = int(len(data) * f.get("frac", 0.5))
                self._disk.files[self._name] = data[:n]
                self._disk.stats["torn"] += 1
                io.StringIO.close(self)
                if self._disk.crash_hook:
                    self._disk.crash_hook("torn")
                raise SimCrash()
            self._disk.files[self._name] = data
        io.StringIO.close(self)

    def __exit__(self, *a):
        self.close()
        return False

    def fileno(self):
        return -1


def sim_open(name, mode="r", *a, **kw):
    s = Sim.current
    disk = s.disk
    n = s.nodes.get(s.current_node)
    if n is not None and n.dead:
        raise SimCrash()
    if "r" in mode:
        disk.stats["open_r"] += 1
        f = disk._next_fault(name, "read")
        if f and f.get("kind") == "eio":
            disk.stats["eio"] += 1
            raise OSError(5, "Input/output error")
        if name not in disk.files:
            raise FileNotFoundError(2, "No such file or directory: %r" % name)
        return io.StringIO(disk.files[name])
    disk.stats["open_w"] += 1
    f = disk._next_fault(name, "open_w")
    if f and f.get("kind") == "enospc_open":
        disk.stats["enospc"] += 1
        raise OSError(28, "No space left on device")
    # open(..., "w") truncates immediately
    disk.files[name] = ""
    if f and f.get("kind") == "crash_after_truncate":
        disk.stats["truncated"] += 1
        if disk.crash_hook:
            disk.crash_hook("truncated")
        raise SimCrash()
    wf = disk._next_fault(name, "write")
    return _WriteHandle(disk, name, wf)


class SimPath(object):
    """`os.path` as seen by asl_workflow_engine.store: questions about files are answered by the simulated disk."""

    def __init__(self, simos):
        self._os = simos

    def __getattr__(self, name):
        import os.path
        return getattr(os.path, name)

    def exists(self, name):
        return name in self._os._disk().files

    isfile = exists
    lexists = exists

    def isdir(self, name):
        return False

    def getsize(self, name):
        files = self._os._disk().files
        if name not in files:
            raise FileNotFoundError(2, "No such file or directory: %r" % name)
        return len(files[name].encode("utf8"))


class SimOS(object):
    """`os` as seen by asl_workflow_engine.store: file-name operations go to the simulated disk."""

    def __init__(self):
        self.path = SimPath(self)

    def __getattr__(self, name):
        import os
        return getattr(os, name)

    def listdir(self, name="."):
        return sorted(self._disk().files)

    def _disk(self):
        s = Sim.current
        n = s.nodes.get(s.current_node)
        if n is not None and n.dead:
            raise SimCrash()
        return s.disk

    def replace(self, src, dst):
        disk = self._disk()
        f = disk._next_fault(dst, "replace")
        if f and f.get("kind") == "crash_before_replace":
            disk.stats["crash_before_replace"] = disk.stats.get("crash_before_replace", 0) + 1
            if disk.crash_hook:
                disk.crash_hook("before_replace")
            raise SimCrash()
        if src not in disk.files:
            raise FileNotFoundError(2, "No such file or directory: %r" % src)
        disk.files[dst] = disk.files.pop(src)
        disk.stats["replace"] = disk.stats.get("replace", 0) + 1

    rename = replace

    def remove(self, name):
        disk = self._disk()
        if name not in disk.files:
            raise FileNotFoundError(2, "No such file or directory: %r" % name)
        del disk.files[name]

    unlink = remove

    def fsync(self, fd):
        pass
