"""
Engine instances ("nodes") built from the real repository classes, following
the construction order and config defaults of workflow_engine.WorkflowEngine.
"""
import copy
import json

from lsfsim.core import Sim, SimCrash, SimStop, HarnessError

TOPIC = '{"node": {"x-declare": {"exchange": "asl_workflow_engine", "exchange-type": "topic", "durable": true}}}'


def make_config(instance_id, transport="asyncio", store_url="ASL_store.json", queue_type="classic",
                execution_ttl=86400, region="local", validate_asl=False, caps=(1000, 1000, 100),
                orphan_ms=600000, message_ttl=0):
    return {
        "event_queue": {
            "queue_name": "asl_workflow_events",
            "instance_id": instance_id,
            "queue_implementation": "AMQP-0.9.1-asyncio" if transport == "asyncio" else "AMQP-0.9.1",
            "queue_type": queue_type,
            "connection_url": "amqp://localhost:5672?connection_attempts=20&retry_delay=10&heartbeat=0",
            "connection_options": "",
            "shared_event_consumer_capacity": caps[0],
            "instance_event_consumer_capacity": caps[1],
            "reply_to_consumer_capacity": caps[2],
            "orphaned_response_retention_ms": orphan_ms,
        },
        "notifier": {"topic": TOPIC, "message_ttl": message_ttl},
        "state_engine": {"store_url": store_url, "execution_ttl": execution_ttl},
        "rest_api": {"host": "0.0.0.0", "port": 4584, "region": region, "validate_asl": validate_asl},
        "tracer": {"implementation": "None"},
        "metrics": {"implementation": "None", "namespace": ""},
    }


class Node(object):
    def __init__(self, sim, name, config):
        self.sim = sim
        self.name = name
        self.config = config
        self.dead = False
        self.torn_down = False
        self.stalled_until = None
        self.connections = []
        self.incarnation = 0
        self.started = False
        self.transport = "asyncio" if config["event_queue"]["queue_implementation"].endswith("-asyncio") else "blocking"
        self.state_engine = None
        self.event_dispatcher = None
        self.rest_api = None
        self.app = None
        self.history_log = []     # (step, t, arn, type, details) from update_execution_history wrapper
        self.on_history = []
        sim.nodes[name] = self

    # -- lifecycle ---------------------------------------------------------------
    def boot(self):
        """Construct the real objects and start the dispatcher."""
        from asl_workflow_engine.state_engine import StateEngine
        from asl_workflow_engine.event_dispatcher import EventDispatcher
        import asl_workflow_engine.store as st
        sim = self.sim
        self.dead = False
        self.torn_down = False
        self.connections = []
        self.incarnation += 1
        prev = sim.current_node
        sim.current_node = self.name
        try:
            # every "process" gets its own redis client
            if hasattr(st.RedisStore, "connection"):
                try:
                    del st.RedisStore.connection
                except AttributeError:
                    pass
            cfg = copy.deepcopy(self.config)
            self.state_engine = StateEngine(cfg)
            self.event_dispatcher = EventDispatcher(self.state_engine, cfg)
            self._wrap_history()
            if self.transport == "asyncio":
                import asl_workflow_engine.rest_api_asyncio as ra
                self.rest_api = ra.RestAPI(self.state_engine, self.event_dispatcher, cfg)
                self.app = self.rest_api.create_app()
                sim.loop.create_task(self.event_dispatcher.start_asyncio(), name="start-%s" % self.name)
            else:
                import asl_workflow_engine.rest_api as rb
                self.rest_api = rb.RestAPI(self.state_engine, self.event_dispatcher, cfg)
                self.app = self.rest_api.create_app()
                sim.call_soon(self._start_blocking, self.name, label="start-blocking")
        except SimCrash:
            pass
        finally:
            sim.current_node = prev
        sim.log("BOOT", self.name, self.incarnation)

    def _start_blocking(self):
        try:
            self.event_dispatcher.start()
        except SimStop:
            self.started = True

    def _wrap_history(self):
        se = self.state_engine
        orig = se.update_execution_history
        node = self

        def wrapper(state_machine, execution_arn, update_type, details):
            rec = (node.sim.steps, node.sim.now, execution_arn, update_type, details,
                   (state_machine or {}).get("type"))
            node.history_log.append(rec)
            node.sim.log("H", node.name, execution_arn, update_type)
            for cb in node.on_history:
                cb(node, rec)
            return orig(state_machine, execution_arn, update_type, details)
        se.update_execution_history = wrapper

    @property
    def ready(self):
        """True once the dispatcher has its consumers in place."""
        ed = self.event_dispatcher
        if ed is None or self.dead:
            return False
        if self.transport == "blocking":
            return self.started
        return getattr(ed, "session", None) is not None and hasattr(ed, "topic_producer") and \
            any(c.queue == ed.instance_queue_name for ch in self.sim.broker.chans if ch.open and ch.node == self.name
                for c in ch.consumers.values())

    def crash(self, why="fault"):
        if self.dead:
            return
        self.dead = True
        self.sim.log("CRASH", self.name, why)
        self.sim.count("crash")
        self.sim.broker.mark_prefetched(self.name)

    def teardown(self):
        """Finish a crash: drop everything volatile, let the broker requeue."""
        if self.torn_down:
            return
        self.torn_down = True
        sim = self.sim
        for c in self.connections:
            c._kill()
        for it in sim.items:
            if it.node == self.name:
                it.cancelled = True
        q = sim.loopq.get(self.name)
        if q:
            q.clear()
        # stop redis clients of this node (fake redis registers them on the node)
        for r in getattr(self, "redis_clients", []):
            r._kill()
        se = self.state_engine
        for name in ("asl_store", "executions", "execution_history"):
            store = getattr(se, name, None)
            if hasattr(store, "tracker_id"):
                store.tracker_id = None   # a dead process runs no destructor
        self.redis_clients = []
        self.state_engine = None
        self.event_dispatcher = None
        self.rest_api = None
        self.app = None
        self.started = False

    def restart(self):
        if not self.torn_down:
            self.crash("restart")
            self.teardown()
        self.boot()

    def stall(self, duration):
        until = self.sim.now + duration
        if self.stalled_until is None or until > self.stalled_until:
            self.stalled_until = until
        self.sim.count("stall")

    # -- introspection -------------------------------------------------------------
    def volatile_state(self):
        se = self.state_engine
        if se is None:
            return None
        td = se.task_dispatcher
        return {
            "unacknowledged_messages": len(self.event_dispatcher.unacknowledged_messages),
            "branch_metadata": len(se.branch_metadata),
            "pending_requests": len(td.pending_requests),
            "cancellers": len(td.cancellers),
            "orphaned_responses": len(td.orphaned_responses),
        }
