"""
Process-wide seams: time.time, module-level `datetime` names, uuid.uuid4,
random, TZ.  Installed once per process; they always consult Sim.current.
"""
import datetime as _dt
import os
import sys
import time
import uuid
import random

from lsfsim.core import Sim

REAL_TIME = time.time
_installed = False


def sim_time():
    s = Sim.current
    if s is None:
        return REAL_TIME()
    return s.now + s.wall_offset      # (the wall clock may have been stepped; timers run on s.now)


class SimDateTime(_dt.datetime):
    @classmethod
    def now(cls, tz=None):
        s = Sim.current
        t = (s.now + s.wall_offset) if s is not None else REAL_TIME()
        return cls.fromtimestamp(t, tz)

    @classmethod
    def utcnow(cls):
        return cls.now(_dt.timezone.utc).replace(tzinfo=None)


def sim_uuid4():
    s = Sim.current
    if s is None:
        return _real_uuid4()
    return uuid.UUID(int=s.rng_ids.getrandbits(128), version=4)


_real_uuid4 = uuid.uuid4


class _FakeThread(object):
    def __init__(self, target=None, daemon=None, args=(), kwargs=None):
        self.target = target
        self.daemon = daemon

    def start(self):
        pass

    def join(self, timeout=None):
        pass

    def is_alive(self):
        return False


class _FakeThreading(object):
    Thread = _FakeThread


def set_tz(tzstring):
    os.environ["TZ"] = tzstring
    time.tzset()


def install(repo_py):
    """Put the fakes and the repo on sys.path, import repo modules, patch seams."""
    global _installed
    if _installed:
        return
    here = os.path.dirname(os.path.dirname(os.path.abspath(__file__)))
    fakes = os.path.join(here, "fakes")
    for p in (repo_py, fakes):
        if p in sys.path:
            sys.path.remove(p)
    sys.path.insert(0, repo_py)
    sys.path.insert(0, fakes)
    os.environ.pop("DEBUG", None)
    import logging
    logging.disable(logging.CRITICAL)

    time.time = sim_time
    uuid.uuid4 = sim_uuid4

    import asl_workflow_engine.state_engine as se
    import asl_workflow_engine.task_dispatcher as td
    import asl_workflow_engine.rest_api_asyncio as ra
    import asl_workflow_engine.rest_api as rb
    import asl_workflow_engine.event_dispatcher as ed  # noqa
    import asl_workflow_engine.store as st
    for m in (se, td, ra, rb):
        if hasattr(m, "datetime"):
            m.datetime = SimDateTime
    # the simulated disk
    from lsfsim import disk
    st.open = disk.sim_open
    st.os = disk.SimOS()
    # the Redis tracker thread never runs as a real thread: invalidations are delivered by the scheduler
    st.threading = _FakeThreading
    # when the cyclic garbage collector happens to run the destructor is not the simulator's decision to make:
    # an orderly shutdown calls stop() explicitly, a crash runs nothing
    st.RedisStore.__del__ = lambda self: None
    # cache the (expensive, stateless) validator
    from statelint.statelint import StateLint
    _cache = {}

    def cached_statelint():
        if "v" not in _cache:
            _cache["v"] = StateLint()
        return _cache["v"]
    ra.StateLint = cached_statelint
    logging.disable(logging.CRITICAL)
    _installed = True


_gc_runs = [0]


def gc_point():
    """
    Called before a run creates its simulator.  The cyclic collector runs finalizers (of tasks, coroutines, async
    generators of earlier runs) whenever it likes, and some of them schedule work on "the current loop"; so automatic
    collection is off and garbage is collected here, between runs, where no simulation is in progress.
    """
    import gc
    gc.disable()
    _gc_runs[0] += 1
    if _gc_runs[0] % 25 == 0:
        # the coroutines and tasks of "processes" that were crashed mid-request are garbage by construction: what their
        # finalizers have to say ("never awaited", "exception ignored in coroutine") is about the dead simulation only
        import sys
        import warnings
        hook = sys.unraisablehook
        sys.unraisablehook = lambda unraisable: None
        try:
            with warnings.catch_warnings():
                warnings.simplefilter("ignore")
                gc.collect()
        finally:
            sys.unraisablehook = hook


def per_run(sim, tz="UTC0"):
    Sim.current = sim
    set_tz(tz)
    random.seed(sim.seed ^ 0xABCDEF)
