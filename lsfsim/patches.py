"""
Process-wide seams: time.time, module-level `datetime` names, uuid.uuid4,
random, TZ.  Installed once per process; they always consult Sim.current.
"""
import datetime as _dt
import os
import sys
import time
import uuid
import random

from lsfsim.core import Sim

REAL_TIME = time.time
_installed = False


def sim_time():
    s = Sim.current
    if s is None:
        return REAL_TIME()
    return s.now


class SimDateTime(_dt.datetime):
    @classmethod
    def now(cls, tz=None):
        s = Sim.current
        t = s.now if s is not None else REAL_TIME()
        return cls.fromtimestamp(t, tz)

    @classmethod
    def utcnow(cls):
        return cls.now(_dt.timezone.utc).replace(tzinfo=None)


def sim_uuid4():
    s = Sim.current
    if s is None:
        return _real_uuid4()
    return uuid.UUID(int=s.rng_ids.getrandbits(128), version=4)


_real_uuid4 = uuid.uuid4


def set_tz(tzstring):
    os.environ["TZ"] = tzstring
    time.tzset()


def install(repo_py):
    """Put the fakes and the repo on sys.path, import repo modules, patch seams."""
    global _installed
    if _installed:
        return
    here = os.path.dirname(os.path.dirname(os.path.abspath(__file__)))
    fakes = os.path.join(here, "fakes")
    for p in (repo_py, fakes):
        if p in sys.path:
            sys.path.remove(p)
    sys.path.insert(0, repo_py)
    sys.path.insert(0, fakes)
    os.environ.pop("DEBUG", None)
    import logging
    logging.disable(logging.CRITICAL)

    time.time = sim_time
    uuid.uuid4 = sim_uuid4

    import asl_workflow_engine.state_engine as se
    import asl_workflow_engine.task_dispatcher as td
    import asl_workflow_engine.rest_api_asyncio as ra
    import asl_workflow_engine.rest_api as rb
    import asl_workflow_engine.event_dispatcher as ed  # noqa
    import asl_workflow_engine.store as st
    for m in (se, td, ra, rb):
        if hasattr(m, "datetime"):
            m.datetime = SimDateTime
    # the simulated disk
    from lsfsim import disk
    st.open = disk.sim_open
    # cache the (expensive, stateless) validator
    from statelint.statelint import StateLint
    _cache = {}

    def cached_statelint():
        if "v" not in _cache:
            _cache["v"] = StateLint()
        return _cache["v"]
    ra.StateLint = cached_statelint
    logging.disable(logging.CRITICAL)
    _installed = True


def per_run(sim, tz="UTC0"):
    Sim.current = sim
    set_tz(tz)
    random.seed(sim.seed ^ 0xABCDEF)
