"""
Scenario runner: builds a World, installs machines, starts executions, runs to
quiescence with the attached monitors, and returns a Result.

A scenario is plain JSON-able data so that it can be written to a replay file:
{
  "machines": {name: {"definition": {...}, "type": "STANDARD"|"EXPRESS"}},
  "executions": [{"machine": name, "input": ..., "name": str, "at": seconds, "via": "api"|"sync"|"raw", "node": i}],
  "script": {...}, "functions": [...],
  "config": {World kwargs},
  "faults": [{"kind": ..., ...}],
}
"""
import json

from lsfsim.core import HarnessError
from lsfsim.world import World


class Finding(object):
    def __init__(self, prop, rule, detail, witness=None, step=None, t=None):
        self.prop = prop
        self.rule = rule
        self.detail = detail
        self.witness = witness   # normalised, for known-finding fingerprints
        self.step = step
        self.t = t

    def key(self):
        return (self.prop, self.rule, self.witness)

    def to_json(self):
        return {"property": self.prop, "rule": self.rule, "detail": self.detail, "witness": self.witness,
                "step": self.step, "t": self.t}

    def __repr__(self):
        return "Finding(%s/%s: %s)" % (self.prop, self.rule, self.detail)


class Result(object):
    def __init__(self, world, scenario):
        self.world = world
        self.scenario = scenario
        self.findings = []
        self.exec_arns = {}      # execution name -> arn
        self.sm_arns = {}
        self.start_calls = []
        self.end_reason = None
        self.info = {}

    @property
    def sim(self):
        return self.world.sim

    def terminal(self, arn):
        evs = self.world.terminal_events().get(arn, [])
        return evs[0]["body"]["detail"] if evs else None


def build_world(scenario, seed, trace=False, worker_hook=None):
    cfg = dict(scenario.get("config") or {})
    cfg.setdefault("script", scenario.get("script") or {})
    cfg.setdefault("functions", scenario.get("functions") or [])
    return World(seed, trace=trace, worker_hook=worker_hook, **cfg)


def run_scenario(scenario, seed, monitors=(), trace=False, settle=None, worker_hook=None, before_run=None,
                 horizon=None, settle_if=None):
    w = build_world(scenario, seed, trace, worker_hook)
    res = Result(w, scenario)
    sim = w.sim
    for m in monitors:
        m.attach(res)
    for name, m in scenario["machines"].items():
        res.sm_arns[name] = w.create_machine(name, m["definition"], m.get("type", "STANDARD"),
                                             logging=m.get("logging"))
    t0 = sim.now
    res.t0 = t0
    for i, ex in enumerate(scenario["executions"]):
        def launch(ex=ex, i=i):
            node = w.nodes[ex.get("node", 0) % len(w.nodes)]
            if node.dead:
                alive = [n for n in w.nodes if not n.dead]
                if not alive:
                    res.start_calls.append((ex, None))
                    return
                node = alive[0]
            via = ex.get("via", "api")
            if via == "raw-anon":
                # a client that names nothing but the state machine and sets no message id: the engine picks the
                # execution name; two such events with the same input are byte-identical messages
                from lsfsim.peers import NativeChannel, Props
                if not hasattr(res, "_rawch"):
                    res._rawch = NativeChannel(sim, "raw-starter")
                sfx = "-qq" if (scenario.get("config") or {}).get("queue_type") == "quorum" else ""
                body = json.dumps({"data": ex["input"], "context": {"StateMachine": {"Id": res.sm_arns[ex["machine"]]}}})
                sim.count("raw-start-event")
                sim.broker.basic_publish(res._rawch.rec, "", "asl_workflow_events" + sfx, body.encode(),
                                         Props(content_type="application/json", delivery_mode=2))
                res.start_calls.append((ex, {"status": 200, "json": {}, "t0": sim.now, "step0": sim.steps, "raw": True}))
                return
            if via in ("raw", "raw-noid"):
                # the "low-level" way: a client publishes the start event straight to the shared event queue, naming the
                # state machine (and here the execution, so that its ARN is known); "raw-noid" leaves the AMQP message
                # id unset, as a client that sets nothing but the content type does
                from lsfsim.peers import NativeChannel, Props
                if not hasattr(res, "_rawch"):
                    res._rawch = NativeChannel(sim, "raw-starter")
                sm = res.sm_arns[ex["machine"]]
                sfx = "-qq" if (scenario.get("config") or {}).get("queue_type") == "quorum" else ""
                body = json.dumps({"data": ex["input"], "context": {"StateMachine": {"Id": sm},
                                                                     "Execution": {"Name": ex["name"]}}})
                mid = None if via == "raw-noid" else ex.get("mid", "raw-%d-%s" % (i, ex["name"]))
                sim.count("raw-start-event")
                sim.broker.basic_publish(res._rawch.rec, "", "asl_workflow_events" + sfx, body.encode(),
                                         Props(content_type="application/json", message_id=mid, delivery_mode=2))
                parts = sm.split(":")
                res.exec_arns[ex["name"]] = ":".join(parts[:5] + ["execution", parts[6], ex["name"]])
                res.start_calls.append((ex, {"status": 200, "json": {"executionArn": res.exec_arns[ex["name"]]},
                                             "t0": sim.now, "step0": sim.steps, "raw": True}))
                return
            params = {"stateMachineArn": res.sm_arns[ex["machine"]], "input": json.dumps(ex["input"])}
            if ex.get("name") is not None:
                params["name"] = ex["name"]
            action = "StartSyncExecution" if via == "sync" else "StartExecution"
            rec = w.api.call(node, action, params)
            res.start_calls.append((ex, rec))
        sim.call_at(t0 + ex.get("at", 0.0), launch, None, kind="client", label="start%d" % i)
    for k, fl in enumerate(scenario.get("faults") or []):
        def fire(fl=fl):
            node = w.nodes[fl.get("node", 0) % len(w.nodes)]
            if fl["kind"] == "stall":
                if not node.dead:
                    node.stall(fl["duration"])
                    sim.log("FAULT", "stall", node.name, fl["duration"])
            elif fl["kind"] == "crash":
                if not node.dead:
                    node.crash("fault")
                    node.teardown()
            elif fl["kind"] == "restart":
                if node.dead:
                    node.restart()
                    sim.count("restart")
            elif fl["kind"] == "clock-jump":
                # the wall clock of the host is stepped (NTP correction, operator): armed timers keep their delays,
                # whatever is computed from time.time() afterwards sees the new time
                sim.wall_offset += fl["delta"]
                sim.count("clock-jump")
                sim.log("FAULT", "clock-jump", fl["delta"])
        sim.call_at(t0 + fl["at"], fire, None, kind="fault", label=fl["kind"])
    if before_run is not None:
        before_run(res)
    res.end_reason = w.run_quiescent(limit=horizon)
    if settle and (settle_if is None or settle_if(res)):
        # let late timers (orphan retention etc.) run
        w.run_for(settle)
        res.end_reason = w.run_quiescent(limit=horizon)
    for ex, rec in res.start_calls:
        if rec is not None and rec["status"] == 200 and isinstance(rec["json"], dict):
            res.exec_arns[ex.get("name") or rec["json"].get("executionArn")] = rec["json"].get("executionArn")
    for m in monitors:
        m.finish(res)
        res.findings.extend(m.findings)
    return res


# ---------------------------------------------------------------------------------------
# loose comparison of model values against engine values
# ---------------------------------------------------------------------------------------
def loose_equal(model, engine):
    if isinstance(model, tuple):
        if model and model[0] == "__contains__":
            return isinstance(engine, str) and model[1] in engine
        if model and model[0] == "__oneof__":
            return engine in model[1]
        if model and model[0] == "__time__":
            return isinstance(engine, str)
        return False
    if isinstance(model, dict):
        if not isinstance(engine, dict) or set(model.keys()) != set(engine.keys()):
            return False
        return all(loose_equal(v, engine[k]) for k, v in model.items())
    if isinstance(model, list):
        if not isinstance(engine, list) or len(model) != len(engine):
            return False
        return all(loose_equal(a, b) for a, b in zip(model, engine))
    if isinstance(model, bool) or isinstance(engine, bool):
        return model is engine
    if isinstance(model, (int, float)) and isinstance(engine, (int, float)):
        return model == engine
    return type(model) is type(engine) and model == engine


def jsonable(v):
    if isinstance(v, tuple):
        return {"__model__": [jsonable(x) for x in v]}
    if isinstance(v, dict):
        return {k: jsonable(x) for k, x in v.items()}
    if isinstance(v, list):
        return [jsonable(x) for x in v]
    return v
