"""
Deterministic discrete-event simulator core.

One Sim object owns: the virtual clock, every pending event (loop handles,
timers, broker deliveries, worker/client actions, faults), the PRNGs and the
trace digest.  Nothing in here reads a real clock or an unseeded PRNG.

Event sources
-------------
* per-node FIFO of asyncio "ready" handles   (key ("loop", node))
* individual timed items (timers, actions)    (key ("item", seq))
* broker queues with a deliverable head        (key ("queue", name))

A scheduler step collects the enabled sources (due <= now), advances the clock
to the earliest due time when none is enabled, and lets the policy pick one.
"""
import hashlib
import heapq
import random
from collections import deque

EPOCH = 1_700_000_000.0


class SimCrash(BaseException):
    """Raised out of any simulated I/O call made by a crashed node."""


class SimStop(BaseException):
    """Used to unwind blocking start_consuming()."""


class HarnessError(Exception):
    """A defect of the simulator/harness itself (never a property violation)."""


class Item(object):
    __slots__ = ("due", "seq", "node", "fn", "kind", "cancelled", "periodic", "label", "ctx")

    def __init__(self, due, seq, node, fn, kind, label=""):
        self.due = due
        self.seq = seq
        self.node = node
        self.fn = fn
        self.kind = kind
        self.cancelled = False
        self.periodic = False
        self.label = label
        self.ctx = None

    def cancel(self):
        self.cancelled = True

    def __lt__(self, other):
        return (self.due, self.seq) < (other.due, other.seq)


class Sim(object):
    current = None  # the Sim being run in this process (one at a time)

    def __init__(self, seed, policy="canonical", epoch=EPOCH, latency=None,
                 max_steps=200000, max_virtual=400000.0):
        self.seed = seed
        self.rng = random.Random((seed << 4) ^ 0x5EED)       # scheduling decisions
        self.rng_ids = random.Random((seed << 4) ^ 0x1D5)    # uuid4 stream
        self.rng_lat = random.Random((seed << 4) ^ 0x1A7)    # latencies
        self.policy = policy
        self.epoch = epoch
        self.now = epoch
        self.seq = 0
        self.steps = 0
        self.max_steps = max_steps
        self.max_virtual = max_virtual
        self.items = []            # heap of Item
        self.loopq = {}            # node -> deque of (seq, handle)
        self.nodes = {}            # name -> node object (has .dead, .stalled_until)
        self.current_node = None
        self.digest = hashlib.sha256()
        self.trace_on = False
        self.trace = []
        self.choices = []          # recorded scheduler choices (indices)
        self.replay_choices = None # list to replay from
        self.latency = latency or {}
        self.after_step = []       # monitor callbacks run after every step
        self.errors = []           # harness-level anomalies (exceptions escaping handlers)
        self.stats = {}
        self.wall_offset = 0.0     # what time.time() shows minus the simulator's monotonic now (clock-jump faults)
        self.pct_prio = {}
        self.pct_changes = set()
        self.order_hash = hashlib.sha256()
        self.ctx_tag = None
        from lsfsim.broker import Broker
        self.broker = Broker(self)
        Sim.current = self

    # -- bookkeeping ------------------------------------------------------
    def count(self, name, n=1):
        self.stats[name] = self.stats.get(name, 0) + n

    def log(self, *parts):
        s = "|".join(str(p) for p in parts)
        self.digest.update(s.encode("utf8", "replace"))
        self.digest.update(b"\n")
        if self.trace_on:
            self.trace.append(s)

    def next_seq(self):
        self.seq += 1
        return self.seq

    # -- scheduling primitives -----------------------------------------------
    def call_later(self, delay, fn, node=None, kind="timer", label=""):
        if delay < 0:
            delay = 0
        it = Item(self.now + delay, self.next_seq(), node, fn, kind, label)
        it.ctx = self.ctx_tag
        heapq.heappush(self.items, it)
        return it

    def call_at(self, when, fn, node=None, kind="timer", label=""):
        it = Item(max(when, self.now), self.next_seq(), node, fn, kind, label)
        heapq.heappush(self.items, it)
        return it

    def call_soon(self, fn, node=None, label=""):
        """FIFO per node ready queue (asyncio call_soon semantics)."""
        if node is None:
            node = self.current_node
        q = self.loopq.get(node)
        if q is None:
            q = self.loopq[node] = deque()
        h = Item(self.now, self.next_seq(), node, fn, "soon", label)
        q.append(h)
        return h

    def draw_latency(self, cls):
        spec = self.latency.get(cls)
        if not spec:
            return 0.0
        kind = spec[0]
        if kind == "fixed":
            return spec[1]
        if kind == "uniform_ms":
            return self.rng_lat.randint(spec[1], spec[2]) / 1000.0
        if kind == "heavy_ms":
            # mostly small, sometimes seconds
            if self.rng_lat.random() < spec[3]:
                return self.rng_lat.randint(1000, spec[4]) / 1000.0
            return self.rng_lat.randint(spec[1], spec[2]) / 1000.0
        if kind == "choice":
            return self.rng_lat.choice(spec[1])
        raise HarnessError("bad latency spec %r" % (spec,))

    # -- node state -------------------------------------------------------------
    def node_blocked_until(self, node):
        if node is None:
            return None
        n = self.nodes.get(node)
        if n is None:
            return None
        if n.dead:
            return float("inf")
        return n.stalled_until

    # -- the scheduler -----------------------------------------------------------
    def _candidates(self):
        """Return list of (due, seq, key, fire) for every pending source."""
        cands = []
        # prune cancelled heap heads lazily
        items = self.items
        while items and items[0].cancelled:
            heapq.heappop(items)
        if len(items) > 64 and sum(1 for it in items if it.cancelled) * 2 > len(items):
            # drop consumed / cancelled entries (they are never looked at again) to keep the scan short
            items[:] = [it for it in items if not it.cancelled]
            heapq.heapify(items)
        for it in items:
            if it.cancelled:
                continue
            due = it.due
            b = self.node_blocked_until(it.node)
            if b is not None:
                if b == float("inf"):
                    continue
                if b > due:
                    due = b
            cands.append((due, it.seq, ("item", it.seq), it))
        for node, q in self.loopq.items():
            while q and q[0].cancelled:
                q.popleft()
            if not q:
                continue
            h = q[0]
            due = h.due
            b = self.node_blocked_until(node)
            if b is not None:
                if b == float("inf"):
                    continue
                if b > due:
                    due = b
            cands.append((due, h.seq, ("loop", node), h))
        for due, seq, qname in self.broker.deliverable():
            cands.append((due, seq, ("queue", qname), None))
        return cands

    def _nonperiodic(self, cands):
        for c in cands:
            if c[2][0] != "item" or not c[3].periodic:
                return True
        return False

    def pending_nonperiodic(self):
        for it in self.items:
            if not it.cancelled and not it.periodic:
                n = self.nodes.get(it.node) if it.node is not None else None
                if n is not None and n.dead:
                    continue
                return True
        for node, q in self.loopq.items():
            n = self.nodes.get(node) if node is not None else None
            if n is not None and n.dead:
                continue
            for h in q:
                if not h.cancelled:
                    return True
        for _ in self.broker.deliverable():
            return True
        return False

    def _pick(self, enabled):
        """enabled: non-empty list of candidates all with due <= now."""
        if self.replay_choices is not None:
            if self.replay_choices:
                i = self.replay_choices.pop(0)
                if i < len(enabled):
                    return i
            return 0
        pol = self.policy
        if len(enabled) == 1 or pol in ("canonical", "latency"):
            return 0
        if pol == "shuffle":
            return self.rng.randrange(len(enabled))
        if pol == "pct":
            if self.steps in self.pct_changes:
                # demote a random source class
                k = self.rng.choice(enabled)[2]
                self.pct_prio[self._pct_key(k)] = -self.steps
            best = None
            besti = 0
            for i, c in enumerate(enabled):
                pk = self._pct_key(c[2])
                p = self.pct_prio.get(pk)
                if p is None:
                    p = self.pct_prio[pk] = self.rng.random()
                if best is None or p > best:
                    best, besti = p, i
            return besti
        raise HarnessError("unknown policy %r" % pol)

    @staticmethod
    def _pct_key(key):
        # group timers together by node; queues and loops individually
        return key if key[0] != "item" else ("item",)

    def step(self, cands=None):
        """Run one event. Returns False when nothing at all is pending."""
        if cands is None:
            cands = self._candidates()
        if not cands:
            return False
        cands.sort(key=lambda c: (c[0], c[1]))
        first_due = cands[0][0]
        if first_due > self.now:
            self.now = first_due
        enabled = [c for c in cands if c[0] <= self.now]
        i = self._pick(enabled)
        if self.replay_choices is None:
            self.choices.append(i)
        due, seq, key, obj = enabled[i]
        self.steps += 1
        self.log("S", self.steps, "%.6f" % (self.now - self.epoch), key[0], key[1] if key[0] != "item" else obj.kind + ":" + obj.label)
        if key[0] == "queue":
            self.order_hash.update(("q:%s;" % key[1]).encode())
            self.broker.deliver_one(key[1])
        else:
            if key[0] == "item":
                obj.cancelled = True  # consumed
                self.order_hash.update(("i:%s:%s;" % (obj.kind, obj.label)).encode())
            else:
                self.loopq[key[1]].popleft()
                self.order_hash.update(("l:%s;" % (key[1],)).encode())
            self.run_callback(obj.node, obj.fn)
        for cb in self.after_step:
            cb()
        return True

    def run_callback(self, node, fn, *args):
        """Run fn on behalf of node, handling crash propagation."""
        prev = self.current_node
        self.current_node = node
        try:
            return fn(*args)
        except SimCrash:
            pass
        except SimStop:
            pass
        except Exception as e:  # what the hosting event loop would do: log it and carry on
            n = self.nodes.get(node)
            if n is None and not (isinstance(node, str) and node.startswith("client:")):
                raise
            import traceback
            self.errors.append(("callback", node, repr(e), traceback.format_exc()[-4000:]))
            self.log("CBERR", node, type(e).__name__)
            self.count("callback_exception")
            if n is not None and n.transport == "blocking" and not n.dead:
                # BlockingConnection: the exception leaves start_consuming(), EventDispatcher.start() logs it
                # and calls sys.exit(1)
                n.crash("exception-in-callback")
        except SystemExit as e:
            n = self.nodes.get(node)
            self.log("EXIT", node, e.code)
            self.count("node_sys_exit")
            if n is not None and not n.dead:
                n.crash("sys.exit")
        finally:
            self.current_node = prev
            # complete any crash requested during the callback
            for n in list(self.nodes.values()):
                if n.dead and not n.torn_down:
                    n.teardown()

    def run(self, until=None, stop_when=None, quiesce=True):
        """
        Run until: virtual time `until` (absolute offset from epoch) is passed,
        stop_when() returns True, or (quiesce) only periodic timers remain.
        """
        limit = self.epoch + (until if until is not None else self.max_virtual)
        while True:
            if self.steps >= self.max_steps:
                raise HarnessError("step cap %d reached at t=%.3f" % (self.max_steps, self.now - self.epoch))
            if stop_when is not None and stop_when():
                return "stop"
            cands = self._candidates()
            if not cands:
                return "empty"
            if quiesce and not self._nonperiodic(cands):
                return "quiescent"
            nxt = min(c[0] for c in cands)
            if nxt > limit:
                self.now = max(self.now, limit)
                return "time"
            self.step(cands)

    def hexdigest(self):
        return self.digest.hexdigest()
