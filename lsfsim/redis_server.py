"""
In-process model of a Redis server: hashes, lists, strings, TTL on the virtual
clock, SCAN with paging, pub/sub and server-assisted client tracking in RESP2
redirect mode (keys read on a tracking connection are remembered once; the
first later modification / delete / expiry queues one `__redis__:invalidate`
message for the redirect client, delivered when the scheduler says so).
"""
import fnmatch


class RedisError(Exception):
    pass


class RedisServer(object):
    def __init__(self, sim, scan_page=10, version="7.0.11"):
        self.sim = sim
        self.data = {}        # key(str) -> ("hash", dict) | ("list", list) | ("string", bytes)
        self.expiry = {}      # key -> absolute virtual time
        self.next_client = 1
        self.tracking = {}    # client id -> redirect client id
        self.noloop = set()   # tracking clients that asked not to be told about their own modifications
        self.writer = None    # client of the command being executed
        self.tracked = {}     # key -> set(client ids that read it while tracking)
        self.subs = {}        # channel -> list of (client id, callable(message) or None, pubsub)
        self.scan_page = scan_page
        self.version = version
        self.stats = {"invalidations_queued": 0, "invalidations_delivered": 0, "commands": 0, "expired": 0,
                      "faults": 0}
        self.fail_next = []   # fault plan: list of command names to fail once
        self.cursors = {}
        self.next_cursor = 0
        self.inval_sink = None      # callable(target client id, key): a harness that places deliveries itself
        self.boundary_hook = None   # callable(client id, command name): called after every command (pre-emption point)
        self.oplog = []

    # -- helpers --------------------------------------------------------------------
    def new_client(self):
        cid = self.next_client
        self.next_client += 1
        return cid

    def _expire_now(self, key):
        t = self.expiry.get(key)
        if t is not None and self.sim.now > t:    # Redis: keyIsExpired() is `now > when`
            self.expiry.pop(key, None)
            if key in self.data:
                del self.data[key]
                self.stats["expired"] += 1
                self._touched(key, by_expiry=True)

    def _get(self, key, kind=None):
        self._expire_now(key)
        v = self.data.get(key)
        if v is None:
            return None
        if kind and v[0] != kind:
            raise RedisError("WRONGTYPE Operation against a key holding the wrong kind of value")
        return v[1]

    def _read(self, client, key):
        """Remember that a tracking client has this key in its cache."""
        if client in self.tracking:
            self.tracked.setdefault(key, set()).add(client)

    def _touched(self, key, by_expiry=False):
        """A key was modified/deleted/expired: invalidate every client that tracked it (once)."""
        clients = self.tracked.pop(key, None)
        if not clients:
            return
        for c in sorted(clients):
            target = self.tracking.get(c)
            if target is None:
                continue
            if c in self.noloop and not by_expiry and c == self.writer:
                # CLIENT TRACKING ... NOLOOP: no notification for keys modified by this connection itself
                self.stats["invalidations_suppressed_noloop"] = self.stats.get("invalidations_suppressed_noloop", 0) + 1
                continue
            self.stats["invalidations_queued"] += 1
            if self.inval_sink is not None:
                self.inval_sink(target, key)
            else:
                self._publish_to("__redis__:invalidate", [key.encode("utf8")], only_client=target,
                                 latency_class="inval")

    def _cmd(self, name, client):
        self.stats["commands"] += 1
        self.writer = client
        if self.fail_next and self.fail_next[0] == name:
            self.fail_next.pop(0)
            self.stats["faults"] += 1
            raise RedisError("simulated server error on %s" % name)

    # -- generic ------------------------------------------------------------------------
    def delete(self, client, *keys):
        self._cmd("DEL", client)
        n = 0
        for k in keys:
            self._expire_now(k)
            if k in self.data:
                del self.data[k]
                self.expiry.pop(k, None)
                n += 1
                self._touched(k)
        return n

    def exists(self, client, key):
        self._cmd("EXISTS", client)
        self._read(client, key)
        return 1 if self._get(key) is not None else 0

    def expire(self, client, key, ttl):
        self._cmd("EXPIRE", client)
        if self._get(key) is None:
            return 0
        self.expiry[key] = self.sim.now + float(ttl)
        # the server's active expiry: does not keep a simulation from being quiescent
        it = self.sim.call_at(self.expiry[key] + 0.001, lambda: self._expire_now(key), None, kind="redis-expire", label=key)
        it.periodic = True
        return 1

    def sweep(self):
        """Active expiry of everything that is due."""
        for k in sorted(self.expiry):
            self._expire_now(k)

    def ttl(self, key):
        self._expire_now(key)
        if key not in self.data:
            return -2
        if key not in self.expiry:
            return -1
        return self.expiry[key] - self.sim.now

    def scan(self, client, cursor, match=None):
        """
        SCAN as the real server behaves for callers: COUNT keys of the *whole* keyspace are visited per call and MATCH
        filters afterwards (so a page can be empty while the cursor is not 0); a key present for the whole iteration
        is returned exactly once even when other keys come and go (the cursor remembers the last key visited).
        """
        self._cmd("SCAN", client)
        for k in list(self.data):
            self._expire_now(k)
        keys = sorted(self.data)
        cursor = int(cursor)
        if cursor == 0:
            after = None
        else:
            if cursor not in self.cursors:
                raise RedisError("ERR invalid cursor")
            after = self.cursors[cursor]
        rest = [k for k in keys if after is None or k > after]
        page = rest[:self.scan_page]
        if len(rest) <= self.scan_page:
            nxt = 0
        else:
            self.next_cursor += 1
            nxt = self.next_cursor
            self.cursors[nxt] = page[-1]
        out = [k.encode("utf8") for k in page if match is None or fnmatch.fnmatchcase(k, match)]
        if not out and nxt:
            self.stats["empty_scan_pages"] = self.stats.get("empty_scan_pages", 0) + 1
        return nxt, out

    # -- hashes ------------------------------------------------------------------------------
    def hset(self, client, key, field, value):
        self._cmd("HSET", client)
        h = self._get(key, "hash")
        if h is None:
            h = {}
            self.data[key] = ("hash", h)
        new = field not in h
        h[field] = value
        self._touched(key)
        return 1 if new else 0

    def hset_many(self, client, key, mapping):
        self._cmd("HSET", client)
        if not mapping:
            return 0
        h = self._get(key, "hash")
        if h is None:
            h = {}
            self.data[key] = ("hash", h)
        n = sum(1 for f in mapping if f not in h)
        h.update(mapping)
        self._touched(key)
        return n

    def hget(self, client, key, field):
        self._cmd("HGET", client)
        self._read(client, key)
        h = self._get(key, "hash")
        return None if h is None else h.get(field)

    def hgetall(self, client, key):
        self._cmd("HGETALL", client)
        self._read(client, key)
        h = self._get(key, "hash")
        return dict(h) if h else {}

    def hdel(self, client, key, field):
        self._cmd("HDEL", client)
        h = self._get(key, "hash")
        if h is None or field not in h:
            return 0
        del h[field]
        if not h:
            del self.data[key]
            self.expiry.pop(key, None)
        self._touched(key)
        return 1

    def hlen(self, client, key):
        self._cmd("HLEN", client)
        self._read(client, key)
        h = self._get(key, "hash")
        return len(h) if h else 0

    def hexists(self, client, key, field):
        self._cmd("HEXISTS", client)
        self._read(client, key)
        h = self._get(key, "hash")
        return 1 if h and field in h else 0

    # -- lists ---------------------------------------------------------------------------------
    def rpush(self, client, key, *values):
        self._cmd("RPUSH", client)
        lst = self._get(key, "list")
        if lst is None:
            lst = []
            self.data[key] = ("list", lst)
        lst.extend(values)
        self._touched(key)
        return len(lst)

    def llen(self, client, key):
        self._cmd("LLEN", client)
        self._read(client, key)
        lst = self._get(key, "list")
        return len(lst) if lst else 0

    def lrange(self, client, key, start, stop):
        self._cmd("LRANGE", client)
        self._read(client, key)
        lst = self._get(key, "list") or []
        n = len(lst)
        if start < 0:
            start = max(n + start, 0)
        if stop < 0:
            stop = n + stop
        return list(lst[start:stop + 1])

    def lindex(self, client, key, index):
        self._cmd("LINDEX", client)
        self._read(client, key)
        lst = self._get(key, "list") or []
        try:
            return lst[index]
        except IndexError:
            return None

    def lset(self, client, key, index, value):
        self._cmd("LSET", client)
        lst = self._get(key, "list")
        if lst is None:
            raise RedisError("ERR no such key")
        try:
            lst[index] = value
        except IndexError:
            raise RedisError("ERR index out of range")
        self._touched(key)
        return True

    # -- tracking / pubsub ---------------------------------------------------------------------------
    def drop_client(self, client):
        """The connection is gone (process died or closed it)."""
        self.tracking.pop(client, None)
        self.noloop.discard(client)
        for k in list(self.tracked):
            self.tracked[k].discard(client)
            if not self.tracked[k]:
                del self.tracked[k]

    def client_tracking(self, client, on, redirect=None, options=()):
        self._cmd("CLIENT", client)
        if int(self.version.split(".")[0]) < 6:
            raise RedisError("ERR Unknown subcommand or wrong number of arguments for 'TRACKING'. Try CLIENT HELP")
        for o in options:
            if o in ("BCAST", "OPTIN", "OPTOUT", "PREFIX"):
                raise RedisError("ERR CLIENT TRACKING %s is not modelled by this simulated server" % o)
            if o != "NOLOOP":
                raise RedisError("ERR syntax error")
        if on:
            self.tracking[client] = redirect
            if "NOLOOP" in options:
                self.noloop.add(client)
            else:
                self.noloop.discard(client)
        else:
            self.tracking.pop(client, None)
            self.noloop.discard(client)
            for k in list(self.tracked):
                self.tracked[k].discard(client)
                if not self.tracked[k]:
                    del self.tracked[k]
        return b"OK"

    def subscribe(self, client, channel, handler, pubsub):
        lst = self.subs.setdefault(channel, [])
        lst[:] = [s for s in lst if s[2] is not pubsub]
        lst.append((client, handler, pubsub))

    def publish(self, client, channel, data):
        self._cmd("PUBLISH", client)
        if isinstance(data, str):
            data = data.encode("utf8")
        return self._publish_to(channel, data)

    def subscribers(self, channel, client):
        return [s for s in self.subs.get(channel, []) if s[0] == client and not s[2]._dead]

    def _publish_to(self, channel, data, only_client=None, latency_class=None):
        n = 0
        for (cid, handler, pubsub) in list(self.subs.get(channel, [])):
            if only_client is not None and cid != only_client:
                continue
            n += 1
            msg = {"type": "message", "pattern": None, "channel": channel.encode("utf8"), "data": data}
            node = pubsub._node
            delay = self.sim.draw_latency(latency_class) if latency_class else 0.0

            def deliver(handler=handler, pubsub=pubsub, msg=msg):
                if pubsub._dead:
                    return
                self.stats["invalidations_delivered"] += 1 if msg["channel"] == b"__redis__:invalidate" else 0
                pubsub._deliver(msg)
            if latency_class:
                self.sim.call_later(delay, deliver, node, kind="invalidate", label=channel)
            else:
                self.sim.call_later(0.0, deliver, node, kind="pubsub", label=channel)
        return n
