"""
Independent reading of the address grammar documented in
amqp_0_9_1_messaging*.Destination.parse_address:

   <name> [ / <subject> ] [ ; <options> ]      options: {"node": {...}, "link": {...}}

Returns what a Producer / Consumer for that address must declare at the broker
(exchange / queue declarations, bindings, consume flags), given which exchanges
already exist.
"""
import json


def parse(address):
    parts = address.split(";")
    opts = json.loads(parts[1]) if len(parts) == 2 else {}
    head = parts[0].split("/")
    name = head[0].strip()
    subject = head[1].strip() if len(head) == 2 else ""
    if len(name) >= 2 and name[0] == "{":
        opts = json.loads(name)
        name = ""
    node = opts.get("node") or {}
    link = opts.get("link") or {}
    nd = dict(node.get("x-declare") or {}) if isinstance(node.get("x-declare"), dict) else {}
    ld = dict(link.get("x-declare") or {}) if isinstance(link.get("x-declare"), dict) else {}
    ls = dict(link.get("x-subscribe") or {}) if isinstance(link.get("x-subscribe"), dict) else {}
    return {"name": name, "subject": subject, "node": node, "link": link, "node_declare": nd, "link_declare": ld,
            "subscribe": ls, "bindings": node.get("x-bindings") if isinstance(node.get("x-bindings"), list) else []}


def consumer_expectation(address, existing_exchanges):
    """For a plain queue address (the forms the engine uses): the queue declared and the consume flags."""
    a = parse(address)
    name = a["name"]
    if not name and a["node"].get("type") == "queue":
        name = a["node_declare"].get("queue", "")
    is_exchange = name in existing_exchanges or (a["subject"] and name == a["node_declare"].get("exchange"))
    exp = {"declares_exchange": a["node_declare"].get("exchange") or None}
    if is_exchange:
        qname = a["node_declare"].get("queue") or a["link_declare"].get("queue") or ""
        decl = a["node_declare"] if a["node_declare"].get("queue") else a["link_declare"]
        durable = bool(decl.get("durable", False))
        exclusive = bool(decl.get("exclusive", not a["node_declare"].get("queue")))
        auto_delete = bool(decl.get("auto-delete", not a["node_declare"].get("queue"))) or qname == ""
        exp.update(queue=qname or None, durable=durable, exclusive_queue=exclusive, auto_delete=auto_delete,
                   bind=(name, a["subject"]) if a["subject"] and not a["bindings"] else None)
    else:
        nd = a["node_declare"]
        durable = bool(nd.get("durable", False)) or bool(a["node"].get("durable"))
        auto_delete = bool(nd.get("auto-delete", False)) or bool(a["node"].get("auto-delete")) or name == ""
        exp.update(queue=name or None, durable=durable, exclusive_queue=bool(nd.get("exclusive", False)),
                   auto_delete=auto_delete, bind=None, arguments=nd.get("arguments"))
    exp["consume_exclusive"] = bool(a["subscribe"].get("exclusive", False))
    exp["consume_arguments"] = a["subscribe"].get("arguments")
    exp["explicit_bindings"] = [(b.get("queue"), b.get("exchange"), b.get("key")) for b in a["bindings"] if b.get("exchange")]
    return exp


def producer_expectation(address, existing_exchanges):
    a = parse(address)
    name = a["name"]
    nd = a["node_declare"]
    if not name:
        name = nd.get("exchange", "") or nd.get("queue", "")
    exp = {"declares_exchange": None}
    if nd.get("exchange"):
        exp["declares_exchange"] = (nd["exchange"], nd.get("exchange-type", "direct"), bool(nd.get("durable", False)) or
                                    bool(a["node"].get("durable")), bool(nd.get("auto-delete", False)) or
                                    bool(a["node"].get("auto-delete")))
    if name and (name in existing_exchanges or name == nd.get("exchange")):
        exp["exchange"] = name
        exp["default_key"] = a["subject"]
    else:
        exp["exchange"] = ""
        exp["default_key"] = name if name else a["subject"]
    return exp
