"""
Reference model of the state-machine / execution API: a map from ARN to
record.  expect(action, params, now) returns what a conforming service may
answer, apply() commits the effect of a successful call.

An expectation is a dict:
  {"ok": True, "check": fn(json_body) -> None | "what differs"}     status 200
  {"ok": False, "types": {acceptable __type values}}                status 400
Where the AWS documentation leaves the error type for an argument open, the
set contains every documented type that fits (never a 5xx).
"""
import json
import re

ROLE_RE = re.compile(r"^arn:aws:iam::[0-9]+:role/.+$")
SM_RE = re.compile(r"^arn:aws:states:[^:]+:[0-9]+:stateMachine:.+$")
EX_RE = re.compile(r"^arn:aws:states:[^:]+:[0-9]+:execution:.+$")
BAD_NAME = set(' <>{}[]?*"#%\\^|~`$&,;:/')
MISSING = {"MissingRequiredParameter", "ValidationException"}


def valid_name(n):
    return isinstance(n, str) and 1 <= len(n) <= 80 and not (set(n) & BAD_NAME) and \
        all(ord(c) > 31 and ord(c) != 127 for c in n)


class _Any(object):
    def __contains__(self, x):
        return True

    def __iter__(self):
        return iter(["<any client error>"])


ANY_TYPE = _Any()


class ApiModel(object):
    def __init__(self, region="local", front_end="asyncio", validate_asl=False):
        self.region = region
        self.front_end = front_end
        # without validate_asl the service stores whatever parses as JSON (it only logs what the validator says):
        # for a definition that is JSON but not an object either answer is accepted and the model follows the service
        self.validate_asl = validate_asl
        self.sm = {}      # arn -> record
        self.ex = {}      # arn -> record (STANDARD only)

    # -- helpers ----------------------------------------------------------------------
    def sm_arn(self, role_arn, name):
        account = role_arn.split(":")[4]
        return "arn:aws:states:%s:%s:stateMachine:%s" % (self.region, account, name)

    @staticmethod
    def err(*types):
        s = set()
        for t in types:
            s |= t if isinstance(t, set) else {t}
        return {"ok": False, "types": s}

    def arn_arg(self, params, key, regex):
        v = params.get(key)
        if v is None or v == "":
            return None, self.err(MISSING, "InvalidArn")
        if not isinstance(v, str) or len(v) > 256 or not regex.match(v):
            return None, self.err("InvalidArn", "ValidationException")
        return v, None

    # -- the API ------------------------------------------------------------------------
    def expect(self, action, params, now):
        if not isinstance(params, dict):
            # not a JSON object: a client error, never a server error
            return {"ok": False, "types": None, "status_class": 4}
        fn = getattr(self, "x_" + action, None)
        if fn is None:
            return {"ok": False, "types": None, "status_class": 4}
        return fn(params, now)

    def x_CreateStateMachine(self, p, now):
        name = p.get("name")
        if not valid_name(name):
            return self.err("InvalidName", MISSING if name is None else set())
        role = p.get("roleArn")
        if not isinstance(role, str) or not ROLE_RE.match(role) or len(role) > 256:
            return self.err("InvalidArn", MISSING if role is None else set())
        typ = p.get("type", "STANDARD")
        if typ not in ("STANDARD", "EXPRESS"):
            return self.err("StateMachineTypeNotSupported", "ValidationException")
        arn = self.sm_arn(role, name)
        d = p.get("definition")
        lc = p.get("loggingConfiguration")
        bad_lc = self._bad_lc(lc)
        parsed = None
        bad_def = False
        lenient = False
        if not isinstance(d, str) or d == "" or len(d) > 1048576:
            bad_def = True
        else:
            try:
                parsed = json.loads(d)
            except ValueError:
                bad_def = True
            if not bad_def and not isinstance(parsed, dict):
                if not parsed:
                    bad_def = True
                else:
                    # JSON, but not an object: the validator's business (C18); either answer accepted here
                    lenient = True
        if arn in self.sm:
            # which of several problems is reported first is not specified
            types = {"StateMachineAlreadyExists"}
            if bad_def or lenient:
                types |= {"InvalidDefinition", "MissingRequiredParameter"}
            if bad_lc:
                types |= {"InvalidLoggingConfiguration"}
            return {"ok": False, "types": types}
        if bad_def:
            return self.err("InvalidDefinition", MISSING if d is None or d == "" else set(),
                            {"MissingRequiredParameter"} if parsed is not None else set())
        if bad_lc:
            return self.err("InvalidLoggingConfiguration", {"InvalidDefinition"} if lenient else set())
        rec = {"name": name, "roleArn": role, "type": typ, "definition": parsed, "stateMachineArn": arn,
               "creationDate": now, "updateDate": now, "status": "ACTIVE", "loggingConfiguration": None}
        if self.front_end == "asyncio":
            l2 = dict(lc or {})
            l2.setdefault("level", "OFF")
            rec["loggingConfiguration"] = l2

        def check(body):
            if body.get("stateMachineArn") != arn:
                return "stateMachineArn %r != %r" % (body.get("stateMachineArn"), arn)
            if abs(body.get("creationDate", -1) - now) > 1e-3:
                return "creationDate %r != %r" % (body.get("creationDate"), now)
        out = {"ok": True, "check": check, "commit": lambda: self.sm.__setitem__(arn, rec)}
        if lenient:
            out["lenient"] = True
            out["types"] = {"InvalidDefinition"}
        return out

    def _bad_lc(self, lc):
        if lc is None or self.front_end != "asyncio":
            return False
        if not isinstance(lc, dict):
            return True
        lvl = lc.get("level", "OFF")
        if lvl not in ("OFF", "ALL", "ERROR", "FATAL"):
            return True
        if lvl != "OFF":
            dst = lc.get("destinations")
            return not (isinstance(dst, list) and len(dst) == 1)
        return False

    def x_DescribeStateMachine(self, p, now):
        arn, e = self.arn_arg(p, "stateMachineArn", SM_RE)
        if e:
            return e
        if arn not in self.sm:
            return self.err("StateMachineDoesNotExist")
        rec = self.sm[arn]

        def check(body):
            for k in ("name", "roleArn", "type", "stateMachineArn", "status"):
                if body.get(k) != rec[k]:
                    return "%s %r != %r" % (k, body.get(k), rec[k])
            for k in ("creationDate", "updateDate"):
                if abs(body.get(k, -1) - rec[k]) > 1e-3:
                    return "%s %r != %r" % (k, body.get(k), rec[k])
            try:
                d = json.loads(body.get("definition"))
            except (TypeError, ValueError):
                return "definition is not JSON text: %r" % (body.get("definition"),)
            if d != rec["definition"]:
                return "definition %r != %r" % (d, rec["definition"])
            if rec.get("loggingConfiguration") is not None and body.get("loggingConfiguration") != rec["loggingConfiguration"]:
                return "loggingConfiguration %r != %r" % (body.get("loggingConfiguration"), rec["loggingConfiguration"])
        return {"ok": True, "check": check}

    def x_ListStateMachines(self, p, now):
        want = sorted((r["stateMachineArn"], r["name"], r["type"], round(r["creationDate"], 3)) for r in self.sm.values())

        def check(body):
            got = sorted((r.get("stateMachineArn"), r.get("name"), r.get("type"), round(r.get("creationDate", -1), 3))
                         for r in body.get("stateMachines", []))
            if got != want:
                return "state machines %r != %r" % (got, want)
        return {"ok": True, "check": check}

    def x_UpdateStateMachine(self, p, now):
        arn, e = self.arn_arg(p, "stateMachineArn", SM_RE)
        if e:
            return e
        if arn not in self.sm:
            return self.err("StateMachineDoesNotExist")
        rec = self.sm[arn]
        role = p.get("roleArn")
        d = p.get("definition")
        lc = p.get("loggingConfiguration") if self.front_end == "asyncio" else None
        problems = set()
        lenient = False
        new = dict(rec)
        if role is not None and role != "":
            if not isinstance(role, str) or not ROLE_RE.match(role) or len(role) > 256:
                problems.add("InvalidArn")
            else:
                new["roleArn"] = role
        if d is not None and d != "":
            parsed = None
            if not isinstance(d, str) or len(d) > 1048576:
                problems.add("InvalidDefinition")
            else:
                try:
                    parsed = json.loads(d)
                except ValueError:
                    problems.add("InvalidDefinition")
                if parsed is not None and not isinstance(parsed, dict):
                    if not parsed:
                        problems |= {"InvalidDefinition", "MissingRequiredParameter"}
                    else:
                        lenient = True
                        new["definition"] = parsed
                elif parsed is not None:
                    new["definition"] = parsed
        if not role and not d:
            problems |= {"MissingRequiredParameter", "ValidationException"}
        if lc:
            if not isinstance(lc, dict):
                problems.add("InvalidLoggingConfiguration")
            else:
                lvl = lc.get("level", "OFF")
                ok = lvl in ("OFF", "ALL", "ERROR", "FATAL")
                if ok and lvl != "OFF":
                    dst = lc.get("destinations")
                    ok = isinstance(dst, list) and len(dst) == 1
                if not ok:
                    problems.add("InvalidLoggingConfiguration")
                else:
                    l2 = dict(lc)
                    l2.setdefault("level", "OFF")
                    new["loggingConfiguration"] = l2
        if problems:
            return {"ok": False, "types": problems}
        new["updateDate"] = now

        def check(body):
            if abs(body.get("updateDate", -1) - now) > 1e-3:
                return "updateDate %r != %r" % (body.get("updateDate"), now)
            if not body.get("updateDate") > rec["updateDate"]:
                return "updateDate did not advance"
        out = {"ok": True, "check": check, "commit": lambda: self.sm.__setitem__(arn, new)}
        if lenient:
            out["lenient"] = True
            out["types"] = {"InvalidDefinition"}
        return out

    def x_DeleteStateMachine(self, p, now):
        arn, e = self.arn_arg(p, "stateMachineArn", SM_RE)
        if e:
            return e
        if arn not in self.sm:
            return self.err("StateMachineDoesNotExist")
        return {"ok": True, "check": lambda body: None, "commit": lambda: self.sm.pop(arn)}

    def x_StartExecution(self, p, now):
        arn, e = self.arn_arg(p, "stateMachineArn", SM_RE)
        if e:
            return e
        name = p.get("name")
        if "name" in p and not valid_name(name):
            return self.err("InvalidName")
        inp = p.get("input", "{}")
        parsed = None
        if not isinstance(inp, str) or len(inp) > 262144:
            return self.err("InvalidExecutionInput", "ValidationException")
        try:
            parsed = json.loads(inp)
        except ValueError:
            return self.err("InvalidExecutionInput")
        if arn not in self.sm:
            return self.err("StateMachineDoesNotExist")
        rec = self.sm[arn]
        out = {}

        def check(body):
            ea = body.get("executionArn", "")
            if name is not None:
                want = "arn:aws:states:%s:%s:execution:%s:%s" % (arn.split(":")[3], arn.split(":")[4], rec["name"], name)
                if ea != want:
                    return "executionArn %r != %r" % (ea, want)
            elif not ea.startswith("arn:aws:states:%s:%s:execution:%s:" % (arn.split(":")[3], arn.split(":")[4], rec["name"])):
                return "executionArn %r does not belong to %s" % (ea, arn)
            if abs(body.get("startDate", -1) - now) > 1e-3:
                return "startDate %r != %r" % (body.get("startDate"), now)
            out["arn"] = ea

        def commit():
            if rec["type"] == "STANDARD":
                self.ex[out["arn"]] = {"executionArn": out["arn"], "stateMachineArn": arn, "name": out["arn"].split(":")[-1],
                                       "input": parsed, "definition": rec["definition"], "startDate": now}
        return {"ok": True, "check": check, "commit": commit}

    def status_of(self, ex, now):
        """Expected status/output of the trivially fast machines the generator uses."""
        d = ex["definition"]
        if not isinstance(d, dict) or "States" not in d:
            return "?", None, None   # not a state machine at all (accepted leniently): outcome is C18's business
        st = d["States"][d["StartAt"]]
        t = st["Type"]
        if t == "Fail":
            return "FAILED", None, st.get("Error")
        if t == "Wait":
            return ("RUNNING", None, None) if now < ex["startDate"] + st["Seconds"] else ("SUCCEEDED", ex["input"], None)
        if t == "Pass" and "Result" in st:
            return "SUCCEEDED", st["Result"], None
        if t == "Parallel":
            # (the generator's Parallel machines: every branch is one Pass state with a Result)
            return "SUCCEEDED", [b["States"][b["StartAt"]]["Result"] for b in st["Branches"]], None
        return "SUCCEEDED", ex["input"], None

    def x_DescribeExecution(self, p, now):
        arn, e = self.arn_arg(p, "executionArn", EX_RE)
        if e:
            return e
        if arn not in self.ex:
            return self.err("ExecutionDoesNotExist")
        ex = self.ex[arn]
        st, out, err = self.status_of(ex, now)
        if st == "?":
            return {"ok": True, "lenient": True, "check": lambda body: None, "types": {"ExecutionDoesNotExist"}}

        def check(body):
            if st == "?":
                return None
            if body.get("status") != st:
                return "status %r != %r" % (body.get("status"), st)
            for k in ("executionArn", "stateMachineArn", "name"):
                if body.get(k) != ex[k]:
                    return "%s %r != %r" % (k, body.get(k), ex[k])
            try:
                if json.loads(body.get("input")) != ex["input"]:
                    return "input %r != %r" % (body.get("input"), ex["input"])
            except (TypeError, ValueError):
                return "input is not JSON text"
            if st == "SUCCEEDED":
                try:
                    if json.loads(body.get("output")) != out:
                        return "output %r != %r" % (body.get("output"), out)
                except (TypeError, ValueError):
                    return "output is not JSON text"
            if st == "FAILED" and body.get("error") != err:
                return "error %r != %r" % (body.get("error"), err)
            if abs(body.get("startDate", -1) - ex["startDate"]) > 0.25:
                return "startDate %r != %r" % (body.get("startDate"), ex["startDate"])
        return {"ok": True, "check": check}

    def x_ListExecutions(self, p, now):
        arn, e = self.arn_arg(p, "stateMachineArn", SM_RE)
        if e:
            return e
        if arn not in self.sm:
            return self.err("StateMachineDoesNotExist")
        flt = p.get("statusFilter")
        if flt is not None and (not isinstance(flt, str) or flt not in ("RUNNING", "SUCCEEDED", "FAILED", "TIMED_OUT", "ABORTED")):
            # not one of the documented values (or not even a string): a validation error or an unfiltered list are both
            # acceptable answers - a server error is not
            return {"ok": True, "lenient": True, "check": lambda body: None, "types": ANY_TYPE}
        want = []
        unknown = set()
        for ex in self.ex.values():
            if ex["stateMachineArn"] != arn:
                continue
            st = self.status_of(ex, now)[0]
            if st == "?":
                unknown.add(ex["executionArn"])
                continue
            if flt is None or st == flt:
                want.append((ex["executionArn"], ex["name"], st))
        want.sort()

        def check(body):
            got = sorted((r.get("executionArn"), r.get("name"), r.get("status")) for r in body.get("executions", [])
                         if r.get("executionArn") not in unknown)
            if got != want:
                return "executions %r != %r" % (got, want)
            for r in body.get("executions", []):
                if r.get("stateMachineArn") != arn:
                    return "execution of another state machine listed: %r" % (r,)
        return {"ok": True, "check": check}

    def x_DescribeStateMachineForExecution(self, p, now):
        arn, e = self.arn_arg(p, "executionArn", EX_RE)
        if e:
            return e
        if arn not in self.ex:
            return self.err("ExecutionDoesNotExist")
        sm = self.ex[arn]["stateMachineArn"]
        if self.status_of(self.ex[arn], now)[0] == "?":
            return {"ok": True, "lenient": True, "check": lambda body: None,
                    "types": {"ExecutionDoesNotExist", "StateMachineDoesNotExist"}}
        if sm not in self.sm:
            return self.err("StateMachineDoesNotExist")
        rec = self.sm[sm]

        def check(body):
            for k in ("name", "roleArn", "stateMachineArn"):
                if body.get(k) != rec[k]:
                    return "%s %r != %r" % (k, body.get(k), rec[k])
            try:
                if json.loads(body.get("definition")) != rec["definition"]:
                    return "definition differs"
            except (TypeError, ValueError):
                return "definition is not JSON text"
        return {"ok": True, "check": check}
