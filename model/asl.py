"""
Reference interpreter for the Amazon States Language, written from the
specification (https://states-language.net/spec.html) and sharing no code with
the repository.  It is the oracle for C01/C05/C07/C08/C09.

run_model(definition, input, script, ...) -> Outcome

Time is virtual, starts at 0.0 at execution start, message latency is zero;
a Task takes its scripted delay, a Wait its duration, a retry its back-off.

Where the specification leaves room (which error name a failed path lookup
gets, which of two simultaneously failing branches wins), the model returns a
*set* of acceptable error names and raises flags instead of choosing.
"""
import copy
import json
import math
from datetime import datetime, timezone, timedelta

from lsfsim.peers import worker_outcome, canon   # the scripted (stub) worker function, shared by both sides

RUNTIME = ("States.Runtime",)
PATH_ERRS = ("States.Runtime", "States.ParameterPathFailure")
UNRECOVERABLE = ("States.Runtime", "States.ExecutionTimeout", "Task.Terminated")


class StateError(Exception):
    """A state failed with one of `names` (first is the spec's name)."""

    def __init__(self, names, cause=None):
        # cause: None = some text the model does not predict; "" = no text; else a substring of the text
        Exception.__init__(self, names, cause)
        self.names = tuple(names) if not isinstance(names, str) else (names,)
        self.cause = cause


class ModelUnsupported(Exception):
    """The program uses something outside the modelled subset."""


# ---------------------------------------------------------------------------------
# Paths (reference-path subset: $, $.a.b, $.a[0], $['a'], $$.<same>)
# ---------------------------------------------------------------------------------
def parse_path(path):
    if not isinstance(path, str) or not path.startswith("$"):
        raise ModelUnsupported("path %r" % (path,))
    ctx = path.startswith("$$")
    s = path[2:] if ctx else path[1:]
    toks = []
    i = 0
    while i < len(s):
        c = s[i]
        if c == ".":
            j = i + 1
            while j < len(s) and s[j] not in ".[":
                j += 1
            name = s[i + 1:j]
            if not name:
                raise ModelUnsupported("path %r" % (path,))
            toks.append(name)
            i = j
        elif c == "[":
            j = s.index("]", i)
            inner = s[i + 1:j]
            if inner[:1] in ("'", '"'):
                toks.append(inner[1:-1])
            else:
                toks.append(int(inner))
            i = j + 1
        else:
            raise ModelUnsupported("path %r" % (path,))
    return ctx, toks


MISSING = object()


def read_path(doc, toks):
    cur = doc
    for t in toks:
        if isinstance(t, int):
            if isinstance(cur, list) and -len(cur) <= t < len(cur):
                cur = cur[t]
            else:
                return MISSING
        else:
            if isinstance(cur, dict) and t in cur:
                cur = cur[t]
            else:
                return MISSING
    return cur


class Flags(object):
    def __init__(self):
        self.null_document = False      # a JSON null became a whole state input / effective input
        self.inband_error = False       # an object with a truthy "Error" member reached a terminal position
        self.inband_task_error = False  # a task result object with a truthy "Error"/"errorType" member
        self.multi_retrier = False      # two different retriers of one state were both used
        self.taskfailed_wildcard = False
        self.tie = False                # simultaneous failures / order dependent outcome
        self.deadline_tie = False       # a reply or wait end coincides exactly with a deadline
        self.ambiguous_calls = False    # same (function, payload) requested from concurrent lanes with a varying script
        self.fanout_failures = 0        # number of branches/iterations that ended in failure
        self.max_fail_depth = 0         # deepest fan-out nesting level at which a branch failed
        self.fanout_handled = 0         # fan-out failures that were then retried or caught by the fan-out state
        self.marker_value = False       # a branch output equals an in-band marker string
        self.big_data = False           # some state output is within an order of magnitude of the data quota
        self.handled_tie = False        # simultaneous branch failures under a fan-out with its own Retry/Catch
        self.cancel_tie = False         # a sibling of a failed branch does something at the very instant of the failure
        self.notes = []

    def as_dict(self):
        return {k: v for k, v in self.__dict__.items() if v}


def has_placeholder(v):
    if isinstance(v, tuple):
        return True
    if isinstance(v, dict):
        return any(has_placeholder(x) for x in v.values())
    if isinstance(v, list):
        return any(has_placeholder(x) for x in v)
    return False


def loose_stable(v):
    """A worker result is usable when placeholders only travel inside it structurally."""
    return not isinstance(v, (int, float)) or isinstance(v, bool)


def select(doc, ctxobj, path, flags, errs=RUNTIME):
    """InputPath/OutputPath/Parameters path semantics."""
    if path is None:
        return {}
    ctx, toks = parse_path(path)
    src = ctxobj if ctx else doc
    v = read_path(src, toks)
    if v is MISSING:
        raise StateError(errs, None)
    return copy.deepcopy(v)


def place(raw, result, path):
    """ResultPath semantics on a deep copy of the raw input."""
    if path is None:
        return copy.deepcopy(raw)
    if path == "$":
        return copy.deepcopy(result)
    ctx, toks = parse_path(path)
    if ctx:
        raise StateError(("States.ResultPathMatchFailure",), None)
    out = copy.deepcopy(raw)
    if not isinstance(out, (dict, list)):
        raise StateError(("States.ResultPathMatchFailure", "States.Runtime"), None)
    cur = out
    for i, t in enumerate(toks):
        last = i == len(toks) - 1
        if isinstance(t, int):
            if not isinstance(cur, list) or not (0 <= t < len(cur)):
                raise StateError(("States.ResultPathMatchFailure", "States.Runtime"), None)
            if last:
                cur[t] = copy.deepcopy(result)
            else:
                if not isinstance(cur[t], (dict, list)):
                    raise StateError(("States.ResultPathMatchFailure", "States.Runtime"), None)
                cur = cur[t]
        else:
            if not isinstance(cur, dict):
                raise StateError(("States.ResultPathMatchFailure", "States.Runtime"), None)
            if last:
                cur[t] = copy.deepcopy(result)
            else:
                if t not in cur:
                    cur[t] = {}
                elif not isinstance(cur[t], (dict, list)):
                    raise StateError(("States.ResultPathMatchFailure", "States.Runtime"), None)
                cur = cur[t]
    return out


# ---------------------------------------------------------------------------------
# Payload templates (only path members and a few intrinsics are modelled)
# ---------------------------------------------------------------------------------
def eval_intrinsic(expr, doc, ctxobj, flags):
    # tiny parser: Name(arg, arg, ...) with args: 'str', number, $path, nested call, true/false/null
    pos = [0]

    def ws():
        while pos[0] < len(expr) and expr[pos[0]] == " ":
            pos[0] += 1

    def parse_call():
        j = expr.index("(", pos[0])
        name = expr[pos[0]:j].strip()
        pos[0] = j + 1
        args = []
        ws()
        if expr[pos[0]] == ")":
            pos[0] += 1
            return name, args
        while True:
            ws()
            args.append(parse_arg())
            ws()
            if expr[pos[0]] == ",":
                pos[0] += 1
                continue
            if expr[pos[0]] == ")":
                pos[0] += 1
                return name, args
            raise ModelUnsupported("intrinsic %r" % expr)

    def parse_arg():
        c = expr[pos[0]]
        if c == "'":
            j = pos[0] + 1
            out = []
            while expr[j] != "'":
                if expr[j] == "\\":
                    raise ModelUnsupported("escape in intrinsic string")
                out.append(expr[j])
                j += 1
            pos[0] = j + 1
            return "".join(out)
        if c == "$":
            j = pos[0]
            while j < len(expr) and expr[j] not in ",) ":
                j += 1
            p = expr[pos[0]:j]
            pos[0] = j
            v = select(doc, ctxobj, p, flags, PATH_ERRS + ("States.IntrinsicFailure",))
            if has_placeholder(v):
                raise ModelUnsupported("intrinsic over text the model does not predict (Cause)")
            return v
        if expr.startswith("States.", pos[0]):
            name, args = parse_call()
            return apply_fn(name, args)
        j = pos[0]
        while j < len(expr) and expr[j] not in ",) ":
            j += 1
        tok = expr[pos[0]:j]
        pos[0] = j
        if tok == "true":
            return True
        if tok == "false":
            return False
        if tok == "null":
            return None
        try:
            return int(tok)
        except ValueError:
            return float(tok)

    def apply_fn(name, args):
        if name == "States.Array":
            return list(args)
        if name == "States.Format":
            fmt = args[0]
            rest = list(args[1:])
            if fmt.count("{}") != len(rest) or "\\" in fmt:
                raise ModelUnsupported("format")
            parts = fmt.split("{}")
            out = parts[0]
            for a, p in zip(rest, parts[1:]):
                if isinstance(a, str):
                    s = a
                elif isinstance(a, bool) or a is None or isinstance(a, (dict, list, float)):
                    raise ModelUnsupported("format arg type")
                else:
                    s = str(a)
                out += s + p
            return out
        if name == "States.MathAdd":
            a, b = args
            if isinstance(a, bool) or isinstance(b, bool) or not isinstance(a, int) or not isinstance(b, int):
                raise ModelUnsupported("mathadd types")
            return a + b
        if name == "States.ArrayLength":
            (a,) = args
            if not isinstance(a, list):
                raise StateError(("States.IntrinsicFailure",), None)
            return len(a)
        if name == "States.ArrayGetItem":
            a, i = args
            if not isinstance(a, list) or isinstance(i, bool) or not isinstance(i, int) or not (0 <= i < len(a)):
                raise ModelUnsupported("ArrayGetItem")
            return a[i]
        raise ModelUnsupported("intrinsic %s" % name)

    name, args = parse_call()
    return apply_fn(name, args)


def template(tpl, doc, ctxobj, flags):
    if tpl is None:
        return copy.deepcopy(doc)
    if isinstance(tpl, dict):
        out = {}
        for k, v in tpl.items():
            if k.endswith(".$"):
                if not isinstance(v, str):
                    raise ModelUnsupported("non-string .$ value")
                if v.startswith("$"):
                    out[k[:-2]] = select(doc, ctxobj, v, flags, PATH_ERRS)
                else:
                    out[k[:-2]] = eval_intrinsic(v, doc, ctxobj, flags)
            else:
                out[k] = template_lit(v, doc, ctxobj, flags)
        return out
    raise ModelUnsupported("template must be an object")


def template_lit(v, doc, ctxobj, flags):
    if isinstance(v, dict):
        return template(v, doc, ctxobj, flags)
    if isinstance(v, list):
        for x in v:
            if isinstance(x, str) and x.endswith(".$"):
                raise ModelUnsupported("'.$' string inside array (engine extension)")
        return [template_lit(x, doc, ctxobj, flags) for x in v]
    return copy.deepcopy(v)


# ---------------------------------------------------------------------------------
# Timestamps
# ---------------------------------------------------------------------------------
def parse_ts(s):
    """RFC 3339 -> epoch seconds (float). Independent implementation."""
    s = s.strip()
    if s[-1] in "Zz":
        off = 0
        body = s[:-1]
    else:
        sign = 1 if s[-6] == "+" else -1
        off = sign * (int(s[-5:-3]) * 3600 + int(s[-2:]) * 60)
        body = s[:-6]
    date, tm = body.split("T")
    y, mo, d = (int(x) for x in date.split("-"))
    hh, mm, ss = tm.split(":")
    frac = 0.0
    if "." in ss:
        ss, f = ss.split(".")
        frac = float("0." + f)
    days = (datetime(y, mo, d, tzinfo=timezone.utc) - datetime(1970, 1, 1, tzinfo=timezone.utc)).days
    return days * 86400 + int(hh) * 3600 + int(mm) * 60 + int(ss) + frac - off


# ---------------------------------------------------------------------------------
# Choice (well-typed subset)
# ---------------------------------------------------------------------------------
NUM_OPS = {"NumericEquals": lambda a, b: a == b, "NumericLessThan": lambda a, b: a < b,
           "NumericGreaterThan": lambda a, b: a > b, "NumericLessThanEquals": lambda a, b: a <= b,
           "NumericGreaterThanEquals": lambda a, b: a >= b}
STR_OPS = {"StringEquals": lambda a, b: a == b, "StringLessThan": lambda a, b: a < b,
           "StringGreaterThan": lambda a, b: a > b, "StringLessThanEquals": lambda a, b: a <= b,
           "StringGreaterThanEquals": lambda a, b: a >= b}
TS_OPS = {"TimestampEquals": lambda a, b: a == b, "TimestampLessThan": lambda a, b: a < b,
          "TimestampGreaterThan": lambda a, b: a > b, "TimestampLessThanEquals": lambda a, b: a <= b,
          "TimestampGreaterThanEquals": lambda a, b: a >= b}


def is_num(x):
    return isinstance(x, (int, float)) and not isinstance(x, bool)


def rule_matches(rule, doc, ctxobj, flags):
    if "And" in rule:
        return all(rule_matches(r, doc, ctxobj, flags) for r in rule["And"])
    if "Or" in rule:
        return any(rule_matches(r, doc, ctxobj, flags) for r in rule["Or"])
    if "Not" in rule:
        return not rule_matches(rule["Not"], doc, ctxobj, flags)
    ctx, toks = parse_path(rule["Variable"])
    var = read_path(ctxobj if ctx else doc, toks)
    ops = [k for k in rule if k not in ("Variable", "Next", "Comment")]
    if len(ops) != 1:
        raise ModelUnsupported("rule ops %r" % ops)
    op = ops[0]
    val = rule[op]
    if op == "IsPresent":
        return (var is not MISSING) == val
    if var is MISSING:
        raise ModelUnsupported("comparison on missing variable (left to C14)")
    if op == "IsNull":
        return (var is None) == val
    if op == "IsNumeric":
        return is_num(var) == val
    if op == "IsString":
        return isinstance(var, str) == val
    if op == "IsBoolean":
        return isinstance(var, bool) == val
    if op.endswith("Path"):
        op = op[:-4]
        c2, t2 = parse_path(val)
        val = read_path(ctxobj if c2 else doc, t2)
        if val is MISSING:
            raise ModelUnsupported("missing comparand path")
    if op in NUM_OPS:
        if not (is_num(var) and is_num(val)):
            raise ModelUnsupported("ill-typed comparison (left to C14)")
        return NUM_OPS[op](var, val)
    if op in STR_OPS:
        if not (isinstance(var, str) and isinstance(val, str)):
            raise ModelUnsupported("ill-typed comparison (left to C14)")
        return STR_OPS[op](var, val)
    if op == "BooleanEquals":
        if not (isinstance(var, bool) and isinstance(val, bool)):
            raise ModelUnsupported("ill-typed comparison (left to C14)")
        return var == val
    if op in TS_OPS:
        return TS_OPS[op](parse_ts(var), parse_ts(val))
    raise ModelUnsupported("operator %s" % op)


# ---------------------------------------------------------------------------------
# The interpreter
# ---------------------------------------------------------------------------------
class Outcome(object):
    def __init__(self):
        self.status = None
        self.output = None
        self.errors = None       # tuple of acceptable error names when FAILED
        self.cause_contains = None
        self.t_end = None
        self.requests = []       # (t, fn, payload, state name, attempt)
        self.transitions = []    # (t, kind, state name) kind in entered/exited/failed
        self.flags = Flags()
        self.unsupported = None

    def to_json(self):
        return {"status": self.status, "output": self.output, "errors": self.errors, "t_end": self.t_end}


class Branch(object):
    """Result of running one (sub) state machine to its end."""
    __slots__ = ("ok", "value", "t", "err", "tr", "rq")

    def __init__(self, ok, value, t, err=None):
        self.ok = ok
        self.value = value
        self.t = t
        self.err = err   # StateError
        self.tr = None   # slice of out.transitions written while this branch ran
        self.rq = None   # slice of out.requests


class Interp(object):
    def __init__(self, definition, script, execution_ttl, exec_name, exec_input, sm_arn, exec_arn, epoch,
                 counters=None):
        self.definition = definition
        self.script = script
        self.ttl = definition.get("TimeoutSeconds", execution_ttl)
        self.out = Outcome()
        self.flags = self.out.flags
        self.counters = counters if counters is not None else {}
        self.base_ctx = {
            "Execution": {"Id": exec_arn, "Input": copy.deepcopy(exec_input), "Name": exec_name},
            "StateMachine": {"Id": sm_arn},
        }
        self.epoch = epoch
        self.lane = ()
        self.key_lane = {}

    def ctx(self, state_name, entered, retry=0, map_item=None):
        c = copy.deepcopy(self.base_ctx)
        c["State"] = {"Name": state_name, "RetryCount": retry, "EnteredTime": ("__time__", entered)}
        if map_item is not None:
            c["Map"] = {"Item": {"Index": map_item[0], "Value": copy.deepcopy(map_item[1])}}
        return c

    def deadline(self):
        return float(self.ttl)

    # -- running a (sub) machine -------------------------------------------------------
    def run_machine(self, machine, data, t, map_item_ctx=None):
        name = machine["StartAt"]
        states = machine["States"]
        steps = 0
        while True:
            steps += 1
            if steps > 2000:
                raise ModelUnsupported("too many transitions")
            if name not in states:
                raise ModelUnsupported("transition to unknown state %r" % name)
            st = states[name]
            if data is None:
                self.flags.null_document = True
            if isinstance(data, dict) and data.get("Error"):
                # the engine signals failure in-band through an "Error" member of the event data
                self.flags.inband_error = True
            self.out.transitions.append((t, "entered", name, copy.deepcopy(data)))
            try:
                kind, value, t2, nxt = self.run_state(name, st, data, t)
            except StateError as e:
                self.out.transitions.append((t, "failed", name, e.names))
                raise
            if kind == "fail":
                # Fail state
                return Branch(False, None, t2, value)
            if kind == "error":
                return Branch(False, None, t2, value)
            self.out.transitions.append((t2, "exited", name, copy.deepcopy(value)))
            try:
                # (the model knows nothing of the 262144-character data quota: a run whose data comes anywhere near it -
                # nested Parameters copying "$" or $$.Execution.Input multiply a payload quickly - is marked and left out)
                if len(json.dumps(value)) > 40000:
                    self.flags.big_data = True
            except (TypeError, ValueError):
                pass
            if nxt is None:
                return Branch(True, value, t2)
            name, data, t = nxt, value, t2

    def run_state(self, name, st, raw, t_enter):
        """Returns (kind, value, t_exit, next) ; kind 'ok'|'fail'|'error'."""
        typ = st["Type"]
        if typ == "Fail":
            err = StateError((st.get("Error", "Unspecified"),), st.get("Cause", "Unspecified"))
            self.out.transitions.append((t_enter, "failed", name, err.names))
            return "fail", err, t_enter, None
        if typ in ("Task", "Parallel", "Map"):
            return self.run_with_error_handling(name, st, raw, t_enter)
        try:
            value, t_exit, nxt = self.exec_simple(name, st, raw, t_enter)
            return "ok", value, t_exit, nxt
        except StateError as e:
            self.out.transitions.append((t_enter, "failed", name, e.names))
            return "error", e, getattr(e, "t", t_enter), None

    def next_of(self, st):
        if st.get("End"):
            return None
        if "Next" not in st:
            raise ModelUnsupported("state without Next/End")
        return st["Next"]

    def exec_simple(self, name, st, raw, t):
        typ = st["Type"]
        c = self.ctx(name, t)
        if typ == "Pass":
            eff = select(raw, c, st.get("InputPath", "$"), self.flags)
            eff = template(st.get("Parameters"), eff, c, self.flags) if "Parameters" in st else eff
            result = copy.deepcopy(st["Result"]) if "Result" in st else eff
            out = place(raw, result, st.get("ResultPath", "$"))
            out = select(out, c, st.get("OutputPath", "$"), self.flags)
            return out, t, self.next_of(st)
        if typ == "Succeed":
            eff = select(raw, c, st.get("InputPath", "$"), self.flags)
            out = select(eff, c, st.get("OutputPath", "$"), self.flags)
            return out, t, None
        if typ == "Choice":
            eff = select(raw, c, st.get("InputPath", "$"), self.flags)
            nxt = None
            for rule in st.get("Choices", []):
                if rule_matches(rule, eff, c, self.flags):
                    nxt = rule["Next"]
                    break
            if nxt is None:
                nxt = st.get("Default")
            out = select(eff, c, st.get("OutputPath", "$"), self.flags)
            if nxt is None:
                raise StateError(("States.NoChoiceMatched",), None)
            return out, t, nxt
        if typ == "Wait":
            eff = select(raw, c, st.get("InputPath", "$"), self.flags)
            if "Seconds" in st:
                target = t + st["Seconds"]
            elif "SecondsPath" in st:
                s = select(eff, c, st["SecondsPath"], self.flags)
                if isinstance(s, bool) or not isinstance(s, (int, float)):
                    raise ModelUnsupported("SecondsPath not a number")
                target = t + s
            elif "Timestamp" in st:
                target = parse_ts(st["Timestamp"]) - self.epoch
            elif "TimestampPath" in st:
                s = select(eff, c, st["TimestampPath"], self.flags)
                if not isinstance(s, str):
                    raise ModelUnsupported("TimestampPath not a string")
                target = parse_ts(s) - self.epoch
            else:
                raise ModelUnsupported("wait without duration")
            t_exit = max(t, target)
            if t_exit > self.deadline() or (t_exit == self.deadline() and target > t):
                if t_exit == self.deadline():
                    self.flags.deadline_tie = True
                e = StateError(("States.ExecutionTimeout",), "Execution ran for longer than the specified timeout value")
                e.t = self.deadline()
                raise e
            out = select(eff, c, st.get("OutputPath", "$"), self.flags)
            return out, t_exit, self.next_of(st)
        raise ModelUnsupported("state type %r" % typ)

    # -- Task / Parallel / Map with Retry and Catch ---------------------------------------
    def run_with_error_handling(self, name, st, raw, t_enter):
        retriers = st.get("Retry") or []
        counts = [0] * len(retriers)
        used = set()
        attempt = 0
        t = t_enter
        while True:
            try:
                value, t_exit = self.exec_work(name, st, raw, t, attempt)
                return "ok", value, t_exit, self.next_of(st)
            except StateError as e:
                t_fail = getattr(e, "t", t)
                decided = False
                if not self.unrecoverable(e):
                    for i, r in enumerate(retriers):
                        if self.error_matches(r["ErrorEquals"], e):
                            used.add(i)
                            if len(used) > 1:
                                self.flags.multi_retrier = True
                            mx = r.get("MaxAttempts", 3)
                            if counts[i] < mx:
                                if getattr(e, "fanout_failed", False):
                                    self.flags.fanout_handled += 1
                                delay = r.get("IntervalSeconds", 1) * (max(r.get("BackoffRate", 2.0), 1.0) ** counts[i])
                                counts[i] += 1
                                attempt += 1
                                t = t_fail + delay
                                self.out.transitions.append((t_fail, "retry", name, (e.names, delay)))
                                decided = True
                            break
                if decided:
                    if t > self.deadline():
                        # a retry delay never extends past the execution deadline: the retried run starts there and,
                        # the deadline having been reached, times out at once
                        t = self.deadline()
                        self.retry_cut_at_deadline = True
                    continue
                if not self.unrecoverable(e):
                    for ctr in (st.get("Catch") or []):
                        if self.error_matches(ctr["ErrorEquals"], e):
                            err_out = {"Error": ("__oneof__", e.names) if len(e.names) > 1 else e.names[0]}
                            if e.cause != "":
                                err_out["Cause"] = ("__contains__", e.cause or "")
                            try:
                                value = place(raw, err_out, ctr.get("ResultPath", "$"))
                            except StateError as e2:
                                e2.t = t_fail
                                self.out.transitions.append((t_fail, "failed", name, e2.names))
                                return "error", e2, t_fail, None
                            if getattr(e, "fanout_failed", False):
                                self.flags.fanout_handled += 1
                            self.out.transitions.append((t_fail, "caught", name, (e.names, ctr["Next"])))
                            return "ok", value, t_fail, ctr["Next"]
                self.out.transitions.append((t_fail, "failed", name, e.names))
                return "error", e, t_fail, None

    def unrecoverable(self, e):
        return e.names[0] in UNRECOVERABLE

    def error_matches(self, equals, e):
        name = e.names[0]
        if len(e.names) > 1:
            # the engine may report a different (accepted) name: only agree when every reading matches alike
            res = set(self._match1(equals, n) for n in e.names)
            if len(res) > 1:
                raise ModelUnsupported("error handling depends on an under-specified error name")
        if "States.TaskFailed" in equals and name != "States.TaskFailed":
            self.flags.taskfailed_wildcard = True
        return self._match1(equals, name)

    @staticmethod
    def _match1(equals, name):
        if name in equals:
            return True
        if "States.ALL" in equals:
            return name not in UNRECOVERABLE
        return False

    def exec_work(self, name, st, raw, t, attempt):
        typ = st["Type"]
        c = self.ctx(name, t, attempt)
        if typ == "Task":
            return self.exec_task(name, st, raw, t, attempt, c)
        if typ == "Parallel":
            eff = select(raw, c, st.get("InputPath", "$"), self.flags)
            eff = template(st.get("Parameters"), eff, c, self.flags) if "Parameters" in st else eff
            self.out.transitions.append((t, "fanout", name, len(st["Branches"])))
            branches = []
            for bi, b in enumerate(st["Branches"]):
                branches.append(self.run_branch(b, copy.deepcopy(eff), t, (name, bi)))
            results, t_join = self.join(name, branches, t, bool(st.get('Retry') or st.get('Catch')))
            return self.finish_fanout(name, st, raw, results, t_join, c), t_join
        if typ == "Map":
            eff = select(raw, c, st.get("InputPath", "$"), self.flags)
            items = select(eff, c, st.get("ItemsPath", "$"), self.flags)
            if not isinstance(items, list):
                raise ModelUnsupported("Map over a non-array")
            proc = st.get("ItemProcessor") or st.get("Iterator")
            sel = st.get("ItemSelector", st.get("Parameters"))
            mc = st.get("MaxConcurrency", 0) or len(items)
            self.out.transitions.append((t, "fanout", name, len(items)))
            results = []
            tcur = t
            i = 0
            while i < len(items):
                batch = []
                for j in range(i, min(i + mc, len(items))):
                    item = items[j]
                    ci = self.ctx(name, t, attempt, (j, item))
                    inp = template(sel, eff, ci, self.flags) if sel is not None else copy.deepcopy(item)
                    if inp is None:
                        self.flags.null_document = True
                    batch.append(self.run_branch(proc, inp, tcur, (name, j)))
                res, tcur = self.join(name, batch, tcur, bool(st.get('Retry') or st.get('Catch')))
                results.extend(res)
                i += mc
            return self.finish_fanout(name, st, raw, results, tcur, c), tcur
        raise ModelUnsupported(typ)

    def run_branch(self, machine, data, t, lane=None):
        prev = self.lane
        self.lane = prev + (lane,)
        i0, r0 = len(self.out.transitions), len(self.out.requests)
        try:
            b = self.run_machine(machine, data, t)
        except StateError as e:
            b = Branch(False, None, getattr(e, "t", t), e)
        finally:
            self.lane = prev
        b.tr = (i0, len(self.out.transitions))
        b.rq = (r0, len(self.out.requests))
        if not b.ok:
            self.flags.fanout_failures += 1
            self.flags.max_fail_depth = max(self.flags.max_fail_depth, len(prev) + 1)
        return b

    def cancel_siblings(self, branches, first, tmin):
        """
        What the siblings of the branch that failed (first, at tmin) would have done after that instant does not
        happen: they are cancelled.  Their later transitions and requests are struck out (None, removed at the end);
        anything of theirs that falls exactly on tmin is left in and the run is marked as undecided there.
        """
        if len(first) != 1:
            self.flags.cancel_tie = True
            return
        for b in branches:
            if b is first[0] or b.tr is None:
                continue
            for i in range(b.tr[0], b.tr[1]):
                x = self.out.transitions[i]
                if x is None:
                    continue
                if x[0] > tmin:
                    self.out.transitions[i] = None
                elif x[0] == tmin:
                    self.flags.cancel_tie = True
            for i in range(b.rq[0], b.rq[1]):
                x = self.out.requests[i]
                if x is None:
                    continue
                if x[0] > tmin:
                    self.out.requests[i] = None
                    if len(self.script.get(x[1]) or []) > 1:
                        # the struck-out call consumed a scripted outcome in the model only
                        self.flags.ambiguous_calls = True
                elif x[0] == tmin:
                    self.flags.cancel_tie = True

    def join(self, name, branches, t, handled=False):
        fails = [b for b in branches if not b.ok]
        for b in branches:
            # in-band conventions of the engine (recorded findings) also matter when another branch fails: a branch
            # output with an "Error" member counts as a failure of that branch there
            if b.ok and isinstance(b.value, dict) and b.value.get("Error"):
                self.flags.inband_error = True
            if b.ok and b.value in ("__CAUGHT__", "__TERMINATED__"):
                self.flags.marker_value = True
        if fails:
            tmin = min(b.t for b in fails)
            first = [b for b in fails if b.t == tmin]
            names = []
            for b in fails:
                for n in b.err.names:
                    if n not in names:
                        names.append(n)
            if len(fails) > 1:
                self.flags.tie = True
            e = StateError(tuple(first[0].err.names) if len(fails) == 1 else tuple(names), first[0].err.cause)
            self.cancel_siblings(branches, first, tmin)
            if handled and len(fails) > 1:
                # what the fan-out's own Retry/Catch does depends on WHICH failure it sees: under the canonical
                # schedule that is the strictly earliest one (the later ones are cancelled before they happen);
                # several failures at the same instant leave it open
                if len(first) == 1:
                    e = StateError(tuple(first[0].err.names), first[0].err.cause)
                else:
                    self.flags.handled_tie = True
            if e.names[0] == "States.ExecutionTimeout" and len(fails) > 1:
                pass
            e.t = tmin
            e.fanout_failed = True
            raise e
        for b in branches:
            if b.value in ("__CAUGHT__", "__TERMINATED__"):
                self.flags.marker_value = True
            if isinstance(b.value, dict) and b.value.get("Error"):
                self.flags.inband_error = True
            if b.value is None:
                self.flags.null_document = True
        t_join = max([b.t for b in branches] + [t])
        return [b.value for b in branches], t_join

    def finish_fanout(self, name, st, raw, results, t, c):
        c = self.ctx(name, c["State"]["EnteredTime"][1], c["State"]["RetryCount"])
        try:
            eff = template(st.get("ResultSelector"), results, c, self.flags) if "ResultSelector" in st else results
            out = place(raw, eff, st.get("ResultPath", "$"))
            return select(out, c, st.get("OutputPath", "$"), self.flags)
        except StateError as e:
            e.t = t
            raise

    def exec_task(self, name, st, raw, t, attempt, c):
        res = st.get("Resource", "")
        long_form = res in ("arn:aws:states:local::rpcmessage:invoke", "arn:aws:states:::rpcmessage:invoke")
        if not long_form and not res.startswith("arn:aws:rpcmessage:local::function:"):
            raise ModelUnsupported("task resource %r" % res)
        fn = res.rsplit(":", 1)[1]
        eff = select(raw, c, st.get("InputPath", "$"), self.flags)
        eff = template(st.get("Parameters"), eff, c, self.flags) if "Parameters" in st else eff
        if long_form:
            # "arn:aws:states:::rpcmessage:invoke": the function is named by Parameters.FunctionName, its arguments
            # are Parameters.Payload (default {}), and the result comes wrapped in invocation metadata
            if not isinstance(eff, dict) or not isinstance(eff.get("FunctionName"), str) or not eff["FunctionName"]:
                raise ModelUnsupported("long-form invoke without FunctionName")
            fn = eff["FunctionName"].rsplit(":", 1)[1]
            eff = eff.get("Payload", {})
        if "TimeoutSecondsPath" in st:
            ts = select(raw, c, st["TimeoutSecondsPath"], self.flags)
            if isinstance(ts, bool) or not isinstance(ts, int):
                raise ModelUnsupported("TimeoutSecondsPath not int")
        else:
            ts = st.get("TimeoutSeconds", 99999999)
        key = (fn, canon(eff))
        if len(self.script.get(fn) or []) > 1:
            if has_placeholder(eff):
                # the payload contains text the model does not predict (a Cause), so the per-payload call index,
                # and with it the scripted outcome, cannot be predicted either
                self.flags.ambiguous_calls = True
            ln = self.key_lane.setdefault(key, self.lane)
            if ln != self.lane:
                # the same (function, payload) is requested from two concurrent lanes: the call index,
                # and with it the scripted outcome, depends on the schedule
                self.flags.ambiguous_calls = True
        idx = self.counters.get(key, 0)
        self.counters[key] = idx + 1
        self.out.requests.append((t, fn, copy.deepcopy(eff), name, attempt))
        o = worker_outcome(self.script, fn, eff, idx)
        if has_placeholder(eff) and o.get("kind") == "result" and not loose_stable(o["value"]):
            raise ModelUnsupported("task result computed from text the model does not predict")
        if t >= self.deadline():
            # the execution deadline has already passed: the request still goes out with a zero time-out, so an
            # immediate reply races with the timer
            e = StateError(("States.ExecutionTimeout",), "Execution ran for longer than the specified timeout value")
            e.t = t
            if (t == self.deadline() and not getattr(self, "retry_cut_at_deadline", False)) or \
                    (o["kind"] != "noreply" and o["delay"] == 0):
                self.flags.deadline_tie = True
            raise e
        t_task_to = t + ts
        t_exec_to = self.deadline()
        t_to = min(t_task_to, t_exec_to)
        exec_first = t_exec_to <= t_task_to
        if t_exec_to == t_task_to:
            self.flags.deadline_tie = True
        if o["kind"] == "noreply" or t + o["delay"] > t_to:
            e = StateError(("States.ExecutionTimeout",) if exec_first else ("States.Timeout",), None)
            e.t = t_to
            raise e
        if t + o["delay"] == t_to:
            self.flags.deadline_tie = True
        t_done = t + o["delay"]
        if o["kind"] == "garbage":
            e = StateError(("States.Runtime",), "does not contain valid JSON")
            e.t = t_done
            raise e
        if o["kind"] == "error":
            # (an error reply without errorMessage gives an Error Output without Cause: "" stands for "no Cause")
            e = StateError((o["errorType"],), o["errorMessage"] if o["errorMessage"] is not None else "")
            e.t = t_done
            raise e
        result = o["value"] if o["kind"] == "result" else json.loads(o["value"])
        if isinstance(result, dict) and (result.get("Error") or result.get("errorType")):
            self.flags.inband_task_error = True
        if long_form:
            result = {"ExecutedVersion": "$LATEST", "Payload": result,
                      "SdkResponseMetadata": {"RequestId": ("__time__",)}, "StatusCode": 200}
        c2 = self.ctx(name, t, attempt)
        try:
            if "ResultSelector" in st:
                result = template(st["ResultSelector"], result, c2, self.flags)
            out = place(raw, result, st.get("ResultPath", "$"))
            out = select(out, c2, st.get("OutputPath", "$"), self.flags)
        except StateError as e:
            e.t = t_done
            raise
        return out, t_done


def run_model(definition, input_, script, execution_ttl=86400, exec_name="e", sm_arn="", exec_arn="",
              epoch=0.0, counters=None):
    """epoch: absolute time (s since 1970) of execution start, needed for Timestamp waits."""
    it = Interp(definition, script, execution_ttl, exec_name, input_, sm_arn, exec_arn, epoch, counters)
    out = it.out
    try:
        if input_ is None:
            out.flags.null_document = True
        b = it.run_machine(definition, copy.deepcopy(input_), 0.0)
    except ModelUnsupported as e:
        out.unsupported = str(e)
        out.transitions = [x for x in out.transitions if x is not None]
        out.requests = [x for x in out.requests if x is not None]
        return out
    except StateError as e:
        b = Branch(False, None, getattr(e, "t", 0.0), e)
    out.t_end = b.t
    out.transitions = [x for x in out.transitions if x is not None]
    out.requests = [x for x in out.requests if x is not None]
    if b.ok:
        out.status = "SUCCEEDED"
        out.output = b.value
        if isinstance(b.value, dict) and b.value.get("Error"):
            out.flags.inband_error = True
    else:
        out.status = "FAILED"
        names = tuple("States.Timeout" if n == "States.ExecutionTimeout" else n for n in b.err.names)
        out.errors = names
        out.cause_contains = b.err.cause
    return out
